//@host src/lib.rs
// witness scenario from seeded change C05-c (independent sub-agent demonstration); passes on the unchanged tree
//! Demonstration for seed C05c: a dead server must be detected by the heartbeat timers even while
//! the client still has unsent data queued.
//!
//! Everything here goes through the public API (`Connection::insecure_open_stream`,
//! `Connection::open_channel`, `Connection::close`) on top of an in-memory transport whose
//! readiness is driven with a `mio::Registration`. The transport behaves like a non-blocking
//! socket: `read`/`write` return `WouldBlock` when there is nothing to read / the peer does not
//! take any more data, and (like a socket) drop the corresponding readiness when they do.
//!
//! The only clock involved is the heartbeat clock itself (the smallest interval AMQP can
//! negotiate is 1 second, so the server is declared dead after 2 seconds). Every wait in the
//! tests has a deadline, and a test that runs into its deadline first "rescues" the blocked
//! caller by closing the transport, so that no thread is left behind.

use crate::serialize::OutputBuffer;
use crate::{Auth, Connection, ConnectionOptions, ConnectionTuning, Error, FieldTable, IoStream};
use amq_protocol::frame::{parse_frame, AMQPFrame};
use amq_protocol::protocol::connection::AMQPMethod as AmqpConnection;
use amq_protocol::protocol::connection::{OpenOk, Start, Tune};
use amq_protocol::protocol::AMQPClass;
use mio::{Evented, Poll, PollOpt, Ready, Registration, SetReadiness, Token};
use std::collections::VecDeque;
use std::io::{self, Read, Write};
use std::sync::mpsc;
use std::sync::{Arc, Mutex};
use std::thread;
use std::time::{Duration, Instant};

// Heartbeat interval negotiated by the handshake (seconds). The client gives up on the server
// after 2 intervals without any inbound data.
const HEARTBEAT_SECS: u16 = 1;

// How long we are prepared to wait for a caller to be released. The heartbeat mechanism must have
// fired after 2 * HEARTBEAT_SECS; leave a generous margin on top.
const RELEASE_DEADLINE: Duration = Duration::from_secs(7);

struct Wire {
    to_client: VecDeque<u8>,
    eof: bool,
    from_client: Vec<u8>,
    writes_stalled: bool,
    readiness: Ready,
    transport_dropped: bool,
}

/// The client's end: this is what is handed to `Connection::insecure_open_stream`.
struct MockStream {
    wire: Arc<Mutex<Wire>>,
    registration: Registration,
    set_readiness: SetReadiness,
}

/// The test's end ("the server").
struct Peer {
    wire: Arc<Mutex<Wire>>,
    set_readiness: SetReadiness,
}

fn transport() -> (MockStream, Peer) {
    let (registration, set_readiness) = Registration::new2();
    let readiness = Ready::writable();
    set_readiness.set_readiness(readiness).unwrap();
    let wire = Arc::new(Mutex::new(Wire {
        to_client: VecDeque::new(),
        eof: false,
        from_client: Vec::new(),
        writes_stalled: false,
        readiness,
        transport_dropped: false,
    }));
    (
        MockStream {
            wire: wire.clone(),
            registration,
            set_readiness: set_readiness.clone(),
        },
        Peer {
            wire,
            set_readiness,
        },
    )
}

impl Read for MockStream {
    fn read(&mut self, buf: &mut [u8]) -> io::Result<usize> {
        let mut wire = self.wire.lock().unwrap();
        if wire.to_client.is_empty() {
            if wire.eof {
                return Ok(0);
            }
            wire.readiness.remove(Ready::readable());
            self.set_readiness.set_readiness(wire.readiness)?;
            return Err(io::ErrorKind::WouldBlock.into());
        }
        let n = usize::min(buf.len(), wire.to_client.len());
        for (dst, byte) in buf.iter_mut().zip(wire.to_client.drain(..n)) {
            *dst = byte;
        }
        Ok(n)
    }
}

impl Write for MockStream {
    fn write(&mut self, buf: &[u8]) -> io::Result<usize> {
        let mut wire = self.wire.lock().unwrap();
        if wire.writes_stalled {
            wire.readiness.remove(Ready::writable());
            self.set_readiness.set_readiness(wire.readiness)?;
            return Err(io::ErrorKind::WouldBlock.into());
        }
        wire.from_client.extend_from_slice(buf);
        Ok(buf.len())
    }

    fn flush(&mut self) -> io::Result<()> {
        Ok(())
    }
}

impl Evented for MockStream {
    fn register(&self, poll: &Poll, token: Token, interest: Ready, opts: PollOpt) -> io::Result<()> {
        self.registration.register(poll, token, interest, opts)
    }

    fn reregister(
        &self,
        poll: &Poll,
        token: Token,
        interest: Ready,
        opts: PollOpt,
    ) -> io::Result<()> {
        self.registration.reregister(poll, token, interest, opts)
    }

    fn deregister(&self, poll: &Poll) -> io::Result<()> {
        Evented::deregister(&self.registration, poll)
    }
}

impl IoStream for MockStream {}

impl Drop for MockStream {
    fn drop(&mut self) {
        self.wire.lock().unwrap().transport_dropped = true;
    }
}

impl Peer {
    /// Server -> client bytes.
    fn send(&self, bytes: &[u8]) {
        let mut wire = self.wire.lock().unwrap();
        wire.to_client.extend(bytes.iter().copied());
        wire.readiness.insert(Ready::readable());
        self.set_readiness.set_readiness(wire.readiness).unwrap();
    }

    /// Stop taking data from the client: from now on its writes return `WouldBlock`.
    fn stall_writes(&self) {
        self.wire.lock().unwrap().writes_stalled = true;
    }

    /// Close the server's end: once the client has read everything, it sees EOF.
    fn close(&self) {
        let mut wire = self.wire.lock().unwrap();
        wire.eof = true;
        wire.readiness.insert(Ready::readable());
        self.set_readiness.set_readiness(wire.readiness).unwrap();
    }

    fn transport_dropped(&self) -> bool {
        self.wire.lock().unwrap().transport_dropped
    }

    /// All complete frames the client has written so far (after the 8 byte protocol header).
    fn client_frames(&self) -> Vec<AMQPFrame> {
        let wire = self.wire.lock().unwrap();
        let mut frames = Vec::new();
        if wire.from_client.len() < 8 {
            return frames;
        }
        assert_eq!(&wire.from_client[..8], b"AMQP\x00\x00\x09\x01");
        let mut rest = &wire.from_client[8..];
        while let Ok((tail, frame)) = parse_frame(rest) {
            frames.push(frame);
            rest = tail;
        }
        frames
    }

    fn wait_for_client_frame<F: Fn(&AMQPFrame) -> bool>(&self, what: &str, pred: F) {
        let deadline = Instant::now() + Duration::from_secs(5);
        while !self.client_frames().iter().any(|f| pred(f)) {
            assert!(
                Instant::now() < deadline,
                "client did not send {} in time",
                what
            );
            thread::sleep(Duration::from_millis(2));
        }
    }
}

/// Open a connection over a fresh mock transport. The server's half of the handshake (Start,
/// Tune with a 1 second heartbeat, OpenOk) is queued up front; returns once the client's half
/// has been written out completely, i.e. with an idle, established connection.
fn establish() -> (Connection, Peer) {
    let (stream, peer) = transport();

    let mut handshake = OutputBuffer::empty();
    handshake.push_method(
        0,
        AmqpConnection::Start(Start {
            version_major: 0,
            version_minor: 9,
            server_properties: FieldTable::new(),
            mechanisms: "PLAIN".to_string(),
            locales: "en_US".to_string(),
        }),
    );
    handshake.push_method(
        0,
        AmqpConnection::Tune(Tune {
            channel_max: 16,
            frame_max: 131_072,
            heartbeat: HEARTBEAT_SECS,
        }),
    );
    handshake.push_method(
        0,
        AmqpConnection::OpenOk(OpenOk {
            known_hosts: String::new(),
        }),
    );
    peer.send(&handshake[0..]);

    let connection = Connection::insecure_open_stream(
        stream,
        ConnectionOptions::<Auth>::default().heartbeat(HEARTBEAT_SECS),
        ConnectionTuning::default(),
    )
    .expect("handshake over the mock transport");

    peer.wait_for_client_frame("connection.open", |frame| match frame {
        AMQPFrame::Method(0, AMQPClass::Connection(AmqpConnection::Open(_))) => true,
        _ => false,
    });
    (connection, peer)
}

struct Outcome {
    open_channel_failed: bool,
    close_result: Result<(), Error>,
}

/// On its own thread: call `open_channel` (an RPC that needs an answer from the server, which
/// never comes) and, once that has returned, `close`. Reports what both returned.
fn call_open_channel_then_close(mut connection: Connection) -> mpsc::Receiver<Outcome> {
    let (tx, rx) = mpsc::channel();
    thread::spawn(move || {
        let open_channel_failed = connection.open_channel(None).is_err();
        let close_result = connection.close();
        let _ = tx.send(Outcome {
            open_channel_failed,
            close_result,
        });
    });
    rx
}

/// Wait for the caller to be released by the library itself. If that does not happen before the
/// deadline, close the transport so that the caller (and the I/O thread) get out, and report the
/// hang.
fn expect_release(rx: &mpsc::Receiver<Outcome>, peer: &Peer) -> Result<Outcome, String> {
    let start = Instant::now();
    match rx.recv_timeout(RELEASE_DEADLINE) {
        Ok(outcome) => Ok(outcome),
        Err(_) => {
            peer.close();
            let rescued = rx.recv_timeout(Duration::from_secs(5));
            Err(format!(
                "caller still blocked {:?} after the server went silent (heartbeat = {}s); \
                 after closing the transport by hand: close() -> {:?}",
                start.elapsed(),
                HEARTBEAT_SECS,
                rescued.ok().map(|outcome| outcome.close_result),
            ))
        }
    }
}

fn assert_missed_heartbeats(outcome: Outcome, peer: &Peer) {
    assert!(
        outcome.open_channel_failed,
        "open_channel on a dead connection must fail"
    );
    match outcome.close_result {
        Err(Error::MissedServerHeartbeats) => (),
        other => panic!("close() should report MissedServerHeartbeats, got {:?}", other),
    }
    assert!(
        peer.transport_dropped(),
        "transport must be released once close() has returned"
    );
}

/// Control: the server goes silent but still takes the client's data off the wire. The client
/// has nothing queued when the rx heartbeat timer expires.
#[test]
fn control_silent_server_is_detected_by_heartbeats() {
    let (connection, peer) = establish();

    let rx = call_open_channel_then_close(connection);
    let outcome = expect_release(&rx, &peer).unwrap_or_else(|hang| panic!("{}", hang));

    // the request did go out; it just never got an answer
    assert!(peer.client_frames().iter().any(|frame| match frame {
        AMQPFrame::Method(1, AMQPClass::Channel(_)) => true,
        _ => false,
    }));
    assert_missed_heartbeats(outcome, &peer);
}

/// Control: a visible failure (EOF) while the client has unsent data queued and a caller blocked.
#[test]
fn control_eof_with_stalled_writes_releases_caller() {
    let (connection, peer) = establish();
    peer.stall_writes();

    let rx = call_open_channel_then_close(connection);
    peer.close();
    let outcome = expect_release(&rx, &peer).unwrap_or_else(|hang| panic!("{}", hang));

    assert!(outcome.open_channel_failed);
    match outcome.close_result {
        Err(Error::UnexpectedSocketClose) => (),
        other => panic!("close() should report UnexpectedSocketClose, got {:?}", other),
    }
    assert!(peer.transport_dropped());
}

/// The server goes completely dead: it sends nothing and takes nothing (as when the peer or the
/// network path disappears without a FIN/RST and the socket buffers are full). The client's
/// request therefore stays queued in the I/O thread's output buffer. Heartbeats are enabled, so
/// the blocked caller must be released with an error once two heartbeat intervals have passed
/// without inbound data, and close() must name MissedServerHeartbeats as the cause.
#[test]
fn dead_server_with_stalled_writes_is_detected_by_heartbeats() {
    let (connection, peer) = establish();
    peer.stall_writes();

    let rx = call_open_channel_then_close(connection);
    let outcome = expect_release(&rx, &peer).unwrap_or_else(|hang| panic!("{}", hang));

    // the request never made it onto the wire
    assert!(!peer.client_frames().iter().any(|frame| match frame {
        AMQPFrame::Method(1, _) => true,
        _ => false,
    }));
    assert_missed_heartbeats(outcome, &peer);
}
