//@host src/io_loop/mod.rs
// witness scenario from seeded change C05-f (independent sub-agent demonstration); passes on the unchanged tree
//! Demonstration for seed C05f: a connection whose peer has gone silent (no EOF, no error, it
//! just stops talking) must still be detected through the rx heartbeat watchdog - also while the
//! connection is already shutting down (client Close sent and waiting for CloseOk, server Close
//! acknowledged, client exception raised). Otherwise `Connection::close` / drop never returns.
//!
//! Everything here drives the real code: the two `*_state_machine` tests call the I/O loop's
//! `Inner` directly with a heartbeat interval of a few milliseconds, the two `*_end_to_end`
//! tests run a whole `Connection` against a scripted server on a loopback socket (heartbeat
//! interval 1s, the smallest the protocol allows).
//!
//! Wall clock: the tests only ever wait "at least as long as" something; a loaded machine makes
//! them slower, not wrong. Everything that could block forever runs on a helper thread behind a
//! watchdog, so that a broken library makes a test FAIL instead of hang.

use super::{HeartbeatTimers, Inner};
use crate::serialize::OutputBuffer;
use crate::{Auth, Connection, ConnectionOptions, ConnectionTuning, Error, FieldTable, IoStream};
use amq_protocol::frame::{parse_frame, AMQPFrame};
use amq_protocol::protocol::channel::AMQPMethod as AmqpChannel;
use amq_protocol::protocol::channel::OpenOk as ChannelOpenOk;
use amq_protocol::protocol::connection::AMQPMethod as AmqpConnection;
use amq_protocol::protocol::connection::{OpenOk, Start, Tune};
use amq_protocol::protocol::AMQPClass;
use mio::{Evented, Poll, PollOpt, Ready, Token};
use std::io::{self, Read, Write};
use std::net::{TcpListener, TcpStream};
use std::sync::atomic::{AtomicBool, Ordering};
use std::sync::mpsc;
use std::sync::Arc;
use std::thread;
use std::time::Duration;

// ---------------------------------------------------------------------------------------------
// state machine level
// ---------------------------------------------------------------------------------------------

const TINY_INTERVAL: Duration = Duration::from_millis(40);

/// Wait until well after the rx watchdog (2 x interval, timer granularity 100ms) is due.
fn wait_past_rx_deadline() {
    thread::sleep(TINY_INTERVAL * 2 + Duration::from_millis(260));
}

fn inner_with_heartbeats() -> Inner {
    let mut inner = Inner::new(HeartbeatTimers::default(), 8);
    inner.heartbeats.start(TINY_INTERVAL);
    inner
}

fn assert_missed_heartbeats(result: crate::Result<()>) {
    match result {
        Err(Error::MissedServerHeartbeats) => (),
        other => panic!(
            "silent peer must be reported as MissedServerHeartbeats, got {:?}",
            other
        ),
    }
}

/// CONTROL (passes with and without the change): steady state, peer silent.
#[test]
fn control_silent_peer_in_steady_state_state_machine() {
    let mut inner = inner_with_heartbeats();
    wait_past_rx_deadline();
    assert_missed_heartbeats(inner.process_heartbeat_timers());
}

/// The connection is closing (writes sealed: our Close / CloseOk is queued), peer silent.
#[test]
fn silent_peer_while_closing_state_machine() {
    let mut inner = inner_with_heartbeats();
    inner.seal_writes();
    assert!(inner.are_writes_sealed());
    wait_past_rx_deadline();
    assert_missed_heartbeats(inner.process_heartbeat_timers());
}

// ---------------------------------------------------------------------------------------------
// end to end
// ---------------------------------------------------------------------------------------------

/// Client side transport: a loopback TCP stream that tells us when it is dropped.
struct Transport {
    stream: mio::net::TcpStream,
    released: Arc<AtomicBool>,
}

impl Drop for Transport {
    fn drop(&mut self) {
        self.released.store(true, Ordering::SeqCst);
    }
}

impl Read for Transport {
    fn read(&mut self, buf: &mut [u8]) -> io::Result<usize> {
        self.stream.read(buf)
    }
}

impl Write for Transport {
    fn write(&mut self, buf: &[u8]) -> io::Result<usize> {
        self.stream.write(buf)
    }

    fn flush(&mut self) -> io::Result<()> {
        self.stream.flush()
    }
}

impl Evented for Transport {
    fn register(&self, poll: &Poll, token: Token, interest: Ready, opts: PollOpt) -> io::Result<()> {
        self.stream.register(poll, token, interest, opts)
    }

    fn reregister(
        &self,
        poll: &Poll,
        token: Token,
        interest: Ready,
        opts: PollOpt,
    ) -> io::Result<()> {
        self.stream.reregister(poll, token, interest, opts)
    }

    fn deregister(&self, poll: &Poll) -> io::Result<()> {
        self.stream.deregister(poll)
    }
}

impl IoStream for Transport {}

fn read_frame(stream: &mut TcpStream) -> io::Result<AMQPFrame> {
    let mut buf = vec![0u8; 7];
    stream.read_exact(&mut buf)?;
    let size = u32::from_be_bytes([buf[3], buf[4], buf[5], buf[6]]) as usize;
    buf.resize(7 + size + 1, 0);
    stream.read_exact(&mut buf[7..])?;
    match parse_frame(&buf) {
        Ok((_, frame)) => Ok(frame),
        Err(_) => Err(io::Error::new(io::ErrorKind::InvalidData, "bad frame")),
    }
}

fn send_method<M: crate::serialize::IntoAmqpClass>(
    stream: &mut TcpStream,
    channel_id: u16,
    method: M,
) -> io::Result<()> {
    let mut buf = OutputBuffer::empty();
    buf.push_method(channel_id, method);
    stream.write_all(&buf[0..])
}

/// Scripted server: handshake with a heartbeat interval of 1s, then answer Channel.Open and
/// nothing else. It keeps reading (the client's writes never block) but never sends another
/// byte - no heartbeats, no CloseOk - and keeps its socket open until the client closes its end.
/// `eof_tx` is signalled when the server sees the client's end of the socket go away.
fn silent_server(mut stream: TcpStream, eof_tx: mpsc::Sender<()>) -> io::Result<()> {
    let mut header = [0u8; 8];
    stream.read_exact(&mut header)?;
    assert_eq!(&header, b"AMQP\x00\x00\x09\x01");

    send_method(
        &mut stream,
        0,
        AmqpConnection::Start(Start {
            version_major: 0,
            version_minor: 9,
            server_properties: FieldTable::new(),
            mechanisms: "PLAIN".to_string(),
            locales: "en_US".to_string(),
        }),
    )?;
    read_frame(&mut stream)?; // StartOk
    send_method(
        &mut stream,
        0,
        AmqpConnection::Tune(Tune {
            channel_max: 16,
            frame_max: 131_072,
            heartbeat: 1,
        }),
    )?;
    read_frame(&mut stream)?; // TuneOk
    read_frame(&mut stream)?; // Open
    send_method(
        &mut stream,
        0,
        AmqpConnection::OpenOk(OpenOk {
            known_hosts: String::new(),
        }),
    )?;

    loop {
        match read_frame(&mut stream) {
            Ok(AMQPFrame::Method(n, AMQPClass::Channel(AmqpChannel::Open(_)))) => {
                send_method(
                    &mut stream,
                    n,
                    AmqpChannel::OpenOk(ChannelOpenOk {
                        channel_id: String::new(),
                    }),
                )?;
            }
            Ok(_) => (), // heartbeats, Connection.Close, Queue.Declare, ...: no answer
            Err(_) => {
                let _ = eof_tx.send(());
                return Ok(());
            }
        }
    }
}

struct Session {
    connection: Connection,
    released: Arc<AtomicBool>,
    eof_rx: mpsc::Receiver<()>,
}

fn open_session() -> Session {
    let listener = TcpListener::bind("127.0.0.1:0").unwrap();
    let addr = listener.local_addr().unwrap();
    let (eof_tx, eof_rx) = mpsc::channel();
    thread::spawn(move || {
        let (stream, _) = listener.accept().unwrap();
        let _ = silent_server(stream, eof_tx);
    });

    let released = Arc::new(AtomicBool::new(false));
    let transport = Transport {
        stream: mio::net::TcpStream::connect(&addr).unwrap(),
        released: Arc::clone(&released),
    };
    let connection = Connection::insecure_open_stream(
        transport,
        ConnectionOptions::<Auth>::default().heartbeat(1),
        ConnectionTuning::default(),
    )
    .expect("handshake with the scripted server");
    Session {
        connection,
        released,
        eof_rx,
    }
}

/// Run `f` on a helper thread; None if it has not returned within `limit`.
fn with_watchdog<T: Send + 'static, F: FnOnce() -> T + Send + 'static>(
    limit: Duration,
    f: F,
) -> Option<T> {
    let (tx, rx) = mpsc::channel();
    thread::spawn(move || {
        let _ = tx.send(f());
    });
    rx.recv_timeout(limit).ok()
}

const WATCHDOG: Duration = Duration::from_secs(15);

fn assert_released(session_released: &AtomicBool, eof_rx: &mpsc::Receiver<()>) {
    assert!(
        session_released.load(Ordering::SeqCst),
        "transport must have been dropped when close returns"
    );
    eof_rx
        .recv_timeout(Duration::from_secs(5))
        .expect("server must see the client's end of the socket closed");
}

/// CONTROL (passes with and without the change): the server goes silent while an RPC is in
/// flight; the RPC is released with an error, a later call fails, close reports the root cause
/// and the transport is released.
#[test]
fn control_silent_server_during_rpc_end_to_end() {
    let Session {
        mut connection,
        released,
        eof_rx,
    } = open_session();

    let outcome = with_watchdog(WATCHDOG, move || {
        let channel = connection.open_channel(None).expect("channel.open is answered");
        // never answered by the server
        let declare = channel.queue_declare("q", crate::QueueDeclareOptions::default());
        let declare_failed = declare.is_err();
        let later_failed = channel.qos(0, 1, false).is_err();
        // closing a channel of a dead connection fails quickly; do not let Drop do it again
        let _ = channel.close();
        (declare_failed, later_failed, connection.close())
    });

    let (declare_failed, later_failed, close_result) =
        outcome.expect("blocked RPC / close did not return: caller hangs on a silent server");
    assert!(declare_failed, "RPC in flight must be released with an error");
    assert!(later_failed, "later call must fail");
    assert_missed_heartbeats(close_result);
    assert_released(&released, &eof_rx);
}

/// The server goes silent and the client then closes the connection: Close goes out, CloseOk
/// never comes. Heartbeats are enabled, so close has to give up after two missed intervals and
/// report MissedServerHeartbeats; the I/O thread has exited and the transport is released.
#[test]
fn close_on_silent_server_end_to_end() {
    let Session {
        connection,
        released,
        eof_rx,
    } = open_session();

    let outcome = with_watchdog(WATCHDOG, move || connection.close());

    let close_result = outcome.expect(
        "Connection::close did not return within 15s although heartbeats (1s) are enabled: \
         caller hangs on a silent server",
    );
    assert_missed_heartbeats(close_result);
    assert_released(&released, &eof_rx);
}
