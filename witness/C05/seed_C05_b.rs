//@host src/io_loop/mod.rs
// witness scenario from seeded change C05-b (independent sub-agent demonstration); passes on the unchanged tree
// Demonstration for seeded change C05-b.
//
// Wire with `#[cfg(test)] mod seed_c05b_demo;` in src/io_loop/mod.rs (next to the other `mod`
// lines) and run `cargo test --offline seed_c05b`.
//
// Scenario: an established, idle connection (no heartbeats negotiated, nothing queued to write).
// The peer sends one last complete frame and closes its socket right behind it, so that the frame
// and the EOF are picked up by the same readable wake-up. The property says the I/O thread must
// end with UnexpectedSocketClose, which releases every pending caller and terminates every
// consumer queue.
//
// No AMQP server is involved: the I/O loop state is built by hand (as thread_main would leave it
// after the handshake) and the "server" is the accepting end of a loopback socket that writes 8
// bytes and closes.

use super::*;
use crate::ConnectionTuning;
use std::io::{Cursor, Write};
use std::net::TcpListener;
use std::thread;

// A complete AMQP heartbeat frame (type 8, channel 0, size 0, frame-end 0xCE).
const HEARTBEAT_FRAME: [u8; 8] = [8, 0, 0, 0, 0, 0, 0, 0xCE];

// Pure state-machine level: one read pass over "complete frame, then EOF" must report the EOF.
#[test]
fn seed_c05b_eof_right_behind_a_frame_is_reported() {
    let mut stream = Cursor::new(HEARTBEAT_FRAME.to_vec());
    let mut frame_buffer = FrameBuffer::new();
    let mut frames = 0;
    let res = frame_buffer.read_from(&mut stream, |_| {
        frames += 1;
        Ok(())
    });
    assert_eq!(frames, 1);
    match res {
        Err(Error::UnexpectedSocketClose) => (),
        other => panic!(
            "EOF behind a complete frame was not reported; read_from returned {:?}",
            other
        ),
    }
}

struct Harness {
    io_result: crossbeam_channel::Receiver<Result<()>>,
    rpc_reply: CrossbeamReceiver<Result<ChannelMessage>>,
    consumer: CrossbeamReceiver<ConsumerMessage>,
    // kept alive so that the I/O loop never sees its client handles disappear
    _ch0_handle: IoLoopHandle0,
    _to_io_loop: mio_extras::channel::SyncSender<IoLoopMessage>,
}

// Builds an established connection on a loopback socket whose peer writes `last_words` and then
// closes, with channel 1 open, one RPC reply pending on it and one consumer registered on it, and
// runs the real I/O loop (run_connection) on its own thread.
fn run_established_connection(last_words: &'static [u8]) -> Harness {
    let listener = TcpListener::bind("127.0.0.1:0").unwrap();
    let addr = listener.local_addr().unwrap();
    let mut stream = mio::net::TcpStream::connect(&addr).unwrap();
    let (mut peer, _) = listener.accept().unwrap();
    peer.write_all(last_words).unwrap();
    drop(peer);
    drop(listener);
    // make sure the data and the FIN are both there before the loop polls for the first time
    thread::sleep(Duration::from_millis(200));

    let mut io_loop = IoLoop::new(ConnectionTuning::default()).unwrap();
    // handshake is over: protocol header etc. have been written, socket is registered read-only
    io_loop.inner.outbuf.clear();
    io_loop
        .poll
        .register(&stream, STREAM, Ready::readable(), PollOpt::edge())
        .unwrap();
    let (ch0_slot, ch0_handle) = Channel0Slot::new(io_loop.inner.mio_channel_bound);
    io_loop
        .poll
        .register(
            &ch0_slot.common.rx,
            Token(0),
            Ready::readable(),
            PollOpt::edge(),
        )
        .unwrap();
    io_loop.inner.chan_slots.set_channel_max(16);

    // channel 1: a caller is blocked on `rpc_reply`, a consumer is blocked on `consumer`
    let (to_io_loop, mio_rx) = mio_sync_channel(16);
    let (tx, rpc_reply) = crossbeam_channel::bounded(2);
    let (consumer_tx, consumer) = crossbeam_channel::unbounded();
    let mut consumers = HashMap::new();
    consumers.insert("ctag".to_string(), consumer_tx);
    io_loop
        .poll
        .register(&mio_rx, Token(1), Ready::readable(), PollOpt::edge())
        .unwrap();
    let slot = ChannelSlot {
        rx: mio_rx,
        tx,
        collector: ContentCollector::new(1),
        consumers,
        return_handler: None,
        pub_confirm_handler: None,
    };
    io_loop
        .inner
        .chan_slots
        .insert(Some(1), |_| Ok((slot, ())))
        .unwrap();

    let (result_tx, io_result) = crossbeam_channel::bounded(1);
    thread::spawn(move || {
        let res = io_loop.run_connection(&mut stream, ch0_slot);
        // IoLoop (and with it all slots) and the stream are dropped here, as in thread_main
        drop(io_loop);
        drop(stream);
        let _ = result_tx.send(res);
    });

    Harness {
        io_result,
        rpc_reply,
        consumer,
        _ch0_handle: ch0_handle,
        _to_io_loop: to_io_loop,
    }
}

fn assert_everybody_released(h: Harness) {
    let bound = Duration::from_secs(3);
    match h.io_result.recv_timeout(bound) {
        Ok(Err(Error::UnexpectedSocketClose)) => (),
        Ok(other) => panic!("I/O thread ended with {:?}", other),
        Err(_) => panic!("peer closed the socket, but the I/O thread is still running after 3s"),
    }
    match h.rpc_reply.recv_timeout(bound) {
        Err(crossbeam_channel::RecvTimeoutError::Disconnected) => (),
        Err(crossbeam_channel::RecvTimeoutError::Timeout) => panic!("pending call still hangs"),
        Ok(_) => panic!("pending call got a reply out of nowhere"),
    }
    match h.consumer.recv_timeout(bound) {
        Err(crossbeam_channel::RecvTimeoutError::Disconnected) => (),
        Err(crossbeam_channel::RecvTimeoutError::Timeout) => panic!("consumer queue still open"),
        Ok(_) => panic!("consumer got a message out of nowhere"),
    }
}

// End to end on the real poll loop: the peer's last frame and its FIN arrive together.
#[test]
fn seed_c05b_peer_sends_frame_and_closes_everybody_released() {
    assert_everybody_released(run_established_connection(&HEARTBEAT_FRAME));
}

// Control (passes with and without the change): a bare EOF, or an EOF in the middle of a frame,
// is noticed.
#[test]
fn seed_c05b_control_bare_and_mid_frame_eof() {
    assert_everybody_released(run_established_connection(&[]));
    assert_everybody_released(run_established_connection(&HEARTBEAT_FRAME[..5]));
}
