//@host src/lib.rs
// witness scenario from seeded change C05-h (independent sub-agent demonstration); passes on the unchanged tree
//! Demonstration for property C05 ("when a connection dies, every caller is released with an
//! error; nobody hangs"), seed C05h.
//!
//! The tests talk to the REAL client (Connection::insecure_open_stream, the real I/O thread, the
//! real handles) through an in-memory transport: `MockStream` implements the crate's `IoStream`
//! trait (Read + Write + mio::Evented, the Evented part being a mio::Registration), the other end
//! (`Peer`) plays a scripted AMQP server.
//!
//! Scenario under test: heartbeats are enabled and the peer falls silent (no data, no EOF, no
//! error - e.g. a pulled cable) *while a connection-close handshake is in progress*. The only thing
//! that bounds the client's wait in that situation is the rx heartbeat timer.
//!
//!  * `silent_peer_during_client_close_*`   - Connection::close has sent Close, CloseOk never comes
//!  * `silent_peer_during_client_exception_*` - the client raised a protocol exception, its Close is
//!    stuck behind a transport that does not accept writes, a caller is blocked in an RPC
//!  * `control_*` - pass with and without the seeded change
//!
//! Nothing in here can hang the test binary: everything that may block runs in worker threads that
//! own the Connection / Channel, the test thread only waits on result queues with a timeout.

use crate::serialize::{IntoAmqpClass, OutputBuffer};
use crate::{Auth, Channel, Connection, ConnectionOptions, ConnectionTuning, Error, IoStream};
use crate::{FieldTable, QueueDeclareOptions};
use amq_protocol::frame::{parse_frame, AMQPFrame};
use amq_protocol::protocol::channel::AMQPMethod as AmqpChannel;
use amq_protocol::protocol::channel::Open as ChannelOpen;
use amq_protocol::protocol::channel::OpenOk as ChannelOpenOk;
use amq_protocol::protocol::connection::AMQPMethod as AmqpConnection;
use amq_protocol::protocol::connection::{CloseOk, OpenOk, Start, Tune};
use amq_protocol::protocol::AMQPClass;
use mio::{Evented, Poll, PollOpt, Ready, Registration, SetReadiness, Token};
use std::collections::VecDeque;
use std::io::{self, Read, Write};
use std::sync::atomic::{AtomicBool, Ordering};
use std::sync::mpsc;
use std::sync::{Arc, Mutex};
use std::thread;
use std::time::{Duration, Instant};

// Heartbeat interval negotiated in the tests (seconds; the smallest the protocol allows). The
// client gives up on the server after two silent intervals.
const HEARTBEAT: u16 = 1;
// Generous bound for "returns in bounded time": 2 s are needed, a hang is forever.
const WATCHDOG: Duration = Duration::from_secs(12);

#[derive(Default)]
struct Wire {
    to_client: VecDeque<u8>,
    eof: bool,
    from_client: Vec<u8>,
    block_writes: bool,
}

struct Shared {
    wire: Mutex<Wire>,
    set_readiness: SetReadiness,
    transport_dropped: AtomicBool,
}

impl Shared {
    // Must be called with the wire locked (all readiness changes are serialised by that lock).
    fn readiness(wire: &Wire) -> Ready {
        let mut ready = Ready::empty();
        if !wire.to_client.is_empty() || wire.eof {
            ready |= Ready::readable();
        }
        if !wire.block_writes {
            ready |= Ready::writable();
        }
        ready
    }

    // New edge for the client (peer-side changes).
    fn signal(&self, wire: &Wire) {
        self.set_readiness
            .set_readiness(Shared::readiness(wire))
            .unwrap();
    }

    // Client-side changes: only touch readiness if it changed (e.g. drained -> not readable).
    fn settle(&self, wire: &Wire) {
        let ready = Shared::readiness(wire);
        if ready != self.set_readiness.readiness() {
            self.set_readiness.set_readiness(ready).unwrap();
        }
    }
}

/// Client end of the in-memory transport; this is what the library owns.
struct MockStream {
    shared: Arc<Shared>,
    registration: Registration,
}

impl Read for MockStream {
    fn read(&mut self, buf: &mut [u8]) -> io::Result<usize> {
        let mut wire = self.shared.wire.lock().unwrap();
        let result = if !wire.to_client.is_empty() {
            let n = usize::min(buf.len(), wire.to_client.len());
            for (dst, src) in buf.iter_mut().zip(wire.to_client.drain(..n)) {
                *dst = src;
            }
            Ok(n)
        } else if wire.eof {
            Ok(0)
        } else {
            Err(io::Error::new(io::ErrorKind::WouldBlock, "no data"))
        };
        self.shared.settle(&wire);
        result
    }
}

impl Write for MockStream {
    fn write(&mut self, buf: &[u8]) -> io::Result<usize> {
        let mut wire = self.shared.wire.lock().unwrap();
        let result = if wire.block_writes {
            Err(io::Error::new(io::ErrorKind::WouldBlock, "peer not reading"))
        } else {
            wire.from_client.extend_from_slice(buf);
            Ok(buf.len())
        };
        self.shared.settle(&wire);
        result
    }

    fn flush(&mut self) -> io::Result<()> {
        Ok(())
    }
}

impl Evented for MockStream {
    fn register(&self, poll: &Poll, token: Token, interest: Ready, opts: PollOpt) -> io::Result<()> {
        Evented::register(&self.registration, poll, token, interest, opts)
    }

    fn reregister(
        &self,
        poll: &Poll,
        token: Token,
        interest: Ready,
        opts: PollOpt,
    ) -> io::Result<()> {
        Evented::reregister(&self.registration, poll, token, interest, opts)
    }

    fn deregister(&self, poll: &Poll) -> io::Result<()> {
        Evented::deregister(&self.registration, poll)
    }
}

impl IoStream for MockStream {}

impl Drop for MockStream {
    fn drop(&mut self) {
        self.shared.transport_dropped.store(true, Ordering::SeqCst);
    }
}

/// Server end of the in-memory transport.
struct Peer {
    shared: Arc<Shared>,
}

fn transport() -> (MockStream, Peer) {
    let (registration, set_readiness) = Registration::new2();
    let shared = Arc::new(Shared {
        wire: Mutex::new(Wire::default()),
        set_readiness,
        transport_dropped: AtomicBool::new(false),
    });
    {
        let wire = shared.wire.lock().unwrap();
        shared.signal(&wire); // writable from the start
    }
    let stream = MockStream {
        shared: Arc::clone(&shared),
        registration,
    };
    (stream, Peer { shared })
}

impl Peer {
    fn send<M: IntoAmqpClass>(&self, channel_id: u16, method: M) {
        let mut buf = OutputBuffer::empty();
        buf.push_method(channel_id, method);
        let mut wire = self.shared.wire.lock().unwrap();
        wire.to_client.extend(buf[0..].iter().copied());
        self.shared.signal(&wire);
    }

    fn stop_reading(&self) {
        let mut wire = self.shared.wire.lock().unwrap();
        wire.block_writes = true;
        self.shared.signal(&wire);
    }

    fn transport_dropped(&self) -> bool {
        self.shared.transport_dropped.load(Ordering::SeqCst)
    }

    fn wait_for<T, F: FnMut(&mut Vec<u8>) -> Option<T>>(&self, what: &str, mut f: F) -> T {
        let deadline = Instant::now() + WATCHDOG;
        loop {
            if let Some(t) = f(&mut self.shared.wire.lock().unwrap().from_client) {
                return t;
            }
            assert!(Instant::now() < deadline, "peer: timed out waiting for {}", what);
            thread::sleep(Duration::from_millis(2));
        }
    }

    fn expect_protocol_header(&self) {
        self.wait_for("protocol header", |buf| {
            if buf.len() < 8 {
                return None;
            }
            assert_eq!(&buf[..8], b"AMQP\x00\x00\x09\x01");
            buf.drain(..8);
            Some(())
        })
    }

    // Next non-heartbeat frame written by the client.
    fn next_frame(&self, what: &str) -> AMQPFrame {
        self.wait_for(what, |buf| loop {
            if buf.len() < 7 {
                return None;
            }
            let size = u32::from_be_bytes([buf[3], buf[4], buf[5], buf[6]]) as usize + 8;
            if buf.len() < size {
                return None;
            }
            let frame = match parse_frame(&buf[..size]) {
                Ok((_, frame)) => frame,
                Err(_) => panic!("peer: client sent a malformed frame"),
            };
            buf.drain(..size);
            match frame {
                AMQPFrame::Heartbeat(_) => continue,
                frame => return Some(frame),
            }
        })
    }

    fn expect_method<F: Fn(&AMQPClass) -> bool>(&self, what: &str, is_expected: F) {
        match self.next_frame(what) {
            AMQPFrame::Method(_, ref class) if is_expected(class) => (),
            other => panic!("peer: expected {}, got {:?}", what, other),
        }
    }

    fn handshake(&self) {
        self.expect_protocol_header();
        self.send(
            0,
            AmqpConnection::Start(Start {
                version_major: 0,
                version_minor: 9,
                server_properties: FieldTable::new(),
                mechanisms: "PLAIN".to_string(),
                locales: "en_US".to_string(),
            }),
        );
        self.expect_method("start-ok", |c| match c {
            AMQPClass::Connection(AmqpConnection::StartOk(_)) => true,
            _ => false,
        });
        self.send(
            0,
            AmqpConnection::Tune(Tune {
                channel_max: 16,
                frame_max: 131_072,
                heartbeat: HEARTBEAT,
            }),
        );
        self.expect_method("tune-ok", |c| match c {
            AMQPClass::Connection(AmqpConnection::TuneOk(_)) => true,
            _ => false,
        });
        self.expect_method("open", |c| match c {
            AMQPClass::Connection(AmqpConnection::Open(_)) => true,
            _ => false,
        });
        self.send(
            0,
            AmqpConnection::OpenOk(OpenOk {
                known_hosts: String::new(),
            }),
        );
    }

    fn expect_connection_close(&self) {
        self.expect_method("connection.close", |c| match c {
            AMQPClass::Connection(AmqpConnection::Close(_)) => true,
            _ => false,
        });
    }
}

/// Established connection (heartbeats enabled) plus the server end of its transport.
fn establish() -> (Connection, Peer) {
    let (stream, peer) = transport();
    let server = thread::spawn(move || {
        peer.handshake();
        peer
    });
    let options = ConnectionOptions::<Auth>::default()
        .heartbeat(HEARTBEAT)
        .connection_timeout(Some(WATCHDOG));
    let connection =
        Connection::insecure_open_stream(stream, options, ConnectionTuning::default())
            .expect("handshake with the scripted peer failed");
    let peer = server.join().expect("scripted peer failed");
    (connection, peer)
}

/// Dropping a Connection joins the I/O thread, i.e. blocks for as long as the I/O thread lives.
/// A Connection that is parked on the test thread is therefore kept in this guard, which leaks it
/// if the test thread unwinds (a failing test must fail, not hang).
struct Parked(Option<Connection>);

impl Parked {
    fn take(mut self) -> Connection {
        self.0.take().unwrap()
    }
}

impl Drop for Parked {
    fn drop(&mut self) {
        if let Some(connection) = self.0.take() {
            std::mem::forget(connection);
        }
    }
}

/// Opens channel 1 (the peer must be answering channel.open meanwhile).
fn open_channel_1(mut connection: Connection) -> (Parked, Channel) {
    bounded("Connection::open_channel", move || {
        let channel = connection.open_channel(Some(1)).unwrap();
        (Parked(Some(connection)), channel)
    })
}

/// Runs `f` in a worker thread (which owns everything `f` captured, so that nothing is dropped -
/// and possibly blocks - on the test thread) and waits for its answer with a watchdog.
fn bounded<T: Send + 'static, F: FnOnce() -> T + Send + 'static>(what: &str, f: F) -> T {
    let (tx, rx) = mpsc::channel();
    thread::spawn(move || {
        let _ = tx.send(f());
    });
    match rx.recv_timeout(WATCHDOG) {
        Ok(t) => t,
        Err(_) => panic!("{} did not return within {:?}: caller hangs", what, WATCHDOG),
    }
}

fn close_outcome(connection: Connection) -> String {
    match connection.close() {
        Ok(()) => "Ok".to_string(),
        Err(Error::MissedServerHeartbeats) => "MissedServerHeartbeats".to_string(),
        Err(Error::UnexpectedSocketClose) => "UnexpectedSocketClose".to_string(),
        Err(Error::ClientException) => "ClientException".to_string(),
        Err(err) => format!("other: {:?}", err),
    }
}

// ------------------------------------------------------------------------------------------
// Fails with the seeded change: Connection::close never returns.
// ------------------------------------------------------------------------------------------
#[test]
fn silent_peer_during_client_close_is_detected_by_heartbeats() {
    let (connection, peer) = establish();

    // The peer sees our Close and then falls silent: no CloseOk, no EOF, no error.
    let server = thread::spawn(move || {
        peer.expect_connection_close();
        peer
    });

    let outcome = bounded("Connection::close", move || close_outcome(connection));
    let peer = server.join().unwrap();

    assert_eq!(outcome, "MissedServerHeartbeats");
    assert!(
        peer.transport_dropped(),
        "transport must be released once close has returned"
    );
}

// ------------------------------------------------------------------------------------------
// Fails with the seeded change: the blocked RPC and Connection::close never return.
// ------------------------------------------------------------------------------------------
#[test]
fn silent_peer_during_client_exception_releases_blocked_caller() {
    let (connection, peer) = establish();

    // open channel 1
    let server = thread::spawn(move || {
        peer.expect_method("channel.open", |c| match c {
            AMQPClass::Channel(AmqpChannel::Open(_)) => true,
            _ => false,
        });
        peer.send(
            1,
            AmqpChannel::OpenOk(ChannelOpenOk {
                channel_id: String::new(),
            }),
        );
        peer
    });
    let (connection, channel) = open_channel_1(connection);
    let peer = server.join().unwrap();

    // A caller is blocked in queue.declare. The peer stops draining its socket, sends a method
    // a server must never send (=> client-side protocol exception; the client's Close cannot be
    // flushed) and then falls silent.
    let server = thread::spawn(move || {
        peer.expect_method("queue.declare", |c| match c {
            AMQPClass::Queue(_) => true,
            _ => false,
        });
        peer.stop_reading();
        peer.send(
            1,
            AmqpChannel::Open(ChannelOpen {
                out_of_band: String::new(),
            }),
        );
        peer
    });

    let call_failed = bounded("Channel::queue_declare", move || {
        let failed = channel
            .queue_declare("c05h", QueueDeclareOptions::default())
            .is_err();
        // the connection is dead by now, so this cannot block waiting for the peer
        drop(channel);
        failed
    });
    assert!(call_failed, "in-flight call must fail once the connection is dead");

    let connection = connection.take();
    let outcome = bounded("Connection::close", move || close_outcome(connection));
    let peer = server.join().unwrap();
    assert_eq!(outcome, "MissedServerHeartbeats");
    assert!(peer.transport_dropped());
}

// ------------------------------------------------------------------------------------------
// Controls: pass with and without the seeded change.
// ------------------------------------------------------------------------------------------

// Same silence, but in steady state (no close handshake in progress).
#[test]
fn control_silent_peer_in_steady_state_is_detected_by_heartbeats() {
    let (connection, peer) = establish();

    let server = thread::spawn(move || {
        peer.expect_method("channel.open", |c| match c {
            AMQPClass::Channel(AmqpChannel::Open(_)) => true,
            _ => false,
        });
        peer.send(
            1,
            AmqpChannel::OpenOk(ChannelOpenOk {
                channel_id: String::new(),
            }),
        );
        peer.expect_method("queue.declare", |c| match c {
            AMQPClass::Queue(_) => true,
            _ => false,
        });
        // ... and never answer
        peer
    });
    let (connection, channel) = open_channel_1(connection);

    let call_failed = bounded("Channel::queue_declare", move || {
        let failed = channel
            .queue_declare("c05h", QueueDeclareOptions::default())
            .is_err();
        drop(channel);
        failed
    });
    assert!(call_failed);

    let connection = connection.take();
    let outcome = bounded("Connection::close", move || close_outcome(connection));
    let peer = server.join().unwrap();
    assert_eq!(outcome, "MissedServerHeartbeats");
    assert!(peer.transport_dropped());
}

// Close handshake with a peer that answers.
#[test]
fn control_clean_close() {
    let (connection, peer) = establish();

    let server = thread::spawn(move || {
        peer.expect_connection_close();
        peer.send(0, AmqpConnection::CloseOk(CloseOk {}));
        peer
    });

    let outcome = bounded("Connection::close", move || close_outcome(connection));
    let peer = server.join().unwrap();
    assert_eq!(outcome, "Ok");
    assert!(peer.transport_dropped());
}

// Close handshake with a peer whose death is visible: EOF instead of CloseOk.
#[test]
fn control_eof_during_client_close() {
    let (connection, peer) = establish();

    let server = thread::spawn(move || {
        peer.expect_connection_close();
        {
            let mut wire = peer.shared.wire.lock().unwrap();
            wire.eof = true;
            peer.shared.signal(&wire);
        }
        peer
    });

    let outcome = bounded("Connection::close", move || close_outcome(connection));
    let peer = server.join().unwrap();
    assert_eq!(outcome, "UnexpectedSocketClose");
    assert!(peer.transport_dropped());
}
