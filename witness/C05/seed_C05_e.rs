//@host src/io_loop/mod.rs
// witness scenario from seeded change C05-e (independent sub-agent demonstration); passes on the unchanged tree
//! C05e demonstration: a peer that falls silent *while a close handshake is under way* must still
//! be detected by the heartbeat timers. The I/O thread then ends with `MissedServerHeartbeats`,
//! every caller (in particular the one blocked in `Connection::close`) is released, and the
//! transport is dropped.
//!
//! Tests:
//!  * `control_*`  - silence in the steady state; pass with and without the seeded change.
//!  * the others   - silence after the client queued connection.close / after the server's
//!                   connection.close was seen but close-ok could not be flushed; they pass on the
//!                   unmodified library and fail (assertion, never a hang) with the seeded change.
//!
//! Heartbeats are wall-clock by nature. The state-machine tests use a 50 ms interval and poll the
//! real timer code until a verdict or a generous deadline; the end-to-end tests use the smallest
//! negotiable interval (1 s, i.e. 2 s until the server is declared dead) and a watchdog.

use super::*;
use crate::serialize::OutputBuffer;
use crate::{Auth, Connection, ConnectionOptions, ConnectionTuning, Error, FieldTable};
use amq_protocol::frame::AMQPFrame;
use amq_protocol::protocol::connection::AMQPMethod as AmqpConnection;
use amq_protocol::protocol::connection::{Close, OpenOk, Start, Tune};
use amq_protocol::protocol::AMQPClass;
use mio::{Registration, SetReadiness};
use std::collections::VecDeque;
use std::io::{Read, Write};
use std::sync::mpsc;
use std::sync::{Arc, Mutex};
use std::thread;

// ---------------------------------------------------------------------------------------------
// state-machine level: Inner + ConnectionState, real timers, no socket
// ---------------------------------------------------------------------------------------------

const FAST_HEARTBEAT: Duration = Duration::from_millis(50);
const VERDICT_DEADLINE: Duration = Duration::from_secs(3);

fn inner_with_heartbeats() -> Inner {
    let mut inner = Inner::new(HeartbeatTimers::default(), 8);
    // what start_heartbeats() does, with a sub-second interval
    inner.heartbeats.start(FAST_HEARTBEAT);
    inner
}

/// Runs the real heartbeat handler the way the HEARTBEAT token does, until it reports an error or
/// the deadline passes. The server is silent: nobody calls record_rx_activity().
fn heartbeat_verdict(inner: &mut Inner) -> Option<Error> {
    let deadline = Instant::now() + VERDICT_DEADLINE;
    while Instant::now() < deadline {
        if let Err(err) = inner.process_heartbeat_timers() {
            return Some(err);
        }
        thread::sleep(Duration::from_millis(10));
    }
    None
}

fn assert_missed_heartbeats(verdict: Option<Error>, when: &str) {
    match verdict {
        Some(Error::MissedServerHeartbeats) => (),
        Some(other) => panic!("{}: unexpected error {}", when, other),
        None => panic!(
            "{}: the server was silent for {:?} (heartbeat {:?}) and the I/O loop was never told \
             to stop: every caller of this connection is stuck",
            when, VERDICT_DEADLINE, FAST_HEARTBEAT
        ),
    }
}

#[test]
fn control_silent_server_in_steady_state_is_detected() {
    let mut inner = inner_with_heartbeats();
    assert!(!inner.are_writes_sealed());
    let verdict = heartbeat_verdict(&mut inner);
    assert_missed_heartbeats(verdict, "steady state");
}

#[test]
fn silent_server_after_client_queued_close_is_detected() {
    let mut inner = inner_with_heartbeats();

    // exactly what the I/O thread does when Connection::close() asks it to close
    let mut buf = OutputBuffer::empty();
    buf.push_method(
        0,
        AmqpConnection::Close(Close {
            reply_code: 200,
            reply_text: "goodbye".to_string(),
            class_id: 0,
            method_id: 0,
        }),
    );
    inner
        .process_channel_message(0, IoLoopMessage::ConnectionClose(buf))
        .unwrap();
    assert!(inner.are_writes_sealed());

    // the server never answers with close-ok and never sends anything else
    let verdict = heartbeat_verdict(&mut inner);
    assert_missed_heartbeats(verdict, "waiting for close-ok");
}

#[test]
fn silent_server_after_its_own_close_is_detected() {
    let mut inner = inner_with_heartbeats();
    let (ch0_slot, _ch0_handle) = Channel0Slot::new(8);
    let mut state = ConnectionState::Steady(ch0_slot);

    let close = Close {
        reply_code: 320,
        reply_text: "CONNECTION_FORCED".to_string(),
        class_id: 0,
        method_id: 0,
    };
    state
        .process(
            &mut inner,
            AMQPFrame::Method(0, AMQPClass::Connection(AmqpConnection::Close(close))),
        )
        .unwrap();
    match state {
        ConnectionState::ServerClosing(_) => (),
        _ => panic!("expected ServerClosing"),
    }
    // close-ok is queued but the socket never becomes writable again (peer is gone without a
    // FIN/RST reaching us): the connection is not done ...
    assert!(inner.are_writes_sealed() && inner.has_data_to_write());

    // ... and only the heartbeat timer can end it.
    let verdict = heartbeat_verdict(&mut inner);
    assert_missed_heartbeats(verdict, "flushing close-ok");
}

// ---------------------------------------------------------------------------------------------
// end to end: Connection on an in-memory transport, eager scripted server
// ---------------------------------------------------------------------------------------------

struct Wire {
    to_client: VecDeque<u8>,
    from_client: Vec<u8>,
    transport_dropped: bool,
}

struct MockStream {
    wire: Arc<Mutex<Wire>>,
    registration: Registration,
}

struct MockServer {
    wire: Arc<Mutex<Wire>>,
    readiness: SetReadiness,
}

fn mock_pair() -> (MockStream, MockServer) {
    let wire = Arc::new(Mutex::new(Wire {
        to_client: VecDeque::new(),
        from_client: Vec::new(),
        transport_dropped: false,
    }));
    let (registration, readiness) = Registration::new2();
    readiness
        .set_readiness(Ready::readable() | Ready::writable())
        .unwrap();
    (
        MockStream {
            wire: wire.clone(),
            registration,
        },
        MockServer { wire, readiness },
    )
}

impl MockServer {
    fn send<M: crate::serialize::IntoAmqpClass>(&self, channel_id: u16, method: M) {
        let mut buf = OutputBuffer::empty();
        buf.push_method(channel_id, method);
        self.wire.lock().unwrap().to_client.extend(&buf[0..]);
        // edge-triggered: announce the new data
        self.readiness
            .set_readiness(Ready::readable() | Ready::writable())
            .unwrap();
    }

    /// The whole server side of the handshake, sent up front; after it the server is silent.
    fn eager_handshake(&self, heartbeat: u16) {
        self.send(
            0,
            AmqpConnection::Start(Start {
                version_major: 0,
                version_minor: 9,
                server_properties: FieldTable::new(),
                mechanisms: "PLAIN".to_string(),
                locales: "en_US".to_string(),
            }),
        );
        self.send(
            0,
            AmqpConnection::Tune(Tune {
                channel_max: 16,
                frame_max: 1 << 17,
                heartbeat,
            }),
        );
        self.send(
            0,
            AmqpConnection::OpenOk(OpenOk {
                known_hosts: String::new(),
            }),
        );
    }

    fn transport_dropped(&self) -> bool {
        self.wire.lock().unwrap().transport_dropped
    }

    fn bytes_from_client(&self) -> usize {
        self.wire.lock().unwrap().from_client.len()
    }
}

impl Drop for MockStream {
    fn drop(&mut self) {
        self.wire.lock().unwrap().transport_dropped = true;
    }
}

impl Read for MockStream {
    fn read(&mut self, buf: &mut [u8]) -> io::Result<usize> {
        let mut wire = self.wire.lock().unwrap();
        if wire.to_client.is_empty() {
            // silent, but not closed
            return Err(io::ErrorKind::WouldBlock.into());
        }
        let n = usize::min(buf.len(), wire.to_client.len());
        for (dst, src) in buf.iter_mut().zip(wire.to_client.drain(..n)) {
            *dst = src;
        }
        Ok(n)
    }
}

impl Write for MockStream {
    fn write(&mut self, buf: &[u8]) -> io::Result<usize> {
        // a black hole: everything the client writes is accepted
        self.wire.lock().unwrap().from_client.extend_from_slice(buf);
        Ok(buf.len())
    }

    fn flush(&mut self) -> io::Result<()> {
        Ok(())
    }
}

impl Evented for MockStream {
    fn register(&self, poll: &Poll, token: Token, interest: Ready, opts: PollOpt) -> io::Result<()> {
        self.registration.register(poll, token, interest, opts)
    }

    fn reregister(
        &self,
        poll: &Poll,
        token: Token,
        interest: Ready,
        opts: PollOpt,
    ) -> io::Result<()> {
        self.registration.reregister(poll, token, interest, opts)
    }

    fn deregister(&self, poll: &Poll) -> io::Result<()> {
        poll.deregister(&self.registration)
    }
}

impl crate::IoStream for MockStream {}

const E2E_HEARTBEAT_SECS: u16 = 1; // server is declared dead after 2 s of silence
const E2E_WATCHDOG: Duration = Duration::from_secs(10);

fn open_with_heartbeats() -> (Connection, MockServer) {
    let (stream, server) = mock_pair();
    server.eager_handshake(E2E_HEARTBEAT_SECS);
    let (tx, rx) = mpsc::channel();
    thread::spawn(move || {
        let options = ConnectionOptions::<Auth>::default().heartbeat(E2E_HEARTBEAT_SECS);
        let _ = tx.send(Connection::insecure_open_stream(
            stream,
            options,
            ConnectionTuning::default(),
        ));
    });
    let conn = rx
        .recv_timeout(E2E_WATCHDOG)
        .expect("handshake did not finish")
        .expect("handshake failed");
    (conn, server)
}

#[test]
fn control_e2e_silent_server_releases_open_channel_and_close() {
    let (mut conn, server) = open_with_heartbeats();

    let (tx, rx) = mpsc::channel();
    thread::spawn(move || {
        // channel.open is never answered: this call is in flight when the heartbeats run out
        let open_result = conn.open_channel(None).map(std::mem::forget);
        let close_result = conn.close();
        let _ = tx.send((open_result, close_result));
    });

    let (open_result, close_result) = rx
        .recv_timeout(E2E_WATCHDOG)
        .expect("open_channel/close still blocked long after the heartbeats ran out");
    assert!(open_result.is_err(), "open_channel on a dead connection returned Ok");
    match close_result {
        Err(Error::MissedServerHeartbeats) => (),
        other => panic!("close() should report MissedServerHeartbeats, got {:?}", other),
    }
    assert!(server.transport_dropped(), "transport not released after close()");
}

#[test]
fn e2e_silent_server_during_close_handshake_releases_close() {
    let (conn, server) = open_with_heartbeats();
    let written_before_close = server.bytes_from_client();

    let (tx, rx) = mpsc::channel();
    thread::spawn(move || {
        // connection.close goes out; close-ok never comes back, nor does anything else
        let _ = tx.send(conn.close());
    });

    let close_result = match rx.recv_timeout(E2E_WATCHDOG) {
        Ok(result) => result,
        Err(_) => panic!(
            "Connection::close() still blocked {:?} after the server fell silent with a {} s \
             heartbeat (client wrote {} bytes for its close); transport released: {}",
            E2E_WATCHDOG,
            E2E_HEARTBEAT_SECS,
            server.bytes_from_client() - written_before_close,
            server.transport_dropped()
        ),
    };
    match close_result {
        Err(Error::MissedServerHeartbeats) => (),
        other => panic!("close() should report MissedServerHeartbeats, got {:?}", other),
    }
    assert!(server.transport_dropped(), "transport not released after close()");
}
