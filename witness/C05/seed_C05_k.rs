//@host src/lib.rs
// witness scenario from seeded change C05-k (independent sub-agent demonstration); passes on the unchanged tree
//! Demonstration for seed C05k.
//!
//! Property C05: when a connection dies, every caller is released with an error in bounded
//! time (provided the failure is visible or heartbeats are enabled), and `Connection::close`
//! reports the root cause (here: `MissedServerHeartbeats`).
//!
//! The scripted server below speaks just enough AMQP 0-9-1 over a loopback socket to bring a
//! real `Connection` (real I/O thread, real timers) up with a 1 second heartbeat, and then
//! becomes silent at a chosen point of the connection's life *without closing the socket*: the
//! only thing that can release the client is its heartbeat monitor.
//!
//! * `close_in_flight_when_server_goes_silent_is_released` - the server swallows the client's
//!   `Connection.Close` and never answers. Passes on the unmodified library (close returns
//!   `MissedServerHeartbeats` after about two seconds), FAILS (watchdog) with the seeded change.
//! * `steady_state_silence_is_detected` (control) - same silence, but no close in flight: the
//!   blocked `open_channel` is released and close reports `MissedServerHeartbeats`. Passes
//!   either way.
//! * `close_answered_by_server_is_clean` (control) - the server answers the Close. Passes
//!   either way.
//!
//! The tests depend on wall-clock time only through the heartbeat interval negotiated with the
//! server (1 s, the smallest AMQP allows; the monitor gives up after 2 s). Every wait is bounded
//! by a generous watchdog so a failing run FAILS rather than hangs.

use crate::serialize::{IntoAmqpClass, OutputBuffer};
use crate::{Auth, Connection, ConnectionOptions, ConnectionTuning, Error, FieldTable};
use amq_protocol::frame::{parse_frame, AMQPFrame};
use amq_protocol::protocol::connection::AMQPMethod as AmqpConnection;
use amq_protocol::protocol::connection::{CloseOk, OpenOk, Start, Tune};
use amq_protocol::protocol::AMQPClass;
use std::io::{self, Read, Write};
use std::net::{TcpListener, TcpStream};
use std::sync::mpsc;
use std::thread;
use std::time::{Duration, Instant};

// Far beyond the 2 seconds after which a 1 second heartbeat is declared missed.
const WATCHDOG: Duration = Duration::from_secs(12);

fn method_frame<M: IntoAmqpClass>(channel_id: u16, method: M) -> Vec<u8> {
    let mut buf = OutputBuffer::empty();
    buf.push_method(channel_id, method);
    buf[0..].to_vec()
}

fn read_frame(stream: &mut TcpStream) -> io::Result<AMQPFrame> {
    let mut buf = vec![0u8; 7];
    stream.read_exact(&mut buf)?;
    let size = u32::from_be_bytes([buf[3], buf[4], buf[5], buf[6]]) as usize;
    buf.resize(7 + size + 1, 0);
    stream.read_exact(&mut buf[7..])?;
    match parse_frame(&buf) {
        Ok((_, frame)) => Ok(frame),
        Err(_) => Err(io::Error::new(io::ErrorKind::InvalidData, "bad frame")),
    }
}

// Next frame from the client that is not a heartbeat.
fn read_method(stream: &mut TcpStream) -> io::Result<AMQPFrame> {
    loop {
        match read_frame(stream)? {
            AMQPFrame::Heartbeat(_) => continue,
            frame => return Ok(frame),
        }
    }
}

fn server_handshake(stream: &mut TcpStream) -> io::Result<()> {
    let mut header = [0u8; 8];
    stream.read_exact(&mut header)?;
    assert_eq!(&header, b"AMQP\x00\x00\x09\x01");

    stream.write_all(&method_frame(
        0,
        AmqpConnection::Start(Start {
            version_major: 0,
            version_minor: 9,
            server_properties: FieldTable::new(),
            mechanisms: "PLAIN".to_string(),
            locales: "en_US".to_string(),
        }),
    ))?;
    match read_method(stream)? {
        AMQPFrame::Method(0, AMQPClass::Connection(AmqpConnection::StartOk(_))) => (),
        other => panic!("expected start-ok, got {:?}", other),
    }
    stream.write_all(&method_frame(
        0,
        AmqpConnection::Tune(Tune {
            channel_max: 16,
            frame_max: 131_072,
            heartbeat: 1,
        }),
    ))?;
    match read_method(stream)? {
        AMQPFrame::Method(0, AMQPClass::Connection(AmqpConnection::TuneOk(tune_ok))) => {
            assert_eq!(tune_ok.heartbeat, 1, "test needs a 1 second heartbeat");
        }
        other => panic!("expected tune-ok, got {:?}", other),
    }
    match read_method(stream)? {
        AMQPFrame::Method(0, AMQPClass::Connection(AmqpConnection::Open(_))) => (),
        other => panic!("expected open, got {:?}", other),
    }
    stream.write_all(&method_frame(
        0,
        AmqpConnection::OpenOk(OpenOk {
            known_hosts: String::new(),
        }),
    ))?;
    Ok(())
}

// Keep the socket open and keep draining what the client sends, but never write another byte,
// until `release` fires (or its sender is dropped). Then drop the socket.
fn stay_silent(mut stream: TcpStream, release: mpsc::Receiver<()>) {
    stream
        .set_read_timeout(Some(Duration::from_millis(50)))
        .unwrap();
    let mut sink = [0u8; 4096];
    loop {
        match release.try_recv() {
            Err(mpsc::TryRecvError::Empty) => (),
            _ => return,
        }
        match stream.read(&mut sink) {
            Ok(0) => return,
            Ok(_) => (),
            Err(ref err)
                if err.kind() == io::ErrorKind::WouldBlock
                    || err.kind() == io::ErrorKind::TimedOut => {}
            Err(_) => return,
        }
    }
}

struct Server {
    release: mpsc::Sender<()>,
    thread: Option<thread::JoinHandle<()>>,
}

impl Drop for Server {
    fn drop(&mut self) {
        let _ = self.release.send(());
        if let Some(thread) = self.thread.take() {
            let _ = thread.join();
        }
    }
}

// Starts the scripted server and connects a real Connection (heartbeat = 1 s) to it.
fn connect<F>(after_handshake: F) -> (Server, Connection)
where
    F: FnOnce(TcpStream, mpsc::Receiver<()>) + Send + 'static,
{
    let listener = TcpListener::bind("127.0.0.1:0").unwrap();
    let addr = listener.local_addr().unwrap();
    let (release_tx, release_rx) = mpsc::channel();
    let thread = thread::spawn(move || {
        let (mut stream, _) = listener.accept().unwrap();
        stream.set_nodelay(true).unwrap();
        server_handshake(&mut stream).unwrap();
        after_handshake(stream, release_rx);
    });
    let server = Server {
        release: release_tx,
        thread: Some(thread),
    };

    let stream = mio::net::TcpStream::connect(&addr).unwrap();
    let options = ConnectionOptions::<Auth>::default().heartbeat(1);
    let connection =
        Connection::insecure_open_stream(stream, options, ConnectionTuning::default()).unwrap();
    (server, connection)
}

fn assert_missed_heartbeats(what: &str, result: crate::Result<()>) {
    match result {
        Err(Error::MissedServerHeartbeats) => (),
        other => panic!(
            "{}: expected Err(MissedServerHeartbeats), got {:?}",
            what, other
        ),
    }
}

/// The server reads the client's Connection.Close and then says nothing at all, socket open.
/// Heartbeats are enabled, so `close` must come back (with the root cause) in bounded time.
#[test]
fn close_in_flight_when_server_goes_silent_is_released() {
    let (saw_close_tx, saw_close_rx) = mpsc::channel();
    let (server, connection) = connect(move |mut stream, release| {
        match read_method(&mut stream).unwrap() {
            AMQPFrame::Method(0, AMQPClass::Connection(AmqpConnection::Close(_))) => (),
            other => panic!("expected connection.close, got {:?}", other),
        }
        saw_close_tx.send(()).unwrap();
        stay_silent(stream, release);
    });

    let (result_tx, result_rx) = mpsc::channel();
    let started = Instant::now();
    // not joined on purpose: if close() hangs, this thread hangs with it until the server
    // lets go of the socket at the end of the test.
    thread::spawn(move || {
        let _ = result_tx.send(connection.close());
    });

    saw_close_rx
        .recv_timeout(WATCHDOG)
        .expect("server never saw the client's Connection.Close");

    match result_rx.recv_timeout(WATCHDOG) {
        Ok(result) => {
            assert_missed_heartbeats("Connection::close", result);
            println!("close() released after {:?}", started.elapsed());
        }
        Err(_) => {
            drop(server); // closes the socket, which finally releases the blocked close()
            panic!(
                "Connection::close still blocked after {:?} although a 1 s heartbeat was \
                 negotiated and the server has been silent all along",
                started.elapsed()
            );
        }
    }
}

/// Control: the same silent server, but nothing has been closed. A caller blocked in
/// `open_channel` is released with an error and `close` reports the missed heartbeats.
#[test]
fn steady_state_silence_is_detected() {
    let (_server, mut connection) = connect(stay_silent);

    let (result_tx, result_rx) = mpsc::channel();
    thread::spawn(move || {
        let open_result = connection.open_channel(None).map(std::mem::forget);
        let close_result = connection.close();
        let _ = result_tx.send((open_result, close_result));
    });

    let (open_result, close_result) = result_rx
        .recv_timeout(WATCHDOG)
        .expect("caller of open_channel / close was not released");
    assert!(
        open_result.is_err(),
        "open_channel cannot succeed against a silent server"
    );
    assert_missed_heartbeats("Connection::close", close_result);
}

/// Control: a server that answers the Close; the close is clean.
#[test]
fn close_answered_by_server_is_clean() {
    let (_server, connection) = connect(|mut stream, release| {
        match read_method(&mut stream).unwrap() {
            AMQPFrame::Method(0, AMQPClass::Connection(AmqpConnection::Close(_))) => (),
            other => panic!("expected connection.close, got {:?}", other),
        }
        stream
            .write_all(&method_frame(0, AmqpConnection::CloseOk(CloseOk {})))
            .unwrap();
        stay_silent(stream, release);
    });

    let (result_tx, result_rx) = mpsc::channel();
    thread::spawn(move || {
        let _ = result_tx.send(connection.close());
    });
    let result = result_rx
        .recv_timeout(WATCHDOG)
        .expect("close() against a cooperative server did not return");
    assert!(result.is_ok(), "expected a clean close, got {:?}", result);
}
