//@host src/io_loop/mod.rs
// witness scenario from seeded change C05-a (independent sub-agent demonstration); passes on the unchanged tree
// Demonstration for seeded change C05 (property: "when a connection dies, every caller is
// released with an error; nobody hangs").
//
// Wiring: this file lives at src/io_loop/seed_c05_demo.rs and is enabled by the line
//     #[cfg(test)] mod seed_c05_demo;
// in src/io_loop/mod.rs (next to the other `mod` lines).
//
// Run:  CARGO_TARGET_DIR=/tmp/seed/C05/target cargo test --offline seed_c05
//
// All three tests model a server that sends some complete frames and then goes away (the socket
// reports EOF, i.e. read() returns 0), with both things observed by the client in the same
// readable wake-up. The I/O thread polls the socket edge-triggered, so an EOF that was read but
// not reported is never seen again: nothing wakes the thread up a second time.

use super::connection_state::ConnectionState;
use super::*;
use crate::frame_buffer::FrameBuffer;
use crate::serialize::OutputBuffer;
use amq_protocol::protocol::connection::AMQPMethod as AmqpConnection;
use amq_protocol::protocol::connection::Blocked;
use crossbeam_channel::RecvTimeoutError;
use std::io::{Read, Write};

// A "socket" on which the server's bytes arrive in pieces of at most `chunk` bytes and that
// reports EOF (Ok(0)) once they are exhausted - i.e. the peer closed the connection. Writes
// are accepted and discarded.
struct DyingStream {
    data: Vec<u8>,
    pos: usize,
    chunk: usize,
    eof_seen: usize,
}

impl DyingStream {
    fn new(data: &[u8], chunk: usize) -> DyingStream {
        DyingStream {
            data: data.to_vec(),
            pos: 0,
            chunk,
            eof_seen: 0,
        }
    }
}

impl Read for DyingStream {
    fn read(&mut self, buf: &mut [u8]) -> io::Result<usize> {
        let rest = &self.data[self.pos..];
        if rest.is_empty() {
            self.eof_seen += 1;
            return Ok(0);
        }
        let n = rest.len().min(buf.len()).min(self.chunk);
        buf[..n].copy_from_slice(&rest[..n]);
        self.pos += n;
        Ok(n)
    }
}

impl Write for DyingStream {
    fn write(&mut self, buf: &[u8]) -> io::Result<usize> {
        Ok(buf.len())
    }

    fn flush(&mut self) -> io::Result<()> {
        Ok(())
    }
}

impl Evented for DyingStream {
    fn register(&self, _: &Poll, _: Token, _: Ready, _: PollOpt) -> io::Result<()> {
        Ok(())
    }

    fn reregister(&self, _: &Poll, _: Token, _: Ready, _: PollOpt) -> io::Result<()> {
        Ok(())
    }

    fn deregister(&self, _: &Poll) -> io::Result<()> {
        Ok(())
    }
}

impl IoStream for DyingStream {}

// heartbeat frame followed by a connection.blocked method frame, as the server would send them
fn server_bytes() -> (Vec<u8>, Vec<usize>) {
    let mut buf = OutputBuffer::empty();
    buf.push_heartbeat();
    let first = buf.len();
    buf.push_method(
        0,
        AmqpConnection::Blocked(Blocked {
            reason: "low on memory".to_string(),
        }),
    );
    let second = buf.len();
    (buf[0..].to_vec(), vec![0, first, second])
}

// The socket is closed by the peer after `cut` bytes of the server->client stream, for every
// `cut` (every byte offset, frame boundaries included), and for several ways the kernel may
// hand us the bytes. The read pass that runs into the EOF must report UnexpectedSocketClose.
#[test]
fn seed_c05_eof_is_reported_at_every_byte_offset() {
    let (bytes, boundaries) = server_bytes();
    let mut bad = Vec::new();
    for cut in 0..=bytes.len() {
        for &chunk in &[1usize, 3, 8, 4096] {
            let mut stream = DyingStream::new(&bytes[..cut], chunk);
            let mut frames = 0;
            let mut fb = FrameBuffer::new();
            let res = fb.read_from(&mut stream, |_| {
                frames += 1;
                Ok(())
            });
            assert!(stream.eof_seen > 0, "read pass must run into the EOF");
            match res {
                Err(Error::UnexpectedSocketClose) => (),
                other => bad.push(format!(
                    "cut={} chunk={} frames_seen={} at_frame_boundary={} -> {:?}",
                    cut,
                    chunk,
                    frames,
                    boundaries.contains(&cut),
                    other.map_err(|e| e.to_string())
                )),
            }
        }
    }
    assert!(
        bad.is_empty(),
        "socket EOF was swallowed (no error reported) for:\n  {}",
        bad.join("\n  ")
    );
}

struct Harness {
    io_loop: IoLoop,
    state: ConnectionState,
    _ch0_handle: IoLoopHandle0,
    _ch1_handle: IoLoopHandle,
    consumer_rx: CrossbeamReceiver<ConsumerMessage>,
}

// An established connection (state Steady, heartbeats disabled) with channel 1 open and one
// consumer registered on it.
fn established_connection() -> Harness {
    let mut io_loop = IoLoop::new(ConnectionTuning::default()).unwrap();
    let (ch0_slot, ch0_handle) = Channel0Slot::new(16);
    io_loop.inner.chan_slots.set_channel_max(8);
    let ch1_handle = io_loop
        .inner
        .chan_slots
        .insert(Some(1), |id| Ok(ChannelSlot::new(16, id)))
        .unwrap();
    let (consumer_tx, consumer_rx) = crossbeam_channel::unbounded();
    io_loop
        .inner
        .chan_slots
        .get_mut(1)
        .unwrap()
        .consumers
        .insert("ctag".to_string(), consumer_tx);
    // protocol header has long been written
    io_loop.inner.outbuf.clear();
    Harness {
        io_loop,
        state: ConnectionState::Steady(ch0_slot),
        _ch0_handle: ch0_handle,
        _ch1_handle: ch1_handle,
        consumer_rx,
    }
}

// One iteration of run_io_loop for a single "socket readable" event, followed by what
// run_io_loop / thread_main do with the outcome: on an error (or when the connection is done)
// the thread function returns, which drops the loop and every slot it owns; otherwise the
// thread goes back to poll(). Returns the error the I/O thread ended with, if it ended.
fn io_thread_step(h: Harness, stream: &mut DyingStream) -> (Option<Error>, CrossbeamReceiver<ConsumerMessage>) {
    let Harness {
        mut io_loop,
        mut state,
        _ch0_handle,
        _ch1_handle,
        consumer_rx,
    } = h;
    let event = Event::new(Ready::readable(), STREAM);
    let outcome = io_loop.handle_steady_event(stream, &mut state, event);
    let ended = match outcome {
        Err(err) => Some(err),
        Ok(()) => {
            assert!(
                !io_loop.is_connection_done(&state),
                "nothing asked the connection to close"
            );
            None
        }
    };
    if ended.is_some() {
        drop(state);
        drop(io_loop);
        (ended, consumer_rx)
    } else {
        // the thread is parked in poll() again: keep it (and the handles) alive while the
        // caller looks at the consumer queue
        let keep = (io_loop, state, _ch0_handle, _ch1_handle);
        std::mem::forget(keep);
        (None, consumer_rx)
    }
}

// Server sends one last heartbeat and dies; the client sees both in one wake-up. The I/O thread
// must end with UnexpectedSocketClose (this is what Connection::close then reports) and the
// consumer's queue must terminate.
#[test]
fn seed_c05_last_frame_then_eof_ends_io_thread_and_releases_consumer() {
    let (bytes, boundaries) = server_bytes();
    let mut stream = DyingStream::new(&bytes[..boundaries[1]], 4096);
    let (ended, consumer_rx) = io_thread_step(established_connection(), &mut stream);
    assert!(stream.eof_seen > 0, "the I/O thread did read the EOF");

    match consumer_rx.recv_timeout(Duration::from_millis(300)) {
        Err(RecvTimeoutError::Disconnected) => (),
        Err(RecvTimeoutError::Timeout) => panic!(
            "socket hit EOF but the consumer queue did not terminate: I/O thread ended with {:?} \
             and is waiting in poll() for an edge that will never come",
            ended.map(|e| e.to_string())
        ),
        Ok(_) => panic!("no delivery was sent"),
    }
    match ended {
        Some(Error::UnexpectedSocketClose) => (),
        other => panic!(
            "root cause should be UnexpectedSocketClose, got {:?}",
            other.map(|e| e.to_string())
        ),
    }
}

// Control: same scenario but the connection dies in the middle of the second frame.
#[test]
fn seed_c05_eof_mid_frame_ends_io_thread() {
    let (bytes, boundaries) = server_bytes();
    let mut stream = DyingStream::new(&bytes[..boundaries[1] + 5], 4096);
    let (ended, consumer_rx) = io_thread_step(established_connection(), &mut stream);
    match ended {
        Some(Error::UnexpectedSocketClose) => (),
        other => panic!("unexpected outcome {:?}", other.map(|e| e.to_string())),
    }
    match consumer_rx.recv_timeout(Duration::from_millis(300)) {
        Err(RecvTimeoutError::Disconnected) => (),
        other => panic!("consumer queue did not terminate: {:?}", other.is_ok()),
    }
}
