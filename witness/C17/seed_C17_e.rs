//@host src/lib.rs
// witness scenario from seeded change C17-e (independent sub-agent demonstration); passes on the unchanged tree
//! C17-e demonstration: "any inbound traffic counts as liveness".
//!
//! A server that is busy pushing one big content-body frame down a slow link sends bytes all
//! the time, but no *complete* frame for a while. With a negotiated heartbeat of h seconds the
//! client must not declare it dead as long as some byte arrives at least every h seconds.
//!
//! Two layers are exercised, both with the real code:
//!
//!  * `FrameBuffer::read_from` (timing free): the byte count it reports for one readable event
//!    is the only thing `Inner::read_from_stream` looks at (`n > 0`) to stamp rx activity.
//!  * `Connection` over a loopback socket against a scripted broker with heartbeat = 1s, which
//!    dribbles a delivery for ~3.2s (> 2h) in pieces 200ms apart.
//!
//! In each layer there is a control with a frame that fits in one MIN_READ (4096 bytes) buffer.

use crate::frame_buffer::FrameBuffer;
use crate::serialize::OutputBuffer;
use crate::{
    AmqpProperties, Auth, Connection, ConnectionOptions, ConnectionTuning, ConsumerMessage,
    ConsumerOptions, FieldTable,
};
use amq_protocol::frame::{parse_frame, AMQPFrame};
use amq_protocol::protocol::basic::AMQPMethod as AmqpBasic;
use amq_protocol::protocol::basic::{ConsumeOk, Deliver};
use amq_protocol::protocol::channel::AMQPMethod as AmqpChannel;
use amq_protocol::protocol::channel::OpenOk as ChannelOpenOk;
use amq_protocol::protocol::connection::AMQPMethod as AmqpConnection;
use amq_protocol::protocol::connection::{OpenOk, Start, Tune};
use amq_protocol::protocol::AMQPClass;
use mockstream::FailingMockStream;
use std::io::{self, Cursor, Read, Write};
use std::net::{TcpListener, TcpStream};
use std::thread;
use std::time::{Duration, Instant};

const BASIC_CLASS_ID: u16 = 60;

fn body(len: usize) -> Vec<u8> {
    (0..len).map(|i| (i % 251) as u8).collect()
}

fn bytes_of(buf: &OutputBuffer) -> Vec<u8> {
    buf[0..].to_vec()
}

// ---------------------------------------------------------------------------------------------
// Layer 1: FrameBuffer, no clock involved.
// ---------------------------------------------------------------------------------------------

fn would_block() -> FailingMockStream {
    FailingMockStream::new(io::ErrorKind::WouldBlock, "", 1)
}

/// Feeds one content-body frame of `body_len` bytes to a FrameBuffer in three readable events
/// (`first` bytes, then `second` bytes, then the rest) and returns the byte count reported for
/// each event plus the frames that came out.
fn feed_in_three_events(body_len: usize, first: usize, second: usize) -> (Vec<usize>, Vec<AMQPFrame>) {
    let mut out = OutputBuffer::empty();
    out.push_content_body(1, &body(body_len));
    let wire = bytes_of(&out);
    assert_eq!(wire.len(), body_len + 8);

    let (a, rest) = wire.split_at(first);
    let (b, c) = rest.split_at(second);
    let mut stream = Cursor::new(a.to_vec())
        .chain(would_block())
        .chain(Cursor::new(b.to_vec()))
        .chain(would_block())
        .chain(Cursor::new(c.to_vec()))
        .chain(would_block());

    let mut fb = FrameBuffer::new();
    let mut frames = Vec::new();
    let mut counts = Vec::new();
    for _ in 0..3 {
        let n = fb
            .read_from(&mut stream, |frame| {
                frames.push(frame);
                Ok(())
            })
            .unwrap();
        counts.push(n);
    }
    (counts, frames)
}

fn assert_is_body(frames: &[AMQPFrame], body_len: usize) {
    assert_eq!(frames.len(), 1);
    match &frames[0] {
        AMQPFrame::Body(1, data) => assert_eq!(data, &body(body_len)),
        other => panic!("unexpected frame {:?}", other),
    }
}

/// CONTROL (passes either way): a frame that fits in MIN_READ; every event reports its bytes.
#[test]
fn control_small_frame_every_readable_event_reports_its_bytes() {
    let (counts, frames) = feed_in_three_events(3000, 1000, 500);
    assert_eq!(counts, vec![1000, 500, 3008 - 1500]);
    assert_is_body(&frames, 3000);
}

/// A 20000-byte body frame: the middle event brings 500 bytes of it and nothing else. Those are
/// bytes received from the server, so the event must report them (the I/O loop stamps rx activity
/// iff the count is > 0).
#[test]
fn large_frame_every_readable_event_reports_its_bytes() {
    let (counts, frames) = feed_in_three_events(20000, 5000, 500);
    assert_is_body(&frames, 20000);
    assert_eq!(
        counts,
        vec![5000, 500, 20008 - 5500],
        "a readable event that delivered bytes of a large frame reported a different count; \
         Inner::read_from_stream records rx heartbeat activity only if the count is > 0"
    );
}

// ---------------------------------------------------------------------------------------------
// Layer 2: Connection against a scripted broker on a loopback socket, heartbeat = 1s.
// ---------------------------------------------------------------------------------------------

/// Blocking read of the next non-heartbeat frame the client sent.
fn read_frame(s: &mut TcpStream) -> AMQPFrame {
    loop {
        let mut buf = vec![0u8; 7];
        s.read_exact(&mut buf).expect("broker: read frame header");
        let size = u32::from_be_bytes([buf[3], buf[4], buf[5], buf[6]]) as usize;
        buf.resize(7 + size + 1, 0);
        s.read_exact(&mut buf[7..]).expect("broker: read frame payload");
        let (_, frame) = parse_frame(&buf).expect("broker: parse frame");
        match frame {
            AMQPFrame::Heartbeat(_) => continue,
            frame => return frame,
        }
    }
}

fn send(s: &mut TcpStream, buf: OutputBuffer) {
    s.write_all(&buf[0..]).expect("broker: write");
}

fn method<M: crate::serialize::IntoAmqpClass>(channel_id: u16, m: M) -> OutputBuffer {
    let mut buf = OutputBuffer::empty();
    buf.push_method(channel_id, m);
    buf
}

/// The broker: handshake with heartbeat = 1, accept channel 1 and one consumer, then deliver one
/// message of `body_len` bytes: `first` bytes of the wire data at once, then `chunk` bytes every
/// `every` until `span` has passed, then the rest at once. Finally wait for the client to hang up
/// (or for 3s).
fn broker(
    listener: TcpListener,
    body_len: usize,
    first: usize,
    chunk: usize,
    every: Duration,
    span: Duration,
) {
    let (mut s, _) = listener.accept().unwrap();
    s.set_nodelay(true).unwrap();
    s.set_read_timeout(Some(Duration::from_secs(10))).unwrap();
    s.set_write_timeout(Some(Duration::from_secs(10))).unwrap();

    let mut header = [0u8; 8];
    s.read_exact(&mut header).unwrap();
    assert_eq!(&header, b"AMQP\x00\x00\x09\x01");
    send(
        &mut s,
        method(
            0,
            AmqpConnection::Start(Start {
                version_major: 0,
                version_minor: 9,
                server_properties: FieldTable::new(),
                mechanisms: "PLAIN".to_string(),
                locales: "en_US".to_string(),
            }),
        ),
    );
    match read_frame(&mut s) {
        AMQPFrame::Method(0, AMQPClass::Connection(AmqpConnection::StartOk(_))) => (),
        other => panic!("broker: expected start-ok, got {:?}", other),
    }
    send(
        &mut s,
        method(
            0,
            AmqpConnection::Tune(Tune {
                channel_max: 2047,
                frame_max: 131_072,
                heartbeat: 1,
            }),
        ),
    );
    match read_frame(&mut s) {
        AMQPFrame::Method(0, AMQPClass::Connection(AmqpConnection::TuneOk(tune_ok))) => {
            assert_eq!(tune_ok.heartbeat, 1, "negotiated heartbeat")
        }
        other => panic!("broker: expected tune-ok, got {:?}", other),
    }
    match read_frame(&mut s) {
        AMQPFrame::Method(0, AMQPClass::Connection(AmqpConnection::Open(_))) => (),
        other => panic!("broker: expected open, got {:?}", other),
    }
    send(
        &mut s,
        method(
            0,
            AmqpConnection::OpenOk(OpenOk {
                known_hosts: String::new(),
            }),
        ),
    );
    match read_frame(&mut s) {
        AMQPFrame::Method(1, AMQPClass::Channel(AmqpChannel::Open(_))) => (),
        other => panic!("broker: expected channel.open, got {:?}", other),
    }
    send(
        &mut s,
        method(
            1,
            AmqpChannel::OpenOk(ChannelOpenOk {
                channel_id: String::new(),
            }),
        ),
    );
    match read_frame(&mut s) {
        AMQPFrame::Method(1, AMQPClass::Basic(AmqpBasic::Consume(_))) => (),
        other => panic!("broker: expected basic.consume, got {:?}", other),
    }
    send(
        &mut s,
        method(
            1,
            AmqpBasic::ConsumeOk(ConsumeOk {
                consumer_tag: "ctag".to_string(),
            }),
        ),
    );

    // the delivery: method + content header + ONE content body frame
    let mut out = method(
        1,
        AmqpBasic::Deliver(Deliver {
            consumer_tag: "ctag".to_string(),
            delivery_tag: 1,
            redelivered: false,
            exchange: String::new(),
            routing_key: "q".to_string(),
        }),
    );
    out.push_content_header(1, BASIC_CLASS_ID, body_len, &AmqpProperties::default());
    let prefix = out.len();
    out.push_content_body(1, &body(body_len));
    let wire = bytes_of(&out);

    let start = Instant::now();
    let mut pos = prefix + first;
    s.write_all(&wire[..pos]).expect("broker: write");
    while start.elapsed() < span {
        thread::sleep(every);
        assert!(pos + chunk < wire.len(), "script would complete the frame too early");
        // A failed write means the client hung up on us; the client side of the test reports it.
        if s.write_all(&wire[pos..pos + chunk]).is_err() {
            return;
        }
        pos += chunk;
    }
    if s.write_all(&wire[pos..]).is_err() {
        return;
    }

    // keep the socket open (and keep draining the client's heartbeats) until the test is done
    // with it: the client side hangs up by ending its I/O thread or the test process ends.
    s.set_read_timeout(Some(Duration::from_secs(3))).unwrap();
    let mut sink = [0u8; 256];
    while let Ok(n) = s.read(&mut sink) {
        if n == 0 {
            break;
        }
    }
}

/// Runs the scenario; returns what the consumer saw, and the I/O thread's verdict if it died.
fn slow_delivery(body_len: usize, first: usize, chunk: usize) -> Result<Vec<u8>, String> {
    let listener = TcpListener::bind("127.0.0.1:0").unwrap();
    let addr = listener.local_addr().unwrap();
    let every = Duration::from_millis(200);
    let span = Duration::from_millis(3200); // > 2h = 2s
    let server = thread::Builder::new()
        .name("c17e-broker".to_string())
        .spawn(move || broker(listener, body_len, first, chunk, every, span))
        .unwrap();

    let stream = mio::net::TcpStream::connect(&addr).unwrap();
    let options = ConnectionOptions::<Auth>::default().heartbeat(1);
    let mut conn =
        Connection::insecure_open_stream(stream, options, ConnectionTuning::default()).unwrap();
    let channel = conn.open_channel(Some(1)).unwrap();
    let consumer = channel
        .basic_consume("q", ConsumerOptions::default())
        .unwrap();

    let started = Instant::now();
    let got = consumer.receiver().recv_timeout(Duration::from_secs(15));
    let waited = started.elapsed();

    let result = match got {
        Ok(ConsumerMessage::Delivery(delivery)) => Ok(delivery.body),
        Ok(other) => Err(format!("consumer got {:?} after {:?}", other, waited)),
        Err(err) => {
            // The consumer's channel went away: the I/O thread is gone (or we timed out). Closing
            // the connection joins it and reports why it ended; with a dead I/O thread that does
            // not block.
            std::mem::forget(consumer);
            std::mem::forget(channel);
            let verdict = conn.close();
            let _ = server.join();
            return Err(format!(
                "no delivery ({}) after {:?}; connection ended with {:?}",
                err, waited, verdict
            ));
        }
    };
    // Do not talk to the scripted broker any more (it would not answer cancel / close).
    std::mem::forget(consumer);
    std::mem::forget(channel);
    std::mem::forget(conn);
    result
}

/// CONTROL (passes either way): a 3000-byte body dribbled over 3.2s; bytes arrive every 200ms,
/// so with heartbeat = 1s the server is alive and the delivery must come through.
#[test]
fn control_slow_small_delivery_is_not_a_dead_server() {
    let got = slow_delivery(3000, 200, 100);
    assert_eq!(got, Ok(body(3000)));
}

/// A 20000-byte body (one frame, frame_max is 131072) dribbled over 3.2s: bytes arrive every
/// 200ms, so with heartbeat = 1s the server is never silent for 2s, must not be declared dead,
/// and the delivery must come through intact.
#[test]
fn slow_large_delivery_is_not_a_dead_server() {
    let got = slow_delivery(20000, 5000, 500);
    assert_eq!(got, Ok(body(20000)));
}
