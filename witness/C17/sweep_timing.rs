//@host src/io_loop/mod.rs
// C17 bounded stand-in WITH wall-clock dependence (thorough tier and counterexample search only; margins are generous), end to end
// through the public API against the in-memory broker, negotiated heartbeat h = 1 s (the smallest AMQP allows) and h = 0:
//   A  an idle connection emits a heartbeat frame at least once per h: >= 2 frames within 3.5 s, none before the handshake is over;
//   B  a server that says nothing is declared dead with MissedServerHeartbeats, not before 2h of silence (1.9 s) and promptly (< 4 s);
//   C  a server that sends something every h/2 is never declared dead (4 s), although it answers no heartbeat as such;
//   D  with h = 0 nothing is sent and silence is never fatal (2.5 s);
//   F  ANY inbound traffic counts as liveness: one large frame (a 100 000 byte body frame, also a 3 000 byte one) whose bytes arrive in small pieces
//      every h/3 for 4 s - nothing else can be interleaved inside a frame - must not get the server declared dead, and the message arrives;
//   G  the same while the client's own close is pending (Close sent, CloseOk never comes, server silent): close() ends with
//      MissedServerHeartbeats within (2h, 4 s) - heartbeat supervision does not stop when writes are sealed;
//   E  the lower of the two sides' values is what counts: server 1 s / client 60 s behaves like A, server 0 / client 1 s like D.
include!("/verif/witness/_common/live_broker.rs");
use crate::{Auth, Connection, ConnectionOptions, ConnectionTuning, Error};
use std::thread;

fn open(server_hb: u16, client_hb: u16) -> (Handle, Connection) {
    let ctl = Handle::new();
    (ctl.0).0.lock().unwrap().tune = Some(connection_::Tune { channel_max: 16, frame_max: 131_072, heartbeat: server_hb });
    let connection = Connection::insecure_open_stream(LiveBroker::new(ctl.clone()), ConnectionOptions::<Auth>::default().heartbeat(client_hb), ConnectionTuning::default()).expect("handshake");
    (ctl, connection)
}

fn heartbeats_seen(ctl: &Handle) -> usize {
    (ctl.0).0.lock().unwrap().seen.iter().filter(|(_, f)| matches!(f, AMQPFrame::Heartbeat(_))).count()
}

fn keep_server_chatty(ctl: &Handle, every: Duration, total: Duration) {
    let start = Instant::now();
    while start.elapsed() < total {
        ctl.inject(vec![8, 0, 0, 0, 0, 0, 0, 0xCE]);
        thread::sleep(every);
    }
}

#[test]
fn verif_timing_c17_a_idle_connection_beats_and_c_chatty_server_lives() {
    for &(s, c) in &[(1u16, 1u16), (1, 60), (30, 1)] {
        let (ctl, connection) = open(s, c);
        let start = Instant::now();
        // the server keeps talking (so that only the client's own beating is observed), twice per interval
        keep_server_chatty(&ctl, Duration::from_millis(400), Duration::from_millis(3500));
        let n = heartbeats_seen(&ctl);
        assert!(n >= 2, "server {} client {}: an idle connection sent {} heartbeat frame(s) in {:?}", s, c, n, start.elapsed());
        assert!(n <= 6, "server {} client {}: {} heartbeat frames in {:?} is more than one per interval allows for", s, c, n, start.elapsed());
        // C: still alive
        let mut connection = connection;
        let ch = connection.open_channel(None).unwrap_or_else(|e| panic!("server {} client {}: a server that kept talking was declared dead: {}", s, c, e));
        std::mem::forget(ch);
        connection.close().unwrap();
    }
}

#[test]
fn verif_timing_c17_b_silent_server_is_declared_dead_after_two_intervals() {
    let (_ctl, connection) = open(1, 1);
    let silent_since = Instant::now();
    // Connection::close joins the I/O thread; its Close goes out, the broker answers CloseOk at once - so do not close: wait for the
    // thread to give up on its own by polling a call from another thread
    let mut connection = connection;
    let ch = connection.open_channel(None).unwrap();
    let silent_since2 = Instant::now(); // the OpenOk was the server's last byte
    let _ = silent_since;
    loop {
        thread::sleep(Duration::from_millis(50));
        // a nowait submission does not make the server talk; it fails once the I/O thread is gone
        if ch.queue_purge_nowait("q").is_err() {
            break;
        }
        assert!(silent_since2.elapsed() < Duration::from_secs(6), "a silent server was not declared dead within 6 s");
    }
    let waited = silent_since2.elapsed();
    std::mem::forget(ch);
    match connection.close() {
        Err(Error::MissedServerHeartbeats) => {}
        other => panic!("expected MissedServerHeartbeats, close returned {:?}", other.map_err(|e| e.to_string())),
    }
    assert!(waited >= Duration::from_millis(1900), "declared dead after only {:?} of silence (2 intervals = 2 s)", waited);
    assert!(waited < Duration::from_secs(4), "declared dead only after {:?}", waited);
}

#[test]
fn verif_timing_c17_d_zero_disables() {
    for &(s, c) in &[(0u16, 0u16), (0, 1), (1, 0)] {
        let (ctl, mut connection) = open(s, c);
        thread::sleep(Duration::from_millis(2500));
        assert_eq!(heartbeats_seen(&ctl), 0, "server {} client {}: heartbeat frames were sent although the negotiated interval is 0", s, c);
        let ch = connection.open_channel(None).unwrap_or_else(|e| panic!("server {} client {}: silence was fatal with heartbeats off: {}", s, c, e));
        std::mem::forget(ch);
        connection.close().unwrap();
    }
}

#[test]
fn verif_timing_c17_f_bytes_of_one_slow_frame_count_as_liveness() {
    use crate::{ConsumerMessage, ConsumerOptions};
    for &body_len in &[100_000usize, 3_000] {
        let (ctl, mut connection) = open(1, 1);
        let ch = connection.open_channel(Some(1)).unwrap();
        let consumer = ch.basic_consume("q", ConsumerOptions::default()).unwrap();
        let body: Vec<u8> = (0..body_len).map(|i| (i % 251) as u8).collect();
        let mut bytes = method_bytes(1, B::Deliver(basic::Deliver { consumer_tag: consumer.consumer_tag().to_string(), delivery_tag: 1, redelivered: false, exchange: "x".to_string(), routing_key: "k".to_string() }));
        bytes.extend(content_bytes(1, &body));
        // method frame, header frame and the first bytes of the body frame at once; the rest of the body frame trickles in: a piece every
        // 330 ms, for about 4 s = 4 intervals, every readable event carrying continuation bytes of that one frame only
        let head = bytes.len() - body_len + 5;
        ctl.inject(bytes[..head].to_vec());
        let rest = &bytes[head..];
        let pieces = 12;
        let piece = (rest.len() + pieces - 1) / pieces;
        for chunk in rest.chunks(piece) {
            thread::sleep(Duration::from_millis(330));
            ctl.inject(chunk.to_vec());
        }
        match consumer.receiver().recv_timeout(Duration::from_secs(5)) {
            Ok(ConsumerMessage::Delivery(d)) => assert!(d.body == body, "{} byte body: delivered body differs", body_len),
            other => panic!("{} byte body arriving slowly but steadily: the server was declared dead or the message lost: {:?}", body_len, other),
        }
        assert!(ch.queue_purge("q").is_ok(), "{} byte body: connection unusable after a slowly arriving frame", body_len);
        std::mem::forget(consumer);
        std::mem::forget(ch);
        connection.close().unwrap_or_else(|e| panic!("{} byte body: close: {}", body_len, e));
    }
}

#[test]
fn verif_timing_c17_g_silent_server_while_the_clients_close_is_pending() {
    let (ctl, connection) = open(1, 1);
    ctl.withhold(0, 10, 50); // the server never answers Connection.Close
    let silent_since = Instant::now();
    let (tx, rx) = std::sync::mpsc::channel();
    thread::spawn(move || {
        let r = connection.close();
        let _ = tx.send(r.map_err(|e| e.to_string()));
    });
    match rx.recv_timeout(Duration::from_secs(8)) {
        Ok(Err(e)) => assert!(e.contains("heartbeat"), "close() against a silent server ended with {:?}, expected MissedServerHeartbeats", e),
        Ok(Ok(())) => panic!("close() succeeded although the server never answered"),
        Err(_) => panic!("close() against a server that went silent did not return within 8 s: heartbeat supervision stopped while the close was pending"),
    }
    let waited = silent_since.elapsed();
    assert!(waited >= Duration::from_millis(1900), "declared dead after only {:?} of silence", waited);
    assert!(waited < Duration::from_secs(5), "declared dead only after {:?}", waited);
}
