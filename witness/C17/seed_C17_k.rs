//@host src/lib.rs
// witness scenario from seeded change C17-k (independent sub-agent demonstration); passes on the unchanged tree
//! C17k demonstration: heartbeats while the AMQP handshake is still in flight.
//!
//! Everything here goes through the public entry point `Connection::insecure_open_stream`
//! with an in-memory `IoStream` (a `mio::Registration` supplies the `Evented` part) and a
//! scripted broker running on its own thread. No sockets are involved.
//!
//! The heartbeat interval is negotiated in whole seconds, so the tests use h = 1 and wait
//! for real time; every wait is guarded by a watchdog so a broken library makes the test
//! FAIL (after at most ~10 s) instead of hanging.
//!
//! * `stalled_open_is_reported_as_missed_heartbeats` - the demonstration. The broker sends
//!   Start and Tune (heartbeat = 1), reads TuneOk + Open and then goes silent. From Tune on
//!   the interval is negotiated, so the client must (a) emit a heartbeat after 1 s of having
//!   nothing to send and (b) give up with `MissedServerHeartbeats` after 2 s of silence.
//! * `silent_server_after_open_is_declared_dead` - control: same, but the broker answers
//!   OpenOk before going silent.
//! * `heartbeat_zero_is_quiet_and_never_fatal` - control: h = 0, silence, clean close.

use crate::serialize::OutputBuffer;
use crate::{Auth, Connection, ConnectionOptions, ConnectionTuning, Error, FieldTable, IoStream};
use amq_protocol::frame::{parse_frame, AMQPFrame};
use amq_protocol::protocol::connection::AMQPMethod as Conn;
use amq_protocol::protocol::connection::{CloseOk, OpenOk, Start, Tune};
use amq_protocol::protocol::AMQPClass;
use mio::{Evented, Poll, PollOpt, Ready, Registration, SetReadiness, Token};
use std::collections::VecDeque;
use std::io::{self, Read, Write};
use std::sync::atomic::{AtomicBool, Ordering};
use std::sync::{Arc, Condvar, Mutex};
use std::thread;
use std::time::{Duration, Instant};

const WATCHDOG: Duration = Duration::from_secs(10);

// ---------------------------------------------------------------------------------------
// in-memory wire
// ---------------------------------------------------------------------------------------

#[derive(Default)]
struct Pipe {
    to_client: VecDeque<u8>,
    from_client: Vec<u8>,
}

struct Wire {
    pipe: Mutex<Pipe>,
    client_wrote: Condvar,
    readiness: SetReadiness,
}

/// The client's end: what amiquip's I/O thread reads from and writes to.
struct ClientEnd {
    wire: Arc<Wire>,
    registration: Registration,
}

fn wire() -> (ClientEnd, Arc<Wire>) {
    let (registration, readiness) = Registration::new2();
    // always writable; readable whenever the broker has queued bytes
    readiness.set_readiness(Ready::writable()).unwrap();
    let wire = Arc::new(Wire {
        pipe: Mutex::new(Pipe::default()),
        client_wrote: Condvar::new(),
        readiness,
    });
    (
        ClientEnd {
            wire: Arc::clone(&wire),
            registration,
        },
        wire,
    )
}

impl Read for ClientEnd {
    fn read(&mut self, buf: &mut [u8]) -> io::Result<usize> {
        let mut pipe = self.wire.pipe.lock().unwrap();
        if pipe.to_client.is_empty() {
            self.wire.readiness.set_readiness(Ready::writable())?;
            return Err(io::ErrorKind::WouldBlock.into());
        }
        let n = usize::min(buf.len(), pipe.to_client.len());
        for (dst, src) in buf.iter_mut().zip(pipe.to_client.drain(..n)) {
            *dst = src;
        }
        if pipe.to_client.is_empty() {
            self.wire.readiness.set_readiness(Ready::writable())?;
        }
        Ok(n)
    }
}

impl Write for ClientEnd {
    fn write(&mut self, buf: &[u8]) -> io::Result<usize> {
        let mut pipe = self.wire.pipe.lock().unwrap();
        pipe.from_client.extend_from_slice(buf);
        self.wire.client_wrote.notify_all();
        Ok(buf.len())
    }

    fn flush(&mut self) -> io::Result<()> {
        Ok(())
    }
}

impl Evented for ClientEnd {
    fn register(&self, poll: &Poll, token: Token, interest: Ready, opts: PollOpt) -> io::Result<()> {
        self.registration.register(poll, token, interest, opts)
    }

    fn reregister(
        &self,
        poll: &Poll,
        token: Token,
        interest: Ready,
        opts: PollOpt,
    ) -> io::Result<()> {
        self.registration.reregister(poll, token, interest, opts)
    }

    fn deregister(&self, poll: &Poll) -> io::Result<()> {
        poll.deregister(&self.registration)
    }
}

impl IoStream for ClientEnd {}

// ---------------------------------------------------------------------------------------
// scripted broker
// ---------------------------------------------------------------------------------------

#[derive(Clone, Copy, PartialEq)]
enum Script {
    /// Start, Tune, then read TuneOk + Open and never say anything again.
    StallBeforeOpenOk,
    /// Full handshake, then never say anything again (not even CloseOk).
    SilentAfterOpenOk,
    /// Full handshake, silent, but answers Close with CloseOk.
    PoliteButQuiet,
}

#[derive(Default)]
struct Seen {
    /// when the broker last put bytes on the wire
    last_server_byte: Option<Instant>,
    /// arrival time of every heartbeat frame the client sent
    client_heartbeats: Vec<Instant>,
}

struct Broker {
    seen: Arc<Mutex<Seen>>,
    stop: Arc<AtomicBool>,
}

impl Drop for Broker {
    fn drop(&mut self) {
        self.stop.store(true, Ordering::SeqCst);
    }
}

fn send(wire: &Wire, seen: &Mutex<Seen>, method: Conn) {
    let mut out = OutputBuffer::empty();
    out.push_method(0, method);
    let mut pipe = wire.pipe.lock().unwrap();
    pipe.to_client.extend(out[0..].iter().copied());
    seen.lock().unwrap().last_server_byte = Some(Instant::now());
    wire.readiness
        .set_readiness(Ready::readable() | Ready::writable())
        .unwrap();
}

fn start_broker(wire: Arc<Wire>, heartbeat: u16, script: Script) -> Broker {
    let seen = Arc::new(Mutex::new(Seen::default()));
    let stop = Arc::new(AtomicBool::new(false));
    let broker = Broker {
        seen: Arc::clone(&seen),
        stop: Arc::clone(&stop),
    };

    thread::spawn(move || {
        let mut inbuf: Vec<u8> = Vec::new();
        let mut got_header = false;
        let give_up = Instant::now() + 3 * WATCHDOG;
        while !stop.load(Ordering::SeqCst) && Instant::now() < give_up {
            // collect whatever the client wrote
            {
                let mut pipe = wire.pipe.lock().unwrap();
                if pipe.from_client.is_empty() {
                    pipe = wire
                        .client_wrote
                        .wait_timeout(pipe, Duration::from_millis(50))
                        .unwrap()
                        .0;
                }
                inbuf.append(&mut pipe.from_client);
            }

            if !got_header {
                if inbuf.len() < 8 {
                    continue;
                }
                assert_eq!(&inbuf[..8], b"AMQP\x00\x00\x09\x01");
                inbuf.drain(..8);
                got_header = true;
                send(
                    &wire,
                    &seen,
                    Conn::Start(Start {
                        version_major: 0,
                        version_minor: 9,
                        server_properties: FieldTable::new(),
                        mechanisms: "PLAIN".to_string(),
                        locales: "en_US".to_string(),
                    }),
                );
            }

            // handle every complete frame
            while inbuf.len() >= 7 {
                let size = u32::from_be_bytes([inbuf[3], inbuf[4], inbuf[5], inbuf[6]]) as usize + 8;
                if inbuf.len() < size {
                    break;
                }
                let frame = match parse_frame(&inbuf[..size]) {
                    Ok((_, frame)) => frame,
                    Err(_) => panic!("broker could not parse a client frame"),
                };
                inbuf.drain(..size);
                match frame {
                    AMQPFrame::Heartbeat(0) => {
                        seen.lock().unwrap().client_heartbeats.push(Instant::now());
                    }
                    AMQPFrame::Method(0, AMQPClass::Connection(Conn::StartOk(_))) => send(
                        &wire,
                        &seen,
                        Conn::Tune(Tune {
                            channel_max: 0,
                            frame_max: 131_072,
                            heartbeat,
                        }),
                    ),
                    AMQPFrame::Method(0, AMQPClass::Connection(Conn::TuneOk(ok))) => {
                        assert_eq!(ok.heartbeat, heartbeat, "client must accept our interval");
                    }
                    AMQPFrame::Method(0, AMQPClass::Connection(Conn::Open(_))) => {
                        if script != Script::StallBeforeOpenOk {
                            send(
                                &wire,
                                &seen,
                                Conn::OpenOk(OpenOk {
                                    known_hosts: String::new(),
                                }),
                            );
                        }
                    }
                    AMQPFrame::Method(0, AMQPClass::Connection(Conn::Close(_))) => {
                        if script == Script::PoliteButQuiet {
                            send(&wire, &seen, Conn::CloseOk(CloseOk {}));
                        }
                    }
                    other => panic!("broker script does not expect {:?}", other),
                }
            }
        }
    });

    broker
}

// ---------------------------------------------------------------------------------------
// helpers
// ---------------------------------------------------------------------------------------

/// Runs `f` on its own thread and waits for it for at most WATCHDOG.
fn with_watchdog<T, F>(what: &str, f: F) -> T
where
    T: Send + 'static,
    F: FnOnce() -> T + Send + 'static,
{
    let (tx, rx) = crossbeam_channel::bounded(1);
    thread::spawn(move || {
        let _ = tx.send(f());
    });
    match rx.recv_timeout(WATCHDOG) {
        Ok(value) => value,
        Err(_) => panic!("{} did not finish within {:?}", what, WATCHDOG),
    }
}

fn open(stream: ClientEnd, heartbeat: u16) -> crate::Result<Connection> {
    Connection::insecure_open_stream(
        stream,
        ConnectionOptions::<Auth>::default().heartbeat(heartbeat),
        ConnectionTuning::default(),
    )
}

// ---------------------------------------------------------------------------------------
// tests
// ---------------------------------------------------------------------------------------

#[test]
fn stalled_open_is_reported_as_missed_heartbeats() {
    let (stream, wire) = wire();
    let broker = start_broker(wire, 1, Script::StallBeforeOpenOk);

    let result = with_watchdog("opening a connection to a broker that stalls after Tune", {
        move || open(stream, 1).map(|conn| std::mem::forget(conn))
    });
    let failed_at = Instant::now();

    match result {
        Err(Error::MissedServerHeartbeats) => (),
        Err(err) => panic!("expected MissedServerHeartbeats, got {}", err),
        Ok(()) => panic!("open succeeded although the broker never sent OpenOk"),
    }

    let seen = broker.seen.lock().unwrap();
    let silence = failed_at - seen.last_server_byte.expect("broker sent Start and Tune");
    assert!(
        silence >= Duration::from_millis(1900),
        "declared dead after only {:?} of silence (h = 1 s, so not before 2 s)",
        silence
    );
    assert!(
        !seen.client_heartbeats.is_empty(),
        "client had nothing to send for {:?} with h = 1 s but emitted no heartbeat",
        silence
    );
}

#[test]
fn silent_server_after_open_is_declared_dead() {
    let (stream, wire) = wire();
    let broker = start_broker(wire, 1, Script::SilentAfterOpenOk);

    let connection = with_watchdog("opening a connection", move || open(stream, 1))
        .expect("handshake with a cooperative broker");

    // 2 s of silence kill the connection; give it a little longer than that, then collect the
    // I/O thread's verdict through close().
    thread::sleep(Duration::from_millis(3000));
    let result = with_watchdog("closing a dead connection", move || connection.close());
    match result {
        Err(Error::MissedServerHeartbeats) => (),
        Err(err) => panic!("expected MissedServerHeartbeats, got {}", err),
        Ok(()) => panic!("close succeeded although the broker never answered"),
    }

    let seen = broker.seen.lock().unwrap();
    assert!(
        !seen.client_heartbeats.is_empty(),
        "idle client with h = 1 s emitted no heartbeat in 2 s"
    );
    let first = seen.client_heartbeats[0] - seen.last_server_byte.unwrap();
    assert!(
        first < Duration::from_millis(1600),
        "first heartbeat only {:?} after the handshake",
        first
    );
}

#[test]
fn heartbeat_zero_is_quiet_and_never_fatal() {
    let (stream, wire) = wire();
    let broker = start_broker(wire, 0, Script::PoliteButQuiet);

    let connection = with_watchdog("opening a connection", move || open(stream, 0))
        .expect("handshake with a cooperative broker");

    thread::sleep(Duration::from_millis(2500));
    assert!(
        broker.seen.lock().unwrap().client_heartbeats.is_empty(),
        "heartbeats are disabled but the client sent one"
    );

    with_watchdog("closing the connection", move || connection.close())
        .expect("silence must not be fatal with h = 0");
}
