//@host src/io_loop/mod.rs
// witness scenario from seeded change C17-g (independent sub-agent demonstration); passes on the unchanged tree
//! Demonstration for seed C17g: the rx heartbeat watchdog has to stay armed while a
//! client-initiated close is waiting for the server's close-ok.
//!
//! C17: "a connection that receives no byte from the server for 2h seconds fails with
//! MissedServerHeartbeats - not before 2h seconds of silence, and promptly after". That is also
//! what bounds `Connection::close()` against a broker that has stopped answering (see the docs
//! of `Connection::close`: only *without* heartbeats may it block indefinitely).
//!
//! Two levels:
//!  * `direct_*`  drive `Inner` (the I/O loop's state) and the real timers with a 300 ms interval;
//!  * `e2e_*`     run the real `Connection` / I/O thread over a loopback socket against a scripted
//!                broker, with the smallest negotiable heartbeat (1 s).
//!
//! Every wait has a deadline, so a broken library makes the tests FAIL, not hang.

use super::*;
use crate::{Auth, Connection};
use amq_protocol::protocol::connection::AMQPMethod as AmqpConnection;
use amq_protocol::protocol::connection::{Close, CloseOk, OpenOk, Start, Tune};
use std::io::{Read, Write};
use std::net::{TcpListener, TcpStream as StdTcpStream};
use std::sync::mpsc;
use std::thread;

// ---------------------------------------------------------------------------------------------
// direct: Inner + HeartbeatTimers + the IoLoop's own Poll
// ---------------------------------------------------------------------------------------------

const DIRECT_H: Duration = Duration::from_millis(300);

fn client_close_message() -> IoLoopMessage {
    let mut buf = OutputBuffer::empty();
    buf.push_method(
        0,
        AmqpConnection::Close(Close {
            reply_code: 200,
            reply_text: "goodbye".to_string(),
            class_id: 0,
            method_id: 0,
        }),
    );
    IoLoopMessage::ConnectionClose(buf)
}

/// Services HEARTBEAT events of `io_loop` exactly like handle_steady_event does, until
/// process_heartbeat_timers fails or `deadline` passes. Returns the failure and when it happened
/// (relative to `start`).
fn run_timers_until_failure(
    io_loop: &mut IoLoop,
    start: Instant,
    deadline: Duration,
) -> Option<(Error, Duration)> {
    let mut events = Events::with_capacity(16);
    while start.elapsed() < deadline {
        io_loop
            .poll
            .poll(&mut events, Some(Duration::from_millis(50)))
            .unwrap();
        for event in events.iter() {
            assert_eq!(event.token(), HEARTBEAT);
            if let Err(err) = io_loop.inner.process_heartbeat_timers() {
                return Some((err, start.elapsed()));
            }
        }
    }
    None
}

fn assert_missed_heartbeats_at_2h(outcome: Option<(Error, Duration)>, h: Duration, what: &str) {
    match outcome {
        Some((Error::MissedServerHeartbeats, at)) => {
            assert!(
                at + Duration::from_millis(150) >= 2 * h,
                "{}: declared dead after {:?}, before 2h = {:?} of silence",
                what,
                at,
                2 * h
            );
            assert!(
                at <= 2 * h + h,
                "{}: declared dead only after {:?} (2h = {:?})",
                what,
                at,
                2 * h
            );
        }
        Some((err, at)) => panic!("{}: unexpected failure {:?} after {:?}", what, err, at),
        None => panic!(
            "{}: a silent server was never declared dead (2h = {:?}); the connection would hang",
            what,
            2 * h
        ),
    }
}

/// Control: silent server, no close in progress.
#[test]
fn direct_silent_server_is_declared_dead_after_2h() {
    let mut io_loop = IoLoop::new(ConnectionTuning::default()).unwrap();
    let start = Instant::now();
    io_loop.inner.heartbeats.start(DIRECT_H);

    let outcome = run_timers_until_failure(&mut io_loop, start, 6 * DIRECT_H);
    assert_missed_heartbeats_at_2h(outcome, DIRECT_H, "steady state");
}

/// Control: h = 0 (timers never started): a client close that is never answered is not fatal.
#[test]
fn direct_no_heartbeats_no_failure() {
    let mut io_loop = IoLoop::new(ConnectionTuning::default()).unwrap();
    let start = Instant::now();
    io_loop.inner.start_heartbeats(0);
    io_loop
        .inner
        .process_channel_message(0, client_close_message())
        .unwrap();
    assert!(io_loop.inner.are_writes_sealed());

    let outcome = run_timers_until_failure(&mut io_loop, start, 3 * DIRECT_H);
    assert!(outcome.is_none(), "h = 0 but got {:?}", outcome);
}

/// The property, in the closing state: the client has asked to close (Close queued, writes
/// sealed) and the server never says another word.
#[test]
fn direct_silent_server_is_declared_dead_while_client_close_is_pending() {
    let mut io_loop = IoLoop::new(ConnectionTuning::default()).unwrap();
    let start = Instant::now();
    io_loop.inner.heartbeats.start(DIRECT_H);

    // what the I/O thread does when Connection::close() hands over its Close method
    io_loop
        .inner
        .process_channel_message(0, client_close_message())
        .unwrap();
    assert!(io_loop.inner.are_writes_sealed());

    let outcome = run_timers_until_failure(&mut io_loop, start, 6 * DIRECT_H);
    assert_missed_heartbeats_at_2h(outcome, DIRECT_H, "client close pending");
}

// ---------------------------------------------------------------------------------------------
// e2e: real Connection + I/O thread against a scripted broker on a loopback socket
// ---------------------------------------------------------------------------------------------

const E2E_H: Duration = Duration::from_secs(1);

fn frame_bytes(method: AmqpConnection) -> Vec<u8> {
    let mut buf = OutputBuffer::empty();
    buf.push_method(0, method);
    buf[0..].to_vec()
}

/// (frame type, channel, payload)
fn read_frame(sock: &mut StdTcpStream) -> std::io::Result<(u8, u16, Vec<u8>)> {
    let mut header = [0u8; 7];
    sock.read_exact(&mut header)?;
    let size = u32::from_be_bytes([header[3], header[4], header[5], header[6]]) as usize;
    let mut rest = vec![0u8; size + 1];
    sock.read_exact(&mut rest)?;
    assert_eq!(rest.pop(), Some(0xCE), "frame-end");
    Ok((header[0], u16::from_be_bytes([header[1], header[2]]), rest))
}

fn is_method(frame: &(u8, u16, Vec<u8>), class_id: u16, method_id: u16) -> bool {
    frame.0 == 1
        && frame.2.len() >= 4
        && u16::from_be_bytes([frame.2[0], frame.2[1]]) == class_id
        && u16::from_be_bytes([frame.2[2], frame.2[3]]) == method_id
}

/// Broker side of the AMQP handshake, proposing a heartbeat of 1 s.
fn broker_handshake(sock: &mut StdTcpStream) {
    let mut header = [0u8; 8];
    sock.read_exact(&mut header).unwrap();
    assert_eq!(&header, b"AMQP\x00\x00\x09\x01");
    sock.write_all(&frame_bytes(AmqpConnection::Start(Start {
        version_major: 0,
        version_minor: 9,
        server_properties: FieldTable::new(),
        mechanisms: "PLAIN".to_string(),
        locales: "en_US".to_string(),
    })))
    .unwrap();
    assert!(is_method(&read_frame(sock).unwrap(), 10, 11)); // start-ok
    sock.write_all(&frame_bytes(AmqpConnection::Tune(Tune {
        channel_max: 2047,
        frame_max: 131_072,
        heartbeat: 1,
    })))
    .unwrap();
    assert!(is_method(&read_frame(sock).unwrap(), 10, 31)); // tune-ok
    assert!(is_method(&read_frame(sock).unwrap(), 10, 40)); // open
    sock.write_all(&frame_bytes(AmqpConnection::OpenOk(OpenOk {
        known_hosts: String::new(),
    })))
    .unwrap();
}

#[derive(Debug)]
enum BrokerSaw {
    Heartbeat(Duration),
    Close(Duration),
    Eof(Duration),
}

#[derive(Clone, Copy, PartialEq)]
enum OnClose {
    AnswerCloseOk,
    StaySilent,
}

/// Starts the scripted broker. After the handshake it never sends anything on its own; what it
/// sees is reported on the returned channel (times relative to the end of the handshake). It keeps
/// the socket open until the client goes away or the returned `Sender` is dropped / used.
fn start_broker(
    on_close: OnClose,
) -> (
    std::net::SocketAddr,
    mpsc::Receiver<BrokerSaw>,
    mpsc::Sender<()>,
) {
    let listener = TcpListener::bind("127.0.0.1:0").unwrap();
    let addr = listener.local_addr().unwrap();
    let (saw_tx, saw_rx) = mpsc::channel();
    let (quit_tx, quit_rx) = mpsc::channel::<()>();
    thread::spawn(move || {
        let (mut sock, _) = listener.accept().unwrap();
        sock.set_read_timeout(Some(Duration::from_secs(10))).unwrap();
        broker_handshake(&mut sock);
        let open = Instant::now();
        sock.set_read_timeout(Some(Duration::from_millis(100)))
            .unwrap();
        loop {
            match quit_rx.try_recv() {
                Err(mpsc::TryRecvError::Empty) => {}
                _ => return, // test is over (or failed): drop the socket
            }
            // one byte at a time with a short timeout, so that we notice `quit`
            let mut first = [0u8; 1];
            match sock.peek(&mut first) {
                Ok(0) => {
                    let _ = saw_tx.send(BrokerSaw::Eof(open.elapsed()));
                    return;
                }
                Ok(_) => {}
                Err(ref err)
                    if err.kind() == std::io::ErrorKind::WouldBlock
                        || err.kind() == std::io::ErrorKind::TimedOut =>
                {
                    continue
                }
                Err(_) => {
                    let _ = saw_tx.send(BrokerSaw::Eof(open.elapsed()));
                    return;
                }
            }
            sock.set_read_timeout(Some(Duration::from_secs(5))).unwrap();
            let frame = read_frame(&mut sock).unwrap();
            sock.set_read_timeout(Some(Duration::from_millis(100)))
                .unwrap();
            if frame.0 == 8 {
                let _ = saw_tx.send(BrokerSaw::Heartbeat(open.elapsed()));
            } else if is_method(&frame, 10, 50) {
                let _ = saw_tx.send(BrokerSaw::Close(open.elapsed()));
                if on_close == OnClose::AnswerCloseOk {
                    sock.write_all(&frame_bytes(AmqpConnection::CloseOk(CloseOk {})))
                        .unwrap();
                }
            }
        }
    });
    (addr, saw_rx, quit_tx)
}

fn open_connection(addr: std::net::SocketAddr) -> Connection {
    let stream = mio::net::TcpStream::connect(&addr).unwrap();
    Connection::insecure_open_stream(
        stream,
        ConnectionOptions::<Auth>::default().heartbeat(1),
        ConnectionTuning::default(),
    )
    .unwrap()
}

/// Runs `connection.close()` on a helper thread and waits at most `limit` for it.
fn close_with_deadline(
    connection: Connection,
    limit: Duration,
) -> Option<(crate::Result<()>, Duration)> {
    let (tx, rx) = mpsc::channel();
    let start = Instant::now();
    thread::spawn(move || {
        let result = connection.close();
        let _ = tx.send((result, start.elapsed()));
    });
    rx.recv_timeout(limit).ok()
}

/// Control: the broker answers the close; close() succeeds at once.
#[test]
fn e2e_close_answered_by_broker_succeeds() {
    let (addr, _saw, _quit) = start_broker(OnClose::AnswerCloseOk);
    let connection = open_connection(addr);
    match close_with_deadline(connection, 5 * E2E_H) {
        Some((Ok(()), took)) => assert!(took < E2E_H, "close took {:?}", took),
        other => panic!("unexpected outcome of close(): {:?}", other),
    }
}

/// Control: steady state. The idle client sends a heartbeat within h, and is gone (socket closed,
/// I/O thread ended with MissedServerHeartbeats) about 2h after the broker's last byte.
#[test]
fn e2e_silent_broker_is_declared_dead_after_2h() {
    let (addr, saw, _quit) = start_broker(OnClose::StaySilent);
    let connection = open_connection(addr);

    let mut heartbeats = Vec::new();
    let eof = loop {
        match saw.recv_timeout(6 * E2E_H) {
            Ok(BrokerSaw::Heartbeat(at)) => heartbeats.push(at),
            Ok(BrokerSaw::Eof(at)) => break at,
            Ok(other) => panic!("broker saw unexpected {:?}", other),
            Err(_) => panic!("client still connected long after 2h of silence"),
        }
    };
    assert!(
        !heartbeats.is_empty() && heartbeats[0] <= E2E_H + Duration::from_millis(400),
        "heartbeats seen by the broker: {:?}",
        heartbeats
    );
    assert!(
        eof + Duration::from_millis(300) >= 2 * E2E_H && eof <= 3 * E2E_H,
        "client went away after {:?}",
        eof
    );
    match close_with_deadline(connection, 2 * E2E_H) {
        Some((Err(Error::MissedServerHeartbeats), _)) => {}
        other => panic!("unexpected outcome of close(): {:?}", other),
    }
}

/// The property, end to end: close() against a broker that reads our Close and then says nothing.
/// 2h after the broker's last byte the connection has to fail with MissedServerHeartbeats, which
/// is what releases the caller of close().
#[test]
fn e2e_close_against_silent_broker_fails_with_missed_heartbeats_after_2h() {
    let (addr, saw, quit) = start_broker(OnClose::StaySilent);
    let connection = open_connection(addr);

    let outcome = close_with_deadline(connection, 5 * E2E_H);
    // the broker did get our Close, right away
    match saw.recv_timeout(E2E_H) {
        Ok(BrokerSaw::Close(at)) => assert!(at < E2E_H, "close seen after {:?}", at),
        other => panic!("broker saw {:?} instead of connection.close", other),
    }
    // let the broker thread go (drops its socket, which also releases a stuck close())
    let _ = quit.send(());

    match outcome {
        Some((Err(Error::MissedServerHeartbeats), took)) => {
            assert!(
                took + Duration::from_millis(300) >= 2 * E2E_H,
                "declared dead after {:?}, before 2h of silence",
                took
            );
            assert!(took <= 3 * E2E_H, "declared dead only after {:?}", took);
        }
        Some((result, took)) => panic!("close() returned {:?} after {:?}", result, took),
        None => panic!(
            "close() still blocked {:?} after the broker's last byte (h = {:?}): \
             the silent broker was never declared dead",
            5 * E2E_H,
            E2E_H
        ),
    }
}
