//@host src/io_loop/mod.rs
// witness scenario from seeded change C17-a (independent sub-agent demonstration); passes on the unchanged tree
// Demonstration for seeded change C17 (heartbeat timers must run at the NEGOTIATED interval).
//
// Wire with `#[cfg(test)] mod seed_c17_demo;` in src/io_loop/mod.rs.
//
// Drives HandshakeState::process() with a connection.tune frame, exactly as the I/O loop does
// when the server's Tune arrives, and then drives Inner::process_heartbeat_timers() the way the
// HEARTBEAT poll token does. No socket or server involved.

use super::heartbeat_timers::HeartbeatTimers;
use super::{HandshakeState, Inner};
use crate::connection_options::ConnectionOptions;
use crate::errors::Error;
use crate::{Auth, FieldTable};
use amq_protocol::frame::AMQPFrame;
use amq_protocol::protocol::connection::AMQPMethod as AmqpConnection;
use amq_protocol::protocol::connection::Tune;
use amq_protocol::protocol::AMQPClass;
use std::thread::sleep;
use std::time::Duration;

// heartbeat frame: type 8, channel 0, size 0, frame-end 0xCE
const HEARTBEAT_FRAME: &[u8] = &[8, 0, 0, 0, 0, 0, 0, 0xCE];

fn tune_frame(server_heartbeat: u16) -> AMQPFrame {
    AMQPFrame::Method(
        0,
        AMQPClass::Connection(AmqpConnection::Tune(Tune {
            channel_max: 2047,
            frame_max: 131_072,
            heartbeat: server_heartbeat,
        })),
    )
}

// Runs the Tune step of the handshake with the given client option / server proposal and
// returns the Inner (with everything "written" to the socket, i.e. outbuf emptied) plus the
// heartbeat value we put in the TuneOk we sent, i.e. the negotiated interval.
fn negotiate(client_heartbeat: u16, server_heartbeat: u16) -> (Inner, u16) {
    let mut inner = Inner::new(HeartbeatTimers::default(), 16);
    let options = ConnectionOptions::<Auth>::default().heartbeat(client_heartbeat);
    let mut state = HandshakeState::Tune(options, FieldTable::new());
    state
        .process(&mut inner, tune_frame(server_heartbeat))
        .unwrap();
    let negotiated = match &state {
        HandshakeState::Open(tune_ok, _) => tune_ok.heartbeat,
        other => panic!("unexpected handshake state {:?}", other),
    };
    // pretend protocol header + TuneOk + Open were fully written out
    inner.outbuf.clear();
    (inner, negotiated)
}

// Server proposes heartbeat 0 (legal: "I do not want heartbeats"), client is configured with a
// non-zero value. Negotiated interval is 0, so no heartbeat may be sent and silence must never
// be fatal.
#[test]
fn negotiated_zero_means_silence_is_never_fatal() {
    let (mut inner, negotiated) = negotiate(1, 0);
    assert_eq!(negotiated, 0, "TuneOk must carry heartbeat 0");

    // well over 2 * (client's configured 1 second) of total silence in both directions
    sleep(Duration::from_millis(2300));

    match inner.process_heartbeat_timers() {
        Ok(()) => (),
        Err(Error::MissedServerHeartbeats) => {
            panic!("negotiated heartbeat is 0, but silence was declared fatal")
        }
        Err(err) => panic!("unexpected error {}", err),
    }
    assert!(
        inner.outbuf.is_empty(),
        "negotiated heartbeat is 0, but a heartbeat frame was enqueued"
    );
}

// Server proposes 1 second, client is configured with 3 seconds. Negotiated interval is 1 (that
// is what we tell the server in TuneOk), so an idle connection must emit a heartbeat within
// about 1 second.
#[test]
fn idle_connection_sends_heartbeat_within_negotiated_interval() {
    let (mut inner, negotiated) = negotiate(3, 1);
    assert_eq!(negotiated, 1, "TuneOk must carry heartbeat 1");

    // nothing to send for a bit more than the negotiated 1 second (timer tick is 100ms)
    sleep(Duration::from_millis(1400));

    inner.process_heartbeat_timers().unwrap();
    assert_eq!(
        &inner.outbuf[0..],
        HEARTBEAT_FRAME,
        "idle for > negotiated interval (1s) but no heartbeat frame was enqueued"
    );
}
