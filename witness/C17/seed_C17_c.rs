//@host src/io_loop/mod.rs
// witness scenario from seeded change C17-c (independent sub-agent demonstration); passes on the unchanged tree
//! Demonstration for property C17 (heartbeats: sent when idle, enforced on the server).
//!
//! The tests drive the REAL `IoLoop` (`run_io_loop`, `handle_handshake_event`,
//! `is_handshake_done`, `run_connection`, the real heartbeat timers and the real mio poll) over
//! a loopback TCP socket whose other end is a scripted "broker" living in the test.
//!
//! Scenario: heartbeat 1s is negotiated. The broker then goes silent after `Connection.OpenOk`
//! and just records what it receives. C17 says that
//!   * the idle client emits a heartbeat frame at least once per second, and
//!   * the client fails with `MissedServerHeartbeats` about 2s after the last byte it received.
//!
//! The interesting schedule is the one in which `OpenOk` becomes readable in the very same
//! poll wake-up in which a heartbeat timer tick is pending (the broker took a bit more than one
//! heartbeat interval to answer `Open`, or the I/O thread was not scheduled for that long). The
//! handshake phase of the loop ends on that batch of events, and the timer tick is part of it.
//!
//! The control test runs the same script with `OpenOk` answered immediately.

use super::*;
use crate::auth::Auth;
use amq_protocol::protocol::connection::AMQPMethod as AmqpConnection;
use amq_protocol::protocol::connection::{OpenOk, Start, Tune};
use mio::net::TcpStream;
use std::io::{Read, Write};
use std::net::{Shutdown, TcpListener, TcpStream as StdTcpStream};
use std::sync::mpsc;
use std::thread;

const HEARTBEAT_SECS: u16 = 1;
const AMQP_FRAME_HEARTBEAT: u8 = 8;

fn h() -> Duration {
    Duration::from_secs(u64::from(HEARTBEAT_SECS))
}

fn millis(n: u64) -> Duration {
    Duration::from_millis(n)
}

fn method_frame(method: AmqpConnection) -> Vec<u8> {
    let mut buf = OutputBuffer::empty();
    buf.push_method(0, method);
    buf[0..].to_vec()
}

/// The broker end of the loopback socket: writes scripted frames, and records the arrival
/// time and frame type of everything the client sends.
struct Broker {
    sock: StdTcpStream,
    pending: Vec<u8>,
    seen_protocol_header: bool,
    frames: Vec<(Instant, u8)>,
    eof: bool,
}

impl Broker {
    fn send(&mut self, method: AmqpConnection) {
        self.sock.write_all(&method_frame(method)).unwrap();
        self.sock.flush().unwrap();
    }

    /// Read whatever arrives until `until` (or EOF), splitting it into AMQP frames.
    fn pump(&mut self, until: Instant) {
        let mut chunk = [0u8; 4096];
        while !self.eof && Instant::now() < until {
            match self.sock.read(&mut chunk) {
                Ok(0) => self.eof = true,
                Ok(n) => {
                    self.pending.extend_from_slice(&chunk[..n]);
                    self.split_frames(Instant::now());
                }
                Err(err) => match err.kind() {
                    io::ErrorKind::WouldBlock | io::ErrorKind::TimedOut => (),
                    _ => self.eof = true,
                },
            }
        }
    }

    fn split_frames(&mut self, now: Instant) {
        if !self.seen_protocol_header {
            if self.pending.len() < 8 {
                return;
            }
            assert_eq!(&self.pending[..8], b"AMQP\x00\x00\x09\x01");
            self.pending.drain(..8);
            self.seen_protocol_header = true;
        }
        while self.pending.len() >= 7 {
            let size = u32::from_be_bytes([
                self.pending[3],
                self.pending[4],
                self.pending[5],
                self.pending[6],
            ]) as usize;
            if self.pending.len() < size + 8 {
                return;
            }
            assert_eq!(self.pending[size + 7], 0xCE, "bad frame end");
            self.frames.push((now, self.pending[0]));
            self.pending.drain(..size + 8);
        }
    }

    fn heartbeats_since(&self, t: Instant) -> Vec<Duration> {
        self.frames
            .iter()
            .filter(|(at, kind)| *kind == AMQP_FRAME_HEARTBEAT && *at >= t)
            .map(|(at, _)| *at - t)
            .collect()
    }
}

fn socket_pair() -> (TcpStream, Broker) {
    let listener = TcpListener::bind("127.0.0.1:0").unwrap();
    let client = StdTcpStream::connect(listener.local_addr().unwrap()).unwrap();
    let (sock, _) = listener.accept().unwrap();
    client.set_nodelay(true).unwrap();
    sock.set_nodelay(true).unwrap();
    sock.set_read_timeout(Some(millis(20))).unwrap();
    let broker = Broker {
        sock,
        pending: Vec::new(),
        seen_protocol_header: false,
        frames: Vec::new(),
        eof: false,
    };
    (TcpStream::from_stream(client).unwrap(), broker)
}

struct Observed {
    /// Arrival times (relative to the moment the broker went silent) of the heartbeat frames
    /// the broker received after it went silent.
    heartbeats: Vec<Duration>,
    /// When (relative to the moment the broker went silent) and how `run_connection` ended
    /// while the broker was still connected; `None` if it was still running at the deadline.
    end: Option<(Duration, Result<()>)>,
}

/// Run the scripted connection. If `open_ok_meets_timer_tick`, the broker's `OpenOk` is made to
/// become readable in the same poll wake-up as a heartbeat timer tick.
fn run_scenario(open_ok_meets_timer_tick: bool) -> Observed {
    let (mut stream, mut broker) = socket_pair();
    let mut io = IoLoop::new(ConnectionTuning::default()).unwrap();

    // What IoLoop::start() and thread_main() do before the handshake.
    io.poll
        .register(&stream, STREAM, Ready::writable(), PollOpt::edge())
        .unwrap();
    let (ch0_slot, _ch0_handle) = Channel0Slot::new(io.inner.mio_channel_bound);
    io.poll
        .register(
            &ch0_slot.common.rx,
            Token(0),
            Ready::readable(),
            PollOpt::edge(),
        )
        .unwrap();
    io.poll
        .register(
            &ch0_slot.set_blocked_rx,
            SET_BLOCKED_TX,
            Ready::readable(),
            PollOpt::edge(),
        )
        .unwrap();
    io.poll
        .register(
            &ch0_slot.alloc_chan_req_rx,
            ALLOC_CHANNEL,
            Ready::readable(),
            PollOpt::edge(),
        )
        .unwrap();
    // Safety net only: a broken handshake fails the test instead of hanging it.
    io.connection_timeout = Some(Duration::from_secs(10));

    // Handshake up to and including our TuneOk + Open going out. The heartbeat timers are
    // started (by the real Tune handling) in here.
    broker.send(AmqpConnection::Start(Start {
        version_major: 0,
        version_minor: 9,
        server_properties: FieldTable::new(),
        mechanisms: "PLAIN".to_string(),
        locales: "en_US".to_string(),
    }));
    broker.send(AmqpConnection::Tune(Tune {
        channel_max: 0,
        frame_max: 1 << 17,
        heartbeat: HEARTBEAT_SECS,
    }));
    let options = ConnectionOptions::<Auth>::default().heartbeat(HEARTBEAT_SECS);
    let mut state = HandshakeState::Start(options);
    io.run_io_loop(
        &mut stream,
        &mut state,
        IoLoop::handle_handshake_event,
        false,
        |io, state| matches!(state, HandshakeState::Open(_, _)) && !io.inner.has_data_to_write(),
    )
    .unwrap();

    // The broker answers Open. In the interesting schedule it takes a bit more than one
    // heartbeat interval to do so, and the I/O thread gets to poll only once both the answer
    // and the timer tick are there.
    if open_ok_meets_timer_tick {
        thread::sleep(h() + millis(250));
    }
    broker.send(AmqpConnection::OpenOk(OpenOk {
        known_hosts: "".to_string(),
    }));
    let silent_since = Instant::now();
    thread::sleep(millis(30));

    // Rest of the handshake, exactly as run_amqp_handshake() runs it.
    io.run_io_loop(
        &mut stream,
        &mut state,
        IoLoop::handle_handshake_event,
        true,
        IoLoop::is_handshake_done,
    )
    .unwrap();
    assert!(matches!(state, HandshakeState::Done(_, _)));
    io.connection_timeout = None;

    // Steady state on the I/O thread; the broker never sends another byte.
    let (end_tx, end_rx) = mpsc::channel();
    let io_thread = thread::spawn(move || {
        let result = io.run_connection(&mut stream, ch0_slot);
        let _ = end_tx.send((Instant::now(), result));
    });

    let deadline = silent_since + 2 * h() + millis(1500);
    let mut end = None;
    while end.is_none() && Instant::now() < deadline {
        broker.pump(Instant::now() + millis(50));
        end = end_rx.try_recv().ok();
    }
    let heartbeats = broker.heartbeats_since(silent_since);

    // Unblock a client that is still running, and clean up.
    let _ = broker.sock.shutdown(Shutdown::Both);
    io_thread.join().unwrap();

    Observed {
        heartbeats,
        end: end.map(|(at, result)| (at - silent_since, result)),
    }
}

fn assert_c17(observed: Observed) {
    let mut violations = Vec::new();

    // idle client: a heartbeat at least once per h (with some slack for timer granularity)
    let slack = millis(500);
    let mut previous = Duration::from_secs(0);
    if observed.heartbeats.is_empty() {
        violations.push("idle client sent no heartbeat at all".to_string());
    }
    for at in &observed.heartbeats {
        if *at > previous + h() + slack {
            violations.push(format!("gap between heartbeats too long at {:?}", at));
        }
        previous = *at;
    }

    // silent server: MissedServerHeartbeats after 2h, not before, and promptly
    match &observed.end {
        Some((at, Err(Error::MissedServerHeartbeats))) => {
            if *at + millis(200) < 2 * h() {
                violations.push(format!("declared dead early, after {:?}", at));
            }
            if *at > 2 * h() + millis(750) {
                violations.push(format!("declared dead late, after {:?}", at));
            }
            if previous + h() + slack < *at {
                violations.push(format!("heartbeats stopped before the end at {:?}", at));
            }
        }
        Some((at, other)) => {
            violations.push(format!("connection ended after {:?} with {:?}", at, other))
        }
        None => violations.push("silent server was not declared dead".to_string()),
    }

    assert!(
        violations.is_empty(),
        "C17 violated: {:?} (heartbeats seen at {:?})",
        violations,
        observed.heartbeats
    );
}

/// Control: OpenOk is answered at once; no timer tick is pending when the handshake ends.
#[test]
fn control_heartbeats_after_prompt_open_ok() {
    assert_c17(run_scenario(false));
}

/// OpenOk and a heartbeat timer tick are delivered by the same poll wake-up.
#[test]
fn heartbeats_after_open_ok_that_meets_a_timer_tick() {
    assert_c17(run_scenario(true));
}
