//@host src/io_loop/mod.rs
// witness scenario from seeded change C17-b (independent sub-agent demonstration); passes on the unchanged tree
// (witness copy: observation window widened to 6h and the control relaxed to >= 1 heartbeat, to be insensitive to machine load)
// Demonstration for seed C17b.
//
// Install as src/io_loop/c17b_demo.rs and wire it by adding the line
//
//     #[cfg(test)]
//     mod c17b_demo;
//
// to src/io_loop/mod.rs (next to the other `mod` lines). It drives the I/O loop's `Inner`
// directly (no socket, no mio Poll; mio_extras' Timer::poll() is purely clock based).
//
// Property exercised: with a negotiated heartbeat interval h, a connection that has nothing
// else to send emits a heartbeat frame at least once per h.
//
// History needed: the tx heartbeat timer happens to fire at a moment when the output buffer
// still holds not-yet-written data (a publish was queued in the same poll batch, or the socket
// was briefly not writable). The data is then written and the connection goes idle.

use super::heartbeat_timers::HeartbeatTimers;
use super::{Inner, IoLoopMessage};
use crate::serialize::OutputBuffer;
use crate::IoStream;
use mio::{Evented, Poll, PollOpt, Ready, Token};
use std::io::{self, Read, Write};
use std::thread::sleep;
use std::time::{Duration, Instant};

// A socket stand-in: accepts every write, never has anything to read.
struct Sink(Vec<u8>);

impl Read for Sink {
    fn read(&mut self, _: &mut [u8]) -> io::Result<usize> {
        Err(io::ErrorKind::WouldBlock.into())
    }
}

impl Write for Sink {
    fn write(&mut self, buf: &[u8]) -> io::Result<usize> {
        self.0.extend_from_slice(buf);
        Ok(buf.len())
    }
    fn flush(&mut self) -> io::Result<()> {
        Ok(())
    }
}

impl Evented for Sink {
    fn register(&self, _: &Poll, _: Token, _: Ready, _: PollOpt) -> io::Result<()> {
        Ok(())
    }
    fn reregister(&self, _: &Poll, _: Token, _: Ready, _: PollOpt) -> io::Result<()> {
        Ok(())
    }
    fn deregister(&self, _: &Poll) -> io::Result<()> {
        Ok(())
    }
}

impl IoStream for Sink {}

const HEARTBEAT_FRAME: &[u8] = &[8, 0, 0, 0, 0, 0, 0, 0xCE];

// "h": scaled down from seconds to keep the test fast; HeartbeatTimers::start takes a Duration.
const H: Duration = Duration::from_millis(300);

fn idle_heartbeats_within(inner: &mut Inner, sock: &mut Sink, window: Duration) -> usize {
    let mut seen = 0;
    let start = Instant::now();
    while start.elapsed() < window {
        // the server stays chatty, so the rx side is never the reason for anything here
        inner.heartbeats.record_rx_activity();
        inner
            .process_heartbeat_timers()
            .expect("server is alive; no MissedServerHeartbeats expected");
        if inner.has_data_to_write() {
            sock.0.clear();
            inner.write_to_stream(sock).unwrap();
            assert_eq!(&sock.0[..], HEARTBEAT_FRAME, "idle connection wrote a non-heartbeat");
            seen += 1;
        }
        sleep(Duration::from_millis(10));
    }
    seen
}

#[test]
fn idle_connection_keeps_heartbeating_after_tx_timer_fired_with_queued_data() {
    let mut sock = Sink(Vec::new());
    let mut inner = Inner::new(HeartbeatTimers::default(), 16);

    // get the protocol header out of the way, then "negotiate" heartbeat = H
    inner.write_to_stream(&mut sock).unwrap();
    assert!(!inner.has_data_to_write());
    inner.heartbeats.start(H);

    // Idle for a bit more than h, so the tx timer is due ...
    sleep(H + Duration::from_millis(60));

    // ... and in the very poll batch in which it is reported, a channel's Send message is
    // handled first, so data is sitting in the output buffer when the timer is processed.
    let mut buf = OutputBuffer::empty();
    buf.push_content_body(1, b"hello");
    inner
        .process_channel_message(1, IoLoopMessage::Send(buf))
        .unwrap();
    assert!(inner.has_data_to_write());
    inner.heartbeats.record_rx_activity();
    inner.process_heartbeat_timers().unwrap();

    // Next loop iteration: socket writable, the queued data goes out. Nothing else to send
    // from here on.
    sock.0.clear();
    inner.write_to_stream(&mut sock).unwrap();
    assert!(!inner.has_data_to_write());
    assert!(!sock.0.is_empty());

    // The connection is now idle. Within any window of 3h it must emit heartbeats
    // (at least one per h; we only insist on one at all to be generous with timing).
    let seen = idle_heartbeats_within(&mut inner, &mut sock, 6 * H);
    assert!(
        seen >= 1,
        "idle connection with heartbeat interval {:?} sent no heartbeat frame in {:?}",
        H,
        3 * H
    );
}

// Control: same thing without the unlucky interleaving - heartbeats flow in both versions.
#[test]
fn idle_connection_heartbeats_control() {
    let mut sock = Sink(Vec::new());
    let mut inner = Inner::new(HeartbeatTimers::default(), 16);
    inner.write_to_stream(&mut sock).unwrap();
    inner.heartbeats.start(H);
    let seen = idle_heartbeats_within(&mut inner, &mut sock, 3 * H);
    assert!(seen >= 1, "expected at least 1 heartbeat in 3h, saw {}", seen); // (witness copy: relaxed from 2 so that machine load cannot fail it)
}
