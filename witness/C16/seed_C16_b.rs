//@host src/io_loop/mod.rs
// witness scenario from seeded change C16-b (independent sub-agent demonstration); passes on the unchanged tree
// Demonstration for seeded change C16b.
//
// Drives the handshake state machine (HandshakeState::process + Inner) directly, the way
// IoLoop::handle_handshake_event does for every frame read from the socket, against a
// server whose Tune proposes heartbeat = 0 ("I do not want heartbeats" - legal AMQP 0-9-1,
// and what a RabbitMQ configured with `heartbeat = 0` sends), while the client keeps its
// default ConnectionOptions (heartbeat = 60).
//
// Wire with `#[cfg(test)] mod handshake_demo;` in src/io_loop/mod.rs.

use super::handshake_state::HandshakeState;
use super::heartbeat_timers::HeartbeatTimers;
use super::Inner;
use crate::{Auth, ConnectionOptions, FieldTable};
use amq_protocol::frame::{parse_frame, AMQPFrame};
use amq_protocol::protocol::connection::AMQPMethod as AmqpConnection;
use amq_protocol::protocol::connection::{OpenOk, Start, Tune};
use amq_protocol::protocol::AMQPClass;
use amq_protocol::types::AMQPValue;

const PROTOCOL_HEADER: &[u8] = b"AMQP\x00\x00\x09\x01";

fn conn_frame(method: AmqpConnection) -> AMQPFrame {
    AMQPFrame::Method(0, AMQPClass::Connection(method))
}

fn server_start() -> AMQPFrame {
    let mut server_properties = FieldTable::new();
    server_properties.insert(
        "product".to_string(),
        AMQPValue::LongString("demo-broker".to_string()),
    );
    conn_frame(AmqpConnection::Start(Start {
        version_major: 0,
        version_minor: 9,
        server_properties,
        mechanisms: "AMQPLAIN PLAIN".to_string(),
        locales: "en_US".to_string(),
    }))
}

fn server_tune(heartbeat: u16) -> AMQPFrame {
    conn_frame(AmqpConnection::Tune(Tune {
        channel_max: 2047,
        frame_max: 131_072,
        heartbeat,
    }))
}

fn server_open_ok() -> AMQPFrame {
    conn_frame(AmqpConnection::OpenOk(OpenOk {
        known_hosts: "".to_string(),
    }))
}

// Everything the client has queued for the socket so far, decoded.
fn sent_methods(inner: &Inner) -> Vec<AmqpConnection> {
    let bytes = &inner.outbuf[0..];
    assert!(bytes.starts_with(PROTOCOL_HEADER));
    let mut rest = &bytes[PROTOCOL_HEADER.len()..];
    let mut out = Vec::new();
    while !rest.is_empty() {
        let (r, frame) = parse_frame(rest).expect("client wrote an unparsable frame");
        rest = r;
        match frame {
            AMQPFrame::Method(0, AMQPClass::Connection(m)) => out.push(m),
            other => panic!("unexpected frame written by client: {:?}", other),
        }
    }
    out
}

fn run_handshake(options: ConnectionOptions<Auth>, server_heartbeat: u16) -> u16 {
    let mut inner = Inner::new(HeartbeatTimers::default(), 16);
    let mut state = HandshakeState::Start(options);

    state.process(&mut inner, server_start()).unwrap();
    assert_eq!(sent_methods(&inner).len(), 1, "StartOk in reaction to Start");

    // Must neither fail nor panic: a Tune with heartbeat 0 is a legal server behaviour.
    state
        .process(&mut inner, server_tune(server_heartbeat))
        .unwrap();
    let sent = sent_methods(&inner);
    assert_eq!(sent.len(), 3, "TuneOk and Open in reaction to Tune");
    let negotiated = match &sent[1] {
        AmqpConnection::TuneOk(tune_ok) => tune_ok.heartbeat,
        other => panic!("expected TuneOk, got {:?}", other),
    };
    match &sent[2] {
        AmqpConnection::Open(open) => assert_eq!(open.virtual_host, "/"),
        other => panic!("expected Open, got {:?}", other),
    }

    state.process(&mut inner, server_open_ok()).unwrap();
    match state {
        HandshakeState::Done(_, server_properties) => {
            assert!(server_properties.contains_key("product"));
        }
        other => panic!("handshake not done: {:?}", other),
    }
    negotiated
}

#[test]
fn ordinary_server_heartbeat_completes() {
    // RabbitMQ's default: server proposes 60, client default is 60.
    assert_eq!(run_handshake(ConnectionOptions::default(), 60), 60);
}

#[test]
fn client_disables_heartbeats_completes() {
    assert_eq!(run_handshake(ConnectionOptions::default().heartbeat(0), 60), 0);
}

#[test]
fn server_proposing_heartbeat_zero_completes_without_panic() {
    // Server disables heartbeats, client keeps its default of 60: negotiated value is 0,
    // no heartbeat timers may be started, and the handshake must still reach Done.
    assert_eq!(run_handshake(ConnectionOptions::default(), 0), 0);
}
