//@host src/io_loop/mod.rs
//@quick (generic sweep without wall-clock dependence: also runs in the quick tier, labelled bounded)
// C16 bounded stand-in: every server behaviour of the form (reaction to the protocol header, reaction to StartOk, reaction to TuneOk+Open),
// each reaction drawn from the handshake alphabet {Start (ok / without our mechanism / without our locale), Secure, Tune (frame_max 0, 4096,
// 131072, 1000), OpenOk, Close(530), a heartbeat followed by the expected frame, drop the connection}, played by a scripted in-memory broker
// against the public API (Connection::insecure_open_stream, real I/O thread), for two client option sets.  Oracle = the property: a
// connection only after Start, Tune, OpenOk in this order; otherwise the error the property names for the first deviation:
//   UnsupportedAuthMechanism / UnsupportedLocale, SaslSecureNotSupported, InvalidCredentials (dropped right after StartOk),
//   FrameMaxTooSmall, ServerClosedConnection(530, text) (after CloseOk was written), FrameUnexpected (out of order), UnexpectedSocketClose.
// What the client wrote is checked too: header, then StartOk, then TuneOk + Open, each strictly in reaction to the server's frame.
// Bound: the 11 x 11 x 11 reaction triples x 2 option sets (the count is printed); no timing involved.
use crate::serialize::OutputBuffer;
use crate::{Auth, Connection, ConnectionOptions, ConnectionTuning, Error, FieldTable, IoStream};
use amq_protocol::frame::{parse_frame, AMQPFrame};
use amq_protocol::protocol::connection::AMQPMethod as AmqpConnection;
use amq_protocol::protocol::connection::{Close, OpenOk, Secure, Start, Tune};
use amq_protocol::protocol::AMQPClass;
use amq_protocol::types::AMQPValue;
use mio::{Evented, Poll, PollOpt, Ready, Registration, SetReadiness, Token};
use std::collections::VecDeque;
use std::io::{self, Read, Write};
use std::sync::{Arc, Mutex};

fn method_bytes<M: crate::serialize::IntoAmqpClass>(channel: u16, m: M) -> Vec<u8> {
    let mut buf = OutputBuffer::empty();
    buf.push_method(channel, m);
    buf[0..].to_vec()
}

#[derive(Debug, Clone, Copy, PartialEq)]
enum React {
    StartOk_,      // Start offering PLAIN and en_US
    StartNoMech,   // Start without our mechanism
    StartNoLocale, // Start without our locale
    Secure,
    Tune(u32),
    OpenOk,
    Close,
    HeartbeatThenExpected, // a heartbeat frame, then the frame the protocol expects at this point
    Drop,
}

const REACTIONS: [React; 11] = [
    React::StartOk_,
    React::StartNoMech,
    React::StartNoLocale,
    React::Secure,
    React::Tune(0),
    React::Tune(4096),
    React::Tune(131_072),
    React::Tune(1000),
    React::OpenOk,
    React::Close,
    React::Drop,
];

fn server_props() -> FieldTable {
    let mut t = FieldTable::new();
    t.insert("product".to_string(), AMQPValue::LongString("scripted".to_string()));
    t
}

fn frame_for(r: React, stage: usize) -> Option<Vec<u8>> {
    let start = |mechanisms: &str, locales: &str| {
        method_bytes(
            0,
            AmqpConnection::Start(Start { version_major: 0, version_minor: 9, server_properties: server_props(), mechanisms: mechanisms.to_string(), locales: locales.to_string() }),
        )
    };
    match r {
        React::StartOk_ => Some(start("AMQPLAIN PLAIN", "en_US")),
        React::StartNoMech => Some(start("AMQPLAIN EXTERNAL", "en_US")),
        React::StartNoLocale => Some(start("PLAIN", "fr_FR")),
        React::Secure => Some(method_bytes(0, AmqpConnection::Secure(Secure { challenge: "c".to_string() }))),
        React::Tune(fm) => Some(method_bytes(0, AmqpConnection::Tune(Tune { channel_max: 16, frame_max: fm, heartbeat: 0 }))),
        React::OpenOk => Some(method_bytes(0, AmqpConnection::OpenOk(OpenOk { known_hosts: String::new() }))),
        React::Close => Some(method_bytes(0, AmqpConnection::Close(Close { reply_code: 530, reply_text: "NOT_ALLOWED - vhost".to_string(), class_id: 10, method_id: 40 }))),
        React::HeartbeatThenExpected => {
            let mut b = vec![8u8, 0, 0, 0, 0, 0, 0, 0xCE];
            let expected = [React::StartOk_, React::Tune(131_072), React::OpenOk][stage];
            b.extend(frame_for(expected, stage).unwrap());
            Some(b)
        }
        React::Drop => None,
    }
}

#[derive(Default)]
struct Seen {
    writes: Vec<Vec<u8>>,
}

struct ScriptedBroker {
    registration: Registration,
    readiness: SetReadiness,
    script: [React; 3],
    stage: usize,
    inbox: VecDeque<u8>,
    eof: bool,
    /// an eager server has sent its first frame before reading the protocol header: the header write triggers no reaction
    skip_reaction: bool,
    seen: Arc<Mutex<Seen>>,
}

impl ScriptedBroker {
    fn new(script: [React; 3], seen: Arc<Mutex<Seen>>, eager: bool) -> ScriptedBroker {
        let (registration, readiness) = Registration::new2();
        let mut b = ScriptedBroker { registration, readiness, script, stage: 0, inbox: VecDeque::new(), eof: false, skip_reaction: false, seen };
        if eager {
            // the server's first reaction is on the wire before the client has written anything
            match frame_for(script[0], 0) {
                Some(bytes) => b.inbox.extend(bytes),
                None => b.eof = true,
            }
            b.stage = 1;
            b.skip_reaction = true;
        }
        let r = b.now();
        b.readiness.set_readiness(r).unwrap();
        b
    }
    fn now(&self) -> Ready {
        if self.inbox.is_empty() && !self.eof { Ready::writable() } else { Ready::readable() | Ready::writable() }
    }
}

impl Read for ScriptedBroker {
    fn read(&mut self, buf: &mut [u8]) -> io::Result<usize> {
        if self.inbox.is_empty() {
            return if self.eof { Ok(0) } else { Err(io::ErrorKind::WouldBlock.into()) };
        }
        let n = buf.len().min(self.inbox.len());
        for b in buf[..n].iter_mut() {
            *b = self.inbox.pop_front().unwrap();
        }
        Ok(n)
    }
}

impl Write for ScriptedBroker {
    fn write(&mut self, buf: &[u8]) -> io::Result<usize> {
        self.seen.lock().unwrap().writes.push(buf.to_vec());
        // the broker reacts once per client step: to the header, to StartOk, to TuneOk+Open; anything the client writes later (CloseOk) gets no answer
        if self.skip_reaction {
            self.skip_reaction = false;
        } else if self.stage < 3 && !self.eof {
            match frame_for(self.script[self.stage], self.stage) {
                Some(bytes) => self.inbox.extend(bytes),
                None => self.eof = true,
            }
            self.stage += 1;
        } else if self.stage >= 3 {
            // after its third reaction the broker hangs up as soon as the client says anything more
            self.eof = true;
        }
        self.readiness.set_readiness(self.now()).unwrap();
        Ok(buf.len())
    }
    fn flush(&mut self) -> io::Result<()> {
        Ok(())
    }
}

impl Evented for ScriptedBroker {
    fn register(&self, poll: &Poll, token: Token, interest: Ready, opts: PollOpt) -> io::Result<()> {
        self.registration.register(poll, token, interest, opts)
    }
    fn reregister(&self, poll: &Poll, token: Token, interest: Ready, opts: PollOpt) -> io::Result<()> {
        let r = self.registration.reregister(poll, token, interest, opts);
        self.readiness.set_readiness(self.now()).unwrap();
        r
    }
    fn deregister(&self, poll: &Poll) -> io::Result<()> {
        Evented::deregister(&self.registration, poll)
    }
}

impl IoStream for ScriptedBroker {}

#[derive(Debug, PartialEq)]
enum Want {
    Connected,
    UnsupportedAuthMechanism,
    UnsupportedLocale,
    SaslSecureNotSupported,
    InvalidCredentials,
    FrameMaxTooSmall,
    ServerClosed,
    FrameUnexpected,
    SocketClosed,
}

// the property's verdict for a script and a client frame_max option
fn oracle(script: [React; 3], client_frame_max: u32) -> Want {
    // stage 0: the server must send Start
    match script[0] {
        React::StartOk_ | React::HeartbeatThenExpected => {}
        React::StartNoMech => return Want::UnsupportedAuthMechanism,
        React::StartNoLocale => return Want::UnsupportedLocale,
        React::Drop => return Want::SocketClosed,
        _ => return Want::FrameUnexpected,
    }
    // stage 1: after StartOk - Secure challenge, dropped connection (bad credentials), Tune, anything else out of order
    let tune_fm = match script[1] {
        React::Tune(fm) => fm,
        React::HeartbeatThenExpected => 131_072,
        React::Secure => return Want::SaslSecureNotSupported,
        React::Drop => return Want::InvalidCredentials,
        _ => return Want::FrameUnexpected,
    };
    let negotiated = match (tune_fm, client_frame_max) {
        (0, 0) => u32::max_value(),
        (0, c) => c,
        (s, 0) => s,
        (s, c) => s.min(c),
    };
    if negotiated < 4096 {
        return Want::FrameMaxTooSmall;
    }
    // stage 2: after TuneOk + Open
    match script[2] {
        React::OpenOk | React::HeartbeatThenExpected => Want::Connected,
        React::Close => Want::ServerClosed,
        React::Drop => Want::SocketClosed,
        _ => Want::FrameUnexpected,
    }
}

fn classify(r: &crate::Result<Connection>) -> Want {
    match r {
        Ok(_) => Want::Connected,
        Err(Error::UnsupportedAuthMechanism { .. }) => Want::UnsupportedAuthMechanism,
        Err(Error::UnsupportedLocale { .. }) => Want::UnsupportedLocale,
        Err(Error::SaslSecureNotSupported) => Want::SaslSecureNotSupported,
        Err(Error::InvalidCredentials) => Want::InvalidCredentials,
        Err(Error::FrameMaxTooSmall { .. }) => Want::FrameMaxTooSmall,
        Err(Error::ServerClosedConnection { code, message }) => {
            assert_eq!(*code, 530);
            assert_eq!(message, "NOT_ALLOWED - vhost");
            Want::ServerClosed
        }
        Err(Error::FrameUnexpected) => Want::FrameUnexpected,
        Err(Error::UnexpectedSocketClose) => Want::SocketClosed,
        Err(e) => panic!("unexpected error kind {:?}", e),
    }
}

fn client_methods(seen: &Seen) -> Vec<AmqpConnection> {
    let mut out = Vec::new();
    let mut all: Vec<u8> = Vec::new();
    for w in &seen.writes {
        all.extend_from_slice(w);
    }
    assert!(all.len() >= 8 && &all[..8] == b"AMQP\x00\x00\x09\x01", "the client did not start with the protocol header");
    let mut rest = &all[8..];
    while !rest.is_empty() {
        let (more, frame) = parse_frame(rest).expect("client wrote something that is not a whole frame");
        rest = more;
        match frame {
            AMQPFrame::Method(0, AMQPClass::Connection(m)) => out.push(m),
            other => panic!("client wrote an unexpected frame during the handshake: {:?}", other),
        }
    }
    out
}

fn run_script(script: [React; 3], client_frame_max: u32, eager: bool) {
    let what = format!("script {:?} client frame_max {} eager server {}", script, client_frame_max, eager);
    let seen = Arc::new(Mutex::new(Seen::default()));
    let options = ConnectionOptions::<Auth>::default().heartbeat(0).frame_max(client_frame_max).virtual_host("vh");
    let result = Connection::insecure_open_stream(ScriptedBroker::new(script, seen.clone(), eager), options, ConnectionTuning::default());
    let want = oracle(script, client_frame_max);
    let got = classify(&result);
    assert_eq!(got, want, "{}", what);
    if let Ok(connection) = &result {
        assert_eq!(connection.server_properties(), &server_props(), "{}: server properties", what);
    }
    // what the client sent, strictly in reaction to the server
    let sent = client_methods(&seen.lock().unwrap());
    let kinds: Vec<&str> = sent
        .iter()
        .map(|m| match m {
            AmqpConnection::StartOk(_) => "StartOk",
            AmqpConnection::TuneOk(_) => "TuneOk",
            AmqpConnection::Open(_) => "Open",
            AmqpConnection::CloseOk(_) => "CloseOk",
            AmqpConnection::Close(_) => "Close",
            _ => "other",
        })
        .collect();
    let reached_start_ok = matches!(script[0], React::StartOk_ | React::HeartbeatThenExpected);
    let reached_tune_ok = reached_start_ok && matches!(script[1], React::Tune(_) | React::HeartbeatThenExpected) && want != Want::FrameMaxTooSmall;
    let mut expected: Vec<&str> = Vec::new();
    if reached_start_ok {
        expected.push("StartOk");
    }
    if reached_tune_ok {
        expected.push("TuneOk");
        expected.push("Open");
    }
    if want == Want::ServerClosed {
        expected.push("CloseOk");
    }
    assert_eq!(kinds, expected, "{}: frames the client wrote", what);
    for m in &sent {
        match m {
            AmqpConnection::StartOk(s) => {
                assert_eq!(s.mechanism, "PLAIN", "{}", what);
                assert_eq!(s.response, "\u{0}guest\u{0}guest", "{}", what);
                assert_eq!(s.locale, "en_US", "{}", what);
            }
            AmqpConnection::Open(o) => assert_eq!(o.virtual_host, "vh", "{}", what),
            _ => {}
        }
    }
    if let Ok(connection) = result {
        std::mem::forget(connection);
    }
}

#[test]
fn verif_sweep_c16_every_reaction_triple_against_oracle() {
    let mut count = 0u64;
    let mut reactions: Vec<React> = REACTIONS.to_vec();
    reactions.push(React::HeartbeatThenExpected);
    for client_frame_max in [0u32, 8192] {
        for a in &reactions {
            for b in &reactions {
                for c in &reactions {
                    // an eager server (first frame sent before the protocol header was read) for every eighth script
                    let eager = count % 8 == 3;
                    let script = [*a, *b, *c];
                    // a handshake that never returns is a failure, not a hang of the test
                    let (tx, rx) = std::sync::mpsc::channel();
                    std::thread::spawn(move || {
                        run_script(script, client_frame_max, eager);
                        let _ = tx.send(());
                    });
                    if rx.recv_timeout(std::time::Duration::from_secs(20)).is_err() {
                        panic!("script {:?} client frame_max {} eager server {}: the attempt did not return (or a check failed, see above)", script, client_frame_max, eager);
                    }
                    count += 1;
                }
            }
        }
    }
    println!("C16 sweep: {} scripted handshakes", count);
    assert!(count >= 2 * 12 * 12 * 12);
}
