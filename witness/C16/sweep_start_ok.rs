//@host src/connection_options.rs
// C16 bounded stand-in for the ASSUMED contract of ConnectionOptions::make_start_ok (str::split / closures over BTreeMap are outside Verus):
// every mechanisms string and every locales string of length <= 7 over the alphabet {' ', 'A', 'B'} (3280 strings each way) against a
// custom Sasl implementation whose mechanism is "AB" and a client locale "BA", checked against the contract the handshake unit assumes:
//   - the mechanism must be one of the server's space-separated tokens, else UnsupportedAuthMechanism { available, requested };
//   - then the locale must be one of the server's tokens, else UnsupportedLocale { available, requested };
//   - otherwise StartOk carries the mechanism, the Sasl response, the client locale, the client properties (product, version, platform,
//     information iff configured, capabilities consumer_cancel_notify + connection.blocked) and the server properties are handed back as they came.
// Bound: strings of length <= 7 over a 3-letter alphabet; the real PLAIN / EXTERNAL mechanisms on a few hand-picked server strings.
use super::ConnectionOptions;
use crate::errors::*;
use crate::{Auth, Sasl};
use amq_protocol::protocol::connection::Start;
use amq_protocol::types::{AMQPValue, FieldTable};

#[derive(Clone, Debug, Default, PartialEq)]
struct Ab;
impl Sasl for Ab {
    fn mechanism(&self) -> String {
        "AB".to_string()
    }
    fn response(&self) -> String {
        "\u{0}resp".to_string()
    }
}

// independent of str::split: walk the bytes
fn has_token(server: &str, wanted: &str) -> bool {
    let s = server.as_bytes();
    let w = wanted.as_bytes();
    let mut start = 0usize;
    let mut i = 0usize;
    loop {
        if i == s.len() || s[i] == b' ' {
            if &s[start..i] == w {
                return true;
            }
            if i == s.len() {
                return false;
            }
            start = i + 1;
        }
        i += 1;
    }
}

fn all_strings(max_len: usize) -> Vec<String> {
    let mut out = vec![String::new()];
    let mut frontier = vec![String::new()];
    for _ in 0..max_len {
        let mut next = Vec::new();
        for s in &frontier {
            for c in [' ', 'A', 'B'] {
                let mut t = s.clone();
                t.push(c);
                next.push(t);
            }
        }
        out.extend(next.iter().cloned());
        frontier = next;
    }
    out
}

// what the server says about itself must not change what the client announces: the tables below differ in exactly that
thread_local! { static SERVER_PROPS_VARIANT: std::cell::Cell<usize> = std::cell::Cell::new(0); }
const SERVER_PROPS_VARIANTS: usize = 8;
fn server_props() -> FieldTable {
    let v = SERVER_PROPS_VARIANT.with(|c| c.get());
    let mut t = FieldTable::new();
    if v == 1 {
        return t;
    }
    t.insert("product".to_string(), AMQPValue::LongString("broker".to_string()));
    t.insert("cluster_name".to_string(), AMQPValue::LongString("c1".to_string()));
    let caps = |a: Option<bool>, b: Option<bool>| {
        let mut c = FieldTable::new();
        if let Some(a) = a { c.insert("consumer_cancel_notify".to_string(), AMQPValue::Boolean(a)); }
        if let Some(b) = b { c.insert("connection.blocked".to_string(), AMQPValue::Boolean(b)); }
        c.insert("publisher_confirms".to_string(), AMQPValue::Boolean(true));
        AMQPValue::FieldTable(c)
    };
    match v {
        2 => { t.insert("capabilities".to_string(), caps(Some(true), Some(true))); }
        3 => { t.insert("capabilities".to_string(), caps(Some(false), Some(true))); }
        4 => { t.insert("capabilities".to_string(), caps(Some(true), Some(false))); }
        5 => { t.insert("capabilities".to_string(), caps(Some(false), Some(false))); }
        6 => { t.insert("capabilities".to_string(), caps(None, None)); t.insert("information".to_string(), AMQPValue::LongString("server side".to_string())); }
        7 => { t.insert("capabilities".to_string(), AMQPValue::LongString("not a table".to_string())); t.insert("platform".to_string(), AMQPValue::Boolean(false)); }
        _ => {}
    }
    t
}

fn start(mechanisms: &str, locales: &str) -> Start {
    Start { version_major: 0, version_minor: 9, server_properties: server_props(), mechanisms: mechanisms.to_string(), locales: locales.to_string() }
}

fn check_one<A: Sasl>(options: &ConnectionOptions<A>, mechanisms: &str, locales: &str, information: &Option<String>) {
    let what = format!("mechanisms={:?} locales={:?}", mechanisms, locales);
    let mech = options.auth.mechanism();
    match options.make_start_ok(start(mechanisms, locales)) {
        Err(Error::UnsupportedAuthMechanism { available, requested }) => {
            assert!(!has_token(mechanisms, &mech), "{}: mechanism refused although offered", what);
            assert_eq!(available, mechanisms, "{}", what);
            assert_eq!(requested, mech, "{}", what);
        }
        Err(Error::UnsupportedLocale { available, requested }) => {
            assert!(has_token(mechanisms, &mech), "{}: locale checked before the mechanism", what);
            assert!(!has_token(locales, &options.locale), "{}: locale refused although offered", what);
            assert_eq!(available, locales, "{}", what);
            assert_eq!(requested, options.locale, "{}", what);
        }
        Err(e) => panic!("{}: unexpected error {}", what, e),
        Ok((start_ok, props)) => {
            assert!(has_token(mechanisms, &mech), "{}: accepted although the mechanism is not offered", what);
            assert!(has_token(locales, &options.locale), "{}: accepted although the locale is not offered", what);
            assert_eq!(start_ok.mechanism, mech, "{}", what);
            assert_eq!(start_ok.response, options.auth.response(), "{}", what);
            assert_eq!(start_ok.locale, options.locale, "{}", what);
            assert_eq!(props, server_props(), "{}: server properties not handed back unchanged", what);
            let cp = &start_ok.client_properties;
            for k in ["product", "version", "platform"] {
                match cp.get(k) {
                    Some(AMQPValue::LongString(v)) => assert!(!v.is_empty(), "{}: empty {}", what, k),
                    other => panic!("{}: client property {} is {:?}", what, k, other),
                }
            }
            match (cp.get("information"), information) {
                (None, None) => {}
                (Some(AMQPValue::LongString(v)), Some(i)) => assert_eq!(v, i, "{}", what),
                (got, want) => panic!("{}: information is {:?}, configured {:?}", what, got, want),
            }
            match cp.get("capabilities") {
                Some(AMQPValue::FieldTable(caps)) => {
                    assert_eq!(caps.get("consumer_cancel_notify"), Some(&AMQPValue::Boolean(true)), "{}", what);
                    assert_eq!(caps.get("connection.blocked"), Some(&AMQPValue::Boolean(true)), "{}", what);
                    assert_eq!(caps.len(), 2, "{}", what);
                }
                other => panic!("{}: capabilities is {:?}", what, other),
            }
            assert_eq!(cp.len(), if information.is_some() { 5 } else { 4 }, "{}: unexpected client properties {:?}", what, cp);
        }
    }
}

#[test]
fn verif_sweep_c16_start_ok_all_short_server_strings() {
    let strings = all_strings(7);
    assert_eq!(strings.len(), 3280);
    for information in [None, Some("hello".to_string())] {
        let options = ConnectionOptions::<Ab>::default().locale("BA").information(information.clone());
        // every mechanisms string against an accepted locale list, every locales string against an accepted mechanism list
        for s in &strings {
            check_one(&options, s, "xx BA", &information);
            check_one(&options, "AB zz", s, &information);
        }
        // both refused / both accepted corners on a sample of pairs
        for (k, s) in strings.iter().enumerate().filter(|(k, _)| k % 37 == 0) {
            let t = &strings[(k * 7919) % strings.len()];
            check_one(&options, s, t, &information);
        }
    }
}

#[test]
fn verif_sweep_c16_start_ok_real_mechanisms() {
    for auth in [Auth::default(), Auth::External] {
        let options = ConnectionOptions::<Auth>::default().auth(auth);
        for mechanisms in ["PLAIN", "AMQPLAIN PLAIN", "PLAIN EXTERNAL", "EXTERNAL", "AMQPLAIN", "PLAINX", "XPLAIN", "PLAIN ", " PLAIN", "PLA IN", "", "EXTERNAL PLAIN AMQPLAIN"] {
            for locales in ["en_US", "en_US fr_FR", "fr_FR", "en_USA", "", "de_DE en_US"] {
                check_one(&options, mechanisms, locales, &None);
            }
        }
    }
}

#[test]
fn verif_sweep_c16_start_ok_does_not_depend_on_server_properties() {
    for v in 0..SERVER_PROPS_VARIANTS {
        SERVER_PROPS_VARIANT.with(|c| c.set(v));
        for information in [None, Some("hello".to_string())] {
            let options = ConnectionOptions::<Ab>::default().locale("BA").information(information.clone());
            for (mechanisms, locales) in [("AB", "BA"), ("X AB", "BA Y"), ("A B", "BA"), ("AB", "B A"), ("", "")] {
                check_one(&options, mechanisms, locales, &information);
            }
            let real = ConnectionOptions::<Auth>::default().information(information.clone());
            check_one(&real, "PLAIN AMQPLAIN", "en_US", &information);
        }
    }
    SERVER_PROPS_VARIANT.with(|c| c.set(0));
}
