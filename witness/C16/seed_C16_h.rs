//@host src/lib.rs
// witness scenario from seeded change C16-h (independent sub-agent demonstration); passes on the unchanged tree
//! Demonstration for property C16 ("only a complete handshake yields a connection; failures
//! name their cause").
//!
//! A scripted AMQP "broker" runs on a loopback socket; the real client code
//! (`Connection::insecure_open_stream` -> I/O thread -> `HandshakeState`) talks to it. Every
//! client call runs on a helper thread behind a watchdog, so a wrong behaviour shows up as a
//! failed assertion and not as a hang.
//!
//! The scenarios of interest are the ones in which the broker sends a heartbeat frame after it
//! has received StartOk and before it says anything else:
//!
//!  * heartbeat, then the socket is dropped  -> this is still "dropped after StartOk without a
//!    reply", i.e. `Error::InvalidCredentials`;
//!  * heartbeat, then a Secure challenge     -> `Error::SaslSecureNotSupported`.
//!
//! The control tests (no heartbeat; heartbeat in front of a Tune that does arrive) pass on any
//! version of the library.

use crate::serialize::OutputBuffer;
use crate::{Auth, Connection, ConnectionOptions, ConnectionTuning, Error, FieldTable, Result};
use amq_protocol::frame::{parse_frame, AMQPFrame};
use amq_protocol::protocol::connection::AMQPMethod as AmqpConnection;
use amq_protocol::protocol::connection::{OpenOk, Secure, Start, Tune};
use amq_protocol::protocol::AMQPClass;
use amq_protocol::types::AMQPValue;
use std::io::{Read, Write};
use std::net::{TcpListener, TcpStream};
use std::sync::mpsc;
use std::thread;
use std::time::Duration;

const WATCHDOG: Duration = Duration::from_secs(20);

#[derive(Clone, Debug)]
enum Step {
    SendStart,
    SendHeartbeat,
    SendSecure,
    SendTune,
    SendOpenOk,
    /// Read exactly one frame from the client and record it.
    ReadFrame,
}

fn server_properties() -> FieldTable {
    let mut table = FieldTable::new();
    table.insert(
        "product".to_string(),
        AMQPValue::LongString("scripted-broker".to_string()),
    );
    table
}

fn frame_bytes(step: &Step) -> Vec<u8> {
    let mut buf = OutputBuffer::empty();
    match step {
        Step::SendStart => buf.push_method(
            0,
            AmqpConnection::Start(Start {
                version_major: 0,
                version_minor: 9,
                server_properties: server_properties(),
                mechanisms: "PLAIN AMQPLAIN".to_string(),
                locales: "en_US".to_string(),
            }),
        ),
        Step::SendHeartbeat => buf.push_heartbeat(),
        Step::SendSecure => buf.push_method(
            0,
            AmqpConnection::Secure(Secure {
                challenge: "who goes there".to_string(),
            }),
        ),
        Step::SendTune => buf.push_method(
            0,
            AmqpConnection::Tune(Tune {
                channel_max: 2047,
                frame_max: 131_072,
                heartbeat: 0,
            }),
        ),
        Step::SendOpenOk => buf.push_method(
            0,
            AmqpConnection::OpenOk(OpenOk {
                known_hosts: String::new(),
            }),
        ),
        Step::ReadFrame => unreachable!(),
    }
    buf[0..].to_vec()
}

fn read_frame(sock: &mut TcpStream) -> std::io::Result<AMQPFrame> {
    let mut bytes = vec![0u8; 7];
    sock.read_exact(&mut bytes)?;
    let size = u32::from_be_bytes([bytes[3], bytes[4], bytes[5], bytes[6]]) as usize;
    bytes.resize(7 + size + 1, 0);
    sock.read_exact(&mut bytes[7..])?;
    let (rest, frame) = parse_frame(&bytes).expect("client sent a malformed frame");
    assert!(rest.is_empty());
    Ok(frame)
}

/// What the scripted broker saw: the protocol header and the frames it was told to read.
#[derive(Debug)]
struct Seen {
    header: Vec<u8>,
    frames: Vec<AMQPFrame>,
}

/// Runs the script against one real client. After the last step the broker closes its socket
/// (unless `linger` is set, in which case it keeps the socket open until the client is done).
fn run(
    script: Vec<Step>,
    options: ConnectionOptions<Auth>,
    linger: bool,
) -> (Result<FieldTable>, Seen) {
    let listener = TcpListener::bind("127.0.0.1:0").unwrap();
    let addr = listener.local_addr().unwrap();
    let (client_done_tx, client_done_rx) = mpsc::channel::<()>();

    let (seen_tx, seen_rx) = mpsc::channel();
    thread::spawn(move || {
        let (mut sock, _) = listener.accept().unwrap();
        sock.set_read_timeout(Some(WATCHDOG)).unwrap();
        sock.set_write_timeout(Some(WATCHDOG)).unwrap();
        let mut seen = Seen {
            header: vec![0u8; 8],
            frames: Vec::new(),
        };
        if sock.read_exact(&mut seen.header).is_ok() {
            for step in &script {
                let ok = match step {
                    Step::ReadFrame => match read_frame(&mut sock) {
                        Ok(frame) => {
                            seen.frames.push(frame);
                            true
                        }
                        Err(_) => false,
                    },
                    send => sock.write_all(&frame_bytes(send)).is_ok(),
                };
                if !ok {
                    break;
                }
            }
        }
        if linger {
            let _ = client_done_rx.recv_timeout(WATCHDOG);
        }
        drop(sock);
        let _ = seen_tx.send(seen);
    });

    let (result_tx, result_rx) = mpsc::channel();
    thread::spawn(move || {
        let stream = mio::net::TcpStream::connect(&addr).unwrap();
        let result =
            Connection::insecure_open_stream(stream, options, ConnectionTuning::default()).map(
                |conn| {
                    let properties = conn.server_properties().clone();
                    // Closing (or dropping) talks to the broker; the script has nothing to say
                    // to that, so leave the connection alone.
                    std::mem::forget(conn);
                    properties
                },
            );
        let _ = result_tx.send(result);
    });

    let result = result_rx
        .recv_timeout(WATCHDOG)
        .expect("watchdog: the connection attempt neither succeeded nor failed");
    let _ = client_done_tx.send(());
    let seen = seen_rx
        .recv_timeout(WATCHDOG)
        .expect("watchdog: scripted broker did not finish");
    (result, seen)
}

fn options() -> ConnectionOptions<Auth> {
    // The timeout is only a second safety net (it turns a silent hang into ConnectionTimeout);
    // no scenario below relies on it.
    ConnectionOptions::default().connection_timeout(Some(Duration::from_secs(10)))
}

fn is_start_ok(frame: &AMQPFrame) -> bool {
    match frame {
        AMQPFrame::Method(0, AMQPClass::Connection(AmqpConnection::StartOk(_))) => true,
        _ => false,
    }
}

// ---------------------------------------------------------------------------------------------
// controls: pass with or without the change
// ---------------------------------------------------------------------------------------------

#[test]
fn control_drop_after_start_ok_is_invalid_credentials() {
    let (result, seen) = run(vec![Step::SendStart, Step::ReadFrame], options(), false);
    assert_eq!(seen.header, b"AMQP\x00\x00\x09\x01");
    assert!(is_start_ok(&seen.frames[0]));
    match result {
        Err(Error::InvalidCredentials) => (),
        other => panic!("expected InvalidCredentials, got {:?}", other),
    }
}

#[test]
fn control_secure_challenge_is_not_supported() {
    let (result, _) = run(
        vec![Step::SendStart, Step::ReadFrame, Step::SendSecure],
        options(),
        true,
    );
    match result {
        Err(Error::SaslSecureNotSupported) => (),
        other => panic!("expected SaslSecureNotSupported, got {:?}", other),
    }
}

#[test]
fn control_heartbeat_before_tune_still_completes() {
    let (result, seen) = run(
        vec![
            Step::SendStart,
            Step::ReadFrame, // StartOk
            Step::SendHeartbeat,
            Step::SendTune,
            Step::ReadFrame, // TuneOk
            Step::ReadFrame, // Open
            Step::SendOpenOk,
        ],
        options(),
        true,
    );
    assert_eq!(seen.frames.len(), 3);
    assert!(is_start_ok(&seen.frames[0]));
    match &seen.frames[1] {
        AMQPFrame::Method(0, AMQPClass::Connection(AmqpConnection::TuneOk(_))) => (),
        other => panic!("expected TuneOk, got {:?}", other),
    }
    match &seen.frames[2] {
        AMQPFrame::Method(0, AMQPClass::Connection(AmqpConnection::Open(open))) => {
            assert_eq!(open.virtual_host, "/")
        }
        other => panic!("expected Open, got {:?}", other),
    }
    assert_eq!(result.expect("handshake should succeed"), server_properties());
}

// ---------------------------------------------------------------------------------------------
// the demonstration: pass on the unmodified library, fail with the change
// ---------------------------------------------------------------------------------------------

#[test]
fn heartbeat_then_drop_after_start_ok_is_invalid_credentials() {
    // The broker got our StartOk, kept the line alive with a heartbeat while it was checking the
    // credentials, and then dropped the socket without ever answering: that is how a broker
    // rejects bad credentials, and a heartbeat is not an answer.
    let (result, seen) = run(
        vec![Step::SendStart, Step::ReadFrame, Step::SendHeartbeat],
        options(),
        false,
    );
    assert!(is_start_ok(&seen.frames[0]));
    match result {
        Err(Error::InvalidCredentials) => (),
        other => panic!("expected InvalidCredentials, got {:?}", other),
    }
}

#[test]
fn heartbeat_then_secure_challenge_is_not_supported() {
    let (result, _) = run(
        vec![
            Step::SendStart,
            Step::ReadFrame,
            Step::SendHeartbeat,
            Step::SendSecure,
        ],
        options(),
        true,
    );
    match result {
        Err(Error::SaslSecureNotSupported) => (),
        other => panic!("expected SaslSecureNotSupported, got {:?}", other),
    }
}
