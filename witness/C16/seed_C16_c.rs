//@host src/lib.rs
// witness scenario from seeded change C16-c (independent sub-agent demonstration); passes on the unchanged tree
//! Demonstration for property C16 ("only a complete handshake yields a connection;
//! failures name their cause").
//!
//! Every test opens a real `Connection` through `Connection::insecure_open_stream` over a
//! loopback TCP socket. The other end of the socket is a scripted broker running on a
//! plain blocking `std::net` socket in a helper thread: it reads the protocol header,
//! then alternates between sending one frame and reading the client's reaction. There
//! are no timeouts and no sleeps: every step blocks on the peer.

use crate::serialize::OutputBuffer;
use crate::{Auth, Connection, ConnectionOptions, ConnectionTuning, Error, FieldTable};
use amq_protocol::frame::{parse_frame, AMQPFrame};
use amq_protocol::protocol::connection::AMQPMethod as Conn;
use amq_protocol::protocol::connection::{Close, CloseOk, OpenOk, Start, Tune};
use amq_protocol::protocol::AMQPClass;
use amq_protocol::types::AMQPValue;
use mio::net::TcpStream as MioTcpStream;
use std::io::{Read, Write};
use std::net::{TcpListener, TcpStream};
use std::thread::{self, JoinHandle};

/// One step of the scripted broker.
enum Step {
    /// Send this connection-class method on channel 0.
    Send(Conn),
    /// Read exactly `n` frames from the client and record them.
    Recv(usize),
    /// Read until the client closes its end (records nothing).
    DrainUntilEof,
}

fn send(sock: &mut TcpStream, method: Conn) {
    let mut buf = OutputBuffer::empty();
    buf.push_method(0, method);
    sock.write_all(&buf[0..]).unwrap();
}

fn recv_frame(sock: &mut TcpStream) -> AMQPFrame {
    let mut head = [0u8; 7];
    sock.read_exact(&mut head).unwrap();
    let size = u32::from_be_bytes([head[3], head[4], head[5], head[6]]) as usize;
    let mut buf = head.to_vec();
    buf.resize(7 + size + 1, 0);
    sock.read_exact(&mut buf[7..]).unwrap();
    let (rest, frame) = parse_frame(&buf).unwrap();
    assert!(rest.is_empty());
    frame
}

/// Starts the scripted broker; returns the client end of the socket and the handle of the
/// broker thread, which yields the frames the broker received from the client.
fn broker(script: Vec<Step>) -> (MioTcpStream, JoinHandle<Vec<AMQPFrame>>) {
    let listener = TcpListener::bind("127.0.0.1:0").unwrap();
    let addr = listener.local_addr().unwrap();
    let handle = thread::spawn(move || {
        let (mut sock, _) = listener.accept().unwrap();
        let mut header = [0u8; 8];
        sock.read_exact(&mut header).unwrap();
        assert_eq!(&header, b"AMQP\x00\x00\x09\x01");
        let mut received = Vec::new();
        for step in script {
            match step {
                Step::Send(method) => send(&mut sock, method),
                Step::Recv(n) => {
                    for _ in 0..n {
                        received.push(recv_frame(&mut sock));
                    }
                }
                Step::DrainUntilEof => {
                    let mut sink = [0u8; 256];
                    while let Ok(n) = sock.read(&mut sink) {
                        if n == 0 {
                            break;
                        }
                    }
                }
            }
        }
        received
        // the socket is dropped (closed) here
    });
    let client = MioTcpStream::connect(&addr).unwrap();
    (client, handle)
}

fn server_properties() -> FieldTable {
    let mut table = FieldTable::new();
    table.insert(
        "product".to_string(),
        AMQPValue::LongString("scripted-broker".to_string()),
    );
    table
}

fn start() -> Conn {
    Conn::Start(Start {
        version_major: 0,
        version_minor: 9,
        server_properties: server_properties(),
        mechanisms: "PLAIN AMQPLAIN".to_string(),
        locales: "en_US".to_string(),
    })
}

fn tune(frame_max: u32) -> Conn {
    Conn::Tune(Tune {
        channel_max: 2047,
        frame_max,
        heartbeat: 0,
    })
}

fn open(
    client: MioTcpStream,
    options: ConnectionOptions<Auth>,
) -> std::result::Result<Connection, Error> {
    Connection::insecure_open_stream(client, options, ConnectionTuning::default())
}

fn method_of(frame: &AMQPFrame) -> &Conn {
    match frame {
        AMQPFrame::Method(0, AMQPClass::Connection(method)) => method,
        other => panic!("expected a connection method on channel 0, got {:?}", other),
    }
}

// ---------------------------------------------------------------------------------------
// Controls: these pass with and without the change.
// ---------------------------------------------------------------------------------------

/// A complete handshake yields a connection exposing the server's properties, and the
/// client's frames arrive strictly in reaction to the server's.
#[test]
fn control_complete_handshake_yields_connection() {
    let (client, broker) = broker(vec![
        Step::Send(start()),
        Step::Recv(1), // StartOk
        Step::Send(tune(131_072)),
        Step::Recv(2), // TuneOk, Open
        Step::Send(Conn::OpenOk(OpenOk {
            known_hosts: String::new(),
        })),
        Step::Recv(1), // Close (from conn.close() below)
        Step::Send(Conn::CloseOk(CloseOk {})),
        Step::DrainUntilEof,
    ]);
    let conn = open(client, ConnectionOptions::default().virtual_host("vh")).unwrap();
    assert_eq!(conn.server_properties(), &server_properties());
    conn.close().unwrap();

    let received = broker.join().unwrap();
    match method_of(&received[0]) {
        Conn::StartOk(start_ok) => {
            assert_eq!(start_ok.mechanism, "PLAIN");
            assert_eq!(start_ok.locale, "en_US");
        }
        other => panic!("expected StartOk, got {:?}", other),
    }
    match method_of(&received[1]) {
        Conn::TuneOk(tune_ok) => assert_eq!(tune_ok.frame_max, 131_072),
        other => panic!("expected TuneOk, got {:?}", other),
    }
    match method_of(&received[2]) {
        Conn::Open(open) => assert_eq!(open.virtual_host, "vh"),
        other => panic!("expected Open, got {:?}", other),
    }
}

/// The broker drops the socket after StartOk without a reply: that is how bad credentials
/// are reported, with and without the change.
#[test]
fn control_drop_after_start_ok_is_invalid_credentials() {
    let (client, broker) = broker(vec![Step::Send(start()), Step::Recv(1)]);
    match open(client, ConnectionOptions::default()) {
        Err(Error::InvalidCredentials) => (),
        other => panic!("expected InvalidCredentials, got {:?}", other),
    }
    broker.join().unwrap();
}

/// The broker closes instead of OpenOk: the client answers CloseOk and reports the
/// broker's code and text.
#[test]
fn control_close_instead_of_open_ok() {
    let (client, broker) = broker(vec![
        Step::Send(start()),
        Step::Recv(1),
        Step::Send(tune(131_072)),
        Step::Recv(2),
        Step::Send(Conn::Close(Close {
            reply_code: 530,
            reply_text: "NOT_ALLOWED - vhost not found".to_string(),
            class_id: 10,
            method_id: 40,
        })),
        Step::Recv(1), // CloseOk
        Step::DrainUntilEof,
    ]);
    match open(client, ConnectionOptions::default()) {
        Err(Error::ServerClosedConnection { code, message }) => {
            assert_eq!(code, 530);
            assert_eq!(message, "NOT_ALLOWED - vhost not found");
        }
        other => panic!("expected ServerClosedConnection, got {:?}", other),
    }
    let received = broker.join().unwrap();
    match method_of(&received[3]) {
        Conn::CloseOk(_) => (),
        other => panic!("expected CloseOk, got {:?}", other),
    }
}

// ---------------------------------------------------------------------------------------
// The property: failures after StartOk name their cause. These fail with the change.
// ---------------------------------------------------------------------------------------

/// The broker accepts the credentials (it answers StartOk with a Tune), but the tune
/// parameters negotiate to a frame_max below the protocol minimum because of the client's
/// own option. The cause is FrameMaxTooSmall - not the credentials.
#[test]
fn client_frame_max_too_small_is_named() {
    let (client, broker) = broker(vec![
        Step::Send(start()),
        Step::Recv(1),
        Step::Send(tune(131_072)),
        Step::DrainUntilEof,
    ]);
    match open(client, ConnectionOptions::default().frame_max(1024)) {
        Err(Error::FrameMaxTooSmall { min, requested }) => {
            assert_eq!(min, 4096);
            assert_eq!(requested, 1024);
        }
        other => panic!("expected FrameMaxTooSmall, got {:?}", other),
    }
    broker.join().unwrap();
}

/// Same, but it is the broker that proposes the too-small frame_max.
#[test]
fn server_frame_max_too_small_is_named() {
    let (client, broker) = broker(vec![
        Step::Send(start()),
        Step::Recv(1),
        Step::Send(tune(512)),
        Step::DrainUntilEof,
    ]);
    match open(client, ConnectionOptions::default()) {
        Err(Error::FrameMaxTooSmall { requested, .. }) => assert_eq!(requested, 512),
        other => panic!("expected FrameMaxTooSmall, got {:?}", other),
    }
    broker.join().unwrap();
}

/// The broker answers StartOk with an out-of-order frame (OpenOk before Tune): that is
/// FrameUnexpected - the broker did reply, so it is not the bad-credentials signature.
#[test]
fn out_of_order_frame_after_start_ok_is_named() {
    let (client, broker) = broker(vec![
        Step::Send(start()),
        Step::Recv(1),
        Step::Send(Conn::OpenOk(OpenOk {
            known_hosts: String::new(),
        })),
        Step::DrainUntilEof,
    ]);
    match open(client, ConnectionOptions::default()) {
        Err(Error::FrameUnexpected) => (),
        other => panic!("expected FrameUnexpected, got {:?}", other),
    }
    broker.join().unwrap();
}
