//@host src/lib.rs
// witness scenario from seeded change C16-d (independent sub-agent demonstration); passes on the unchanged tree
//! Demonstration for property C16 (only a complete handshake yields a connection; the attempt
//! never hangs as long as the server responds).
//!
//! The tests drive the real `Connection::insecure_open_stream` over a loopback TCP socket. The
//! peer is a scripted AMQP server on a plain blocking socket. It comes in two flavours:
//!
//! * a *polite* server that waits for the 8 byte protocol header before it sends `Start`
//!   (what RabbitMQ does), and
//! * an *eager* server that sends `Start` as soon as the TCP connection is accepted, so that the
//!   frame is already sitting in the client's receive buffer when the client's I/O thread polls
//!   the socket for the first time. From then on it behaves exactly like the polite one: it
//!   answers StartOk with Tune, and TuneOk + Open with OpenOk.
//!
//! Both are servers that respond to everything the client sends, so both attempts must end in a
//! usable connection that exposes the server's properties.

use crate::serialize::OutputBuffer;
use crate::{Auth, Connection, ConnectionOptions, ConnectionTuning, Error, FieldTable};
use amq_protocol::frame::{parse_frame, AMQPFrame};
use amq_protocol::protocol::connection::AMQPMethod as AmqpConnection;
use amq_protocol::protocol::connection::{OpenOk, Start, Tune};
use amq_protocol::protocol::AMQPClass;
use amq_protocol::types::AMQPValue;
use std::io::{Read, Write};
use std::net::{TcpListener, TcpStream};
use std::sync::mpsc;
use std::thread;
use std::time::Duration;

const WATCHDOG: Duration = Duration::from_secs(5);

/// What the scripted server saw, in order.
#[derive(Debug, Clone, PartialEq)]
enum Seen {
    Header,
    StartOk { mechanism: String, locale: String },
    TuneOk,
    Open { virtual_host: String },
}

fn frame_bytes(method: AmqpConnection) -> Vec<u8> {
    let mut buf = OutputBuffer::empty();
    buf.push_method(0, method);
    buf[0..].to_vec()
}

fn start_frame() -> Vec<u8> {
    let mut server_properties = FieldTable::new();
    server_properties.insert(
        "product".to_string(),
        AMQPValue::LongString("scripted".to_string()),
    );
    frame_bytes(AmqpConnection::Start(Start {
        version_major: 0,
        version_minor: 9,
        server_properties,
        mechanisms: "PLAIN AMQPLAIN".to_string(),
        locales: "en_US".to_string(),
    }))
}

fn read_method(stream: &mut TcpStream) -> std::io::Result<AmqpConnection> {
    let mut frame = vec![0u8; 7];
    stream.read_exact(&mut frame)?;
    let size = u32::from_be_bytes([frame[3], frame[4], frame[5], frame[6]]) as usize;
    frame.resize(7 + size + 1, 0);
    stream.read_exact(&mut frame[7..])?;
    match parse_frame(&frame) {
        Ok((_, AMQPFrame::Method(0, AMQPClass::Connection(method)))) => Ok(method),
        other => panic!("scripted server got an unexpected frame: {:?}", other),
    }
}

/// Server side of one handshake. Reports what it sees on `seen`; `started` is signalled once the
/// server has done everything it does before reading from the client. Every read has a timeout,
/// so the thread always ends.
fn serve(
    mut stream: TcpStream,
    eager: bool,
    seen: mpsc::Sender<Seen>,
    started: mpsc::Sender<()>,
) -> std::io::Result<()> {
    stream.set_read_timeout(Some(WATCHDOG))?;
    if eager {
        // On loopback the bytes are in the peer's receive buffer when write_all returns.
        stream.write_all(&start_frame())?;
    }
    let _ = started.send(());

    let mut header = [0u8; 8];
    stream.read_exact(&mut header)?;
    assert_eq!(&header, b"AMQP\x00\x00\x09\x01");
    let _ = seen.send(Seen::Header);
    if !eager {
        stream.write_all(&start_frame())?;
    }

    loop {
        match read_method(&mut stream)? {
            AmqpConnection::StartOk(start_ok) => {
                let _ = seen.send(Seen::StartOk {
                    mechanism: start_ok.mechanism,
                    locale: start_ok.locale,
                });
                stream.write_all(&frame_bytes(AmqpConnection::Tune(Tune {
                    channel_max: 2047,
                    frame_max: 131_072,
                    heartbeat: 60,
                })))?;
            }
            AmqpConnection::TuneOk(_) => {
                let _ = seen.send(Seen::TuneOk);
            }
            AmqpConnection::Open(open) => {
                let _ = seen.send(Seen::Open {
                    virtual_host: open.virtual_host,
                });
                stream.write_all(&frame_bytes(AmqpConnection::OpenOk(OpenOk {
                    known_hosts: String::new(),
                })))?;
                // Keep the socket open for a while: the test forgets the connection instead of
                // closing it.
                let mut rest = [0u8; 64];
                let _ = stream.read(&mut rest);
                return Ok(());
            }
            other => panic!("scripted server got an unexpected method: {:?}", other),
        }
    }
}

#[derive(Debug)]
struct Outcome {
    /// `None`: the attempt did not return within WATCHDOG (it hangs).
    result: Option<Result<FieldTable, Error>>,
    seen: Vec<Seen>,
}

fn attempt(eager: bool, options: ConnectionOptions<Auth>) -> Outcome {
    let listener = TcpListener::bind("127.0.0.1:0").unwrap();
    let addr = listener.local_addr().unwrap();

    // Connect with a blocking socket first, so that the test controls what has already happened
    // on the wire when the library gets to see the stream.
    let client = TcpStream::connect(addr).unwrap();
    let (server, _) = listener.accept().unwrap();

    let (seen_tx, seen_rx) = mpsc::channel();
    let (started_tx, started_rx) = mpsc::channel();
    thread::spawn(move || {
        let _ = serve(server, eager, seen_tx, started_tx);
    });
    started_rx
        .recv_timeout(WATCHDOG)
        .expect("scripted server did not start");

    // Run the attempt on its own thread: if it hangs, the test must fail, not hang.
    let (result_tx, result_rx) = mpsc::channel();
    thread::spawn(move || {
        client.set_nonblocking(true).unwrap();
        let stream = mio::net::TcpStream::from_stream(client).unwrap();
        let result =
            Connection::insecure_open_stream(stream, options, ConnectionTuning::default()).map(
                |connection| {
                    let server_properties = connection.server_properties().clone();
                    // Dropping a connection closes it, which blocks until the server answers.
                    std::mem::forget(connection);
                    server_properties
                },
            );
        let _ = result_tx.send(result);
    });
    let result = result_rx.recv_timeout(WATCHDOG).ok();

    Outcome {
        result,
        seen: seen_rx.try_iter().collect(),
    }
}

fn full_handshake() -> Vec<Seen> {
    vec![
        Seen::Header,
        Seen::StartOk {
            mechanism: "PLAIN".to_string(),
            locale: "en_US".to_string(),
        },
        Seen::TuneOk,
        Seen::Open {
            virtual_host: "/".to_string(),
        },
    ]
}

fn assert_connected(outcome: Outcome) {
    match &outcome.result {
        Some(Ok(server_properties)) => {
            assert_eq!(
                server_properties.get("product"),
                Some(&AMQPValue::LongString("scripted".to_string()))
            );
        }
        Some(Err(err)) => panic!(
            "the server answered every frame, but the attempt failed with {:?} (server saw {:?})",
            err, outcome.seen
        ),
        None => panic!(
            "the server answered every frame, but the attempt hangs (server saw {:?})",
            outcome.seen
        ),
    }
    assert_eq!(outcome.seen, full_handshake());
}

/// Control: the server waits for the protocol header before sending Start.
#[test]
fn control_polite_server_yields_connection() {
    assert_connected(attempt(false, ConnectionOptions::default()));
}

/// Control: same, with a connection timeout configured.
#[test]
fn control_polite_server_with_timeout_yields_connection() {
    let options = ConnectionOptions::default().connection_timeout(Some(Duration::from_secs(1)));
    assert_connected(attempt(false, options));
}

/// The server's Start is already readable when the client polls its socket for the first time.
/// The client must still send the header and then StartOk in reaction to that Start.
#[test]
fn eager_server_yields_connection() {
    assert_connected(attempt(true, ConnectionOptions::default()));
}

/// Same with a connection timeout: the server is never silent, so ConnectionTimeout is wrong.
#[test]
fn eager_server_with_timeout_yields_connection() {
    let options = ConnectionOptions::default().connection_timeout(Some(Duration::from_secs(1)));
    assert_connected(attempt(true, options));
}
