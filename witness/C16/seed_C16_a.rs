//@host src/io_loop/mod.rs
// witness scenario from seeded change C16-a (independent sub-agent demonstration); passes on the unchanged tree
// Demonstration for C16: when the server answers our Open with connection.close
// (e.g. unknown vhost, rejected tune parameters) the client must answer CloseOk
// before reporting ServerClosedConnection.
//
// Wire with (in src/io_loop/mod.rs, next to the other `mod` lines):
//     #[cfg(test)]
//     mod handshake_demo;

use super::handshake_state::HandshakeState;
use super::heartbeat_timers::HeartbeatTimers;
use super::Inner;
use crate::auth::Auth;
use crate::connection_options::ConnectionOptions;
use crate::serialize::OutputBuffer;
use crate::FieldTable;
use amq_protocol::frame::AMQPFrame;
use amq_protocol::protocol::connection::AMQPMethod as AmqpConnection;
use amq_protocol::protocol::connection::{Close, CloseOk, Start, Tune};
use amq_protocol::protocol::AMQPClass;

fn frame(method: AmqpConnection) -> AMQPFrame {
    AMQPFrame::Method(0, AMQPClass::Connection(method))
}

fn pending(inner: &Inner) -> Vec<u8> {
    inner.outbuf[0..].to_vec()
}

fn close_ok_bytes() -> Vec<u8> {
    let mut buf = OutputBuffer::empty();
    buf.push_method(0, AmqpConnection::CloseOk(CloseOk {}));
    buf[0..].to_vec()
}

#[test]
fn server_close_instead_of_open_ok_is_answered_with_close_ok() {
    let mut inner = Inner::new(HeartbeatTimers::default(), 16);
    let options = ConnectionOptions::<Auth>::default()
        .heartbeat(0)
        .virtual_host("no-such-vhost");
    let mut state = HandshakeState::Start(options);

    // Server: Start -> we answer StartOk
    state
        .process(
            &mut inner,
            frame(AmqpConnection::Start(Start {
                version_major: 0,
                version_minor: 9,
                server_properties: FieldTable::new(),
                mechanisms: "AMQPLAIN PLAIN".to_string(),
                locales: "en_US".to_string(),
            })),
        )
        .unwrap();

    // Server: Tune -> we answer TuneOk + Open
    state
        .process(
            &mut inner,
            frame(AmqpConnection::Tune(Tune {
                channel_max: 2047,
                frame_max: 131072,
                heartbeat: 60,
            })),
        )
        .unwrap();
    match state {
        HandshakeState::Open(_, _) => (),
        ref other => panic!("expected Open state, got {:?}", other),
    }

    // pretend the socket accepted everything queued so far (header, StartOk, TuneOk, Open)
    assert!(inner.has_data_to_write());
    inner.outbuf.clear();

    // Server: Close instead of OpenOk
    state
        .process(
            &mut inner,
            frame(AmqpConnection::Close(Close {
                reply_code: 530,
                reply_text: "NOT_ALLOWED - vhost no-such-vhost not found".to_string(),
                class_id: 10,
                method_id: 40,
            })),
        )
        .unwrap();

    match state {
        HandshakeState::ServerClosing(ref close) => {
            assert_eq!(close.reply_code, 530);
            assert_eq!(
                close.reply_text,
                "NOT_ALLOWED - vhost no-such-vhost not found"
            );
        }
        ref other => panic!("expected ServerClosing state, got {:?}", other),
    }
    assert!(inner.are_writes_sealed());

    // The CloseOk answer must be queued for the socket, and nothing else.
    assert_eq!(
        pending(&inner),
        close_ok_bytes(),
        "client must answer the server's Close with CloseOk before giving up"
    );
}
