//@host src/lib.rs
// witness scenario from seeded change C16-k (independent sub-agent demonstration); passes on the unchanged tree
//! Demonstration for C16 ("only a complete handshake yields a connection; failures name their
//! cause"): whatever the broker puts into the `server_properties` of its Start, the StartOk we
//! answer with carries the consumer_cancel_notify and connection.blocked capabilities.
//!
//! A scripted broker on a loopback socket plays the server side of the handshake against the
//! real `Connection::insecure_open_stream` and hands the StartOk it received back to the test.

use crate::serialize::OutputBuffer;
use crate::{Auth, Connection, ConnectionOptions, ConnectionTuning, FieldTable};
use amq_protocol::frame::{parse_frame, AMQPFrame};
use amq_protocol::protocol::connection::AMQPMethod as AmqpConnection;
use amq_protocol::protocol::connection::{CloseOk, OpenOk, Start, StartOk, Tune};
use amq_protocol::protocol::AMQPClass;
use amq_protocol::types::AMQPValue;
use std::io::{Read, Write};
use std::net::{TcpListener, TcpStream};
use std::sync::mpsc;
use std::thread;
use std::time::Duration;

const WATCHDOG: Duration = Duration::from_secs(20);

fn read_frame(sock: &mut TcpStream) -> AMQPFrame {
    let mut buf = vec![0u8; 7];
    sock.read_exact(&mut buf).expect("broker: frame header");
    let size = u32::from_be_bytes([buf[3], buf[4], buf[5], buf[6]]) as usize;
    buf.resize(7 + size + 1, 0);
    sock.read_exact(&mut buf[7..]).expect("broker: frame body");
    let (rest, frame) = parse_frame(&buf).expect("broker: parse frame");
    assert!(rest.is_empty());
    frame
}

fn read_connection_method(sock: &mut TcpStream) -> AmqpConnection {
    loop {
        match read_frame(sock) {
            AMQPFrame::Heartbeat(_) => continue,
            AMQPFrame::Method(0, AMQPClass::Connection(method)) => return method,
            other => panic!("broker: unexpected frame {:?}", other),
        }
    }
}

fn send(sock: &mut TcpStream, method: AmqpConnection) {
    let mut buf = OutputBuffer::empty();
    buf.push_method(0, method);
    sock.write_all(&buf[0..]).expect("broker: write");
    sock.flush().expect("broker: flush");
}

/// Plays a well-behaved broker whose Start carries `server_properties`; reports the StartOk and
/// the virtual host of the Open it got from the client, then answers the client's Close.
fn broker(
    listener: TcpListener,
    server_properties: FieldTable,
    report: mpsc::Sender<(StartOk, String)>,
) {
    let (mut sock, _) = listener.accept().expect("broker: accept");
    sock.set_read_timeout(Some(WATCHDOG)).unwrap();
    sock.set_write_timeout(Some(WATCHDOG)).unwrap();

    let mut header = [0u8; 8];
    sock.read_exact(&mut header)
        .expect("broker: protocol header");
    assert_eq!(&header, b"AMQP\x00\x00\x09\x01");

    send(
        &mut sock,
        AmqpConnection::Start(Start {
            version_major: 0,
            version_minor: 9,
            server_properties,
            mechanisms: "AMQPLAIN PLAIN".to_string(),
            locales: "en_US".to_string(),
        }),
    );
    let start_ok = match read_connection_method(&mut sock) {
        AmqpConnection::StartOk(start_ok) => start_ok,
        other => panic!("broker: expected StartOk, got {:?}", other),
    };

    send(
        &mut sock,
        AmqpConnection::Tune(Tune {
            channel_max: 2047,
            frame_max: 131_072,
            heartbeat: 0,
        }),
    );
    match read_connection_method(&mut sock) {
        AmqpConnection::TuneOk(_) => (),
        other => panic!("broker: expected TuneOk, got {:?}", other),
    }
    let vhost = match read_connection_method(&mut sock) {
        AmqpConnection::Open(open) => open.virtual_host,
        other => panic!("broker: expected Open, got {:?}", other),
    };
    send(
        &mut sock,
        AmqpConnection::OpenOk(OpenOk {
            known_hosts: "".to_string(),
        }),
    );
    let _ = report.send((start_ok, vhost));

    // let the client close the connection in the regular way
    match read_connection_method(&mut sock) {
        AmqpConnection::Close(_) => send(&mut sock, AmqpConnection::CloseOk(CloseOk {})),
        other => panic!("broker: expected Close, got {:?}", other),
    }
}

struct Outcome {
    start_ok: StartOk,
    vhost: String,
    seen_server_properties: FieldTable,
}

/// One complete handshake against the scripted broker. Never hangs: every wait is bounded, and
/// a broker that gives up closes its socket, which fails the client side.
fn handshake(options: ConnectionOptions<Auth>, server_properties: FieldTable) -> Outcome {
    let listener = TcpListener::bind("127.0.0.1:0").unwrap();
    let addr = listener.local_addr().unwrap();

    let (broker_tx, broker_rx) = mpsc::channel();
    thread::spawn(move || broker(listener, server_properties, broker_tx));

    let (client_tx, client_rx) = mpsc::channel();
    thread::spawn(move || {
        let stream = mio::net::TcpStream::connect(&addr).unwrap();
        match Connection::insecure_open_stream(stream, options, ConnectionTuning::default()) {
            Ok(connection) => {
                let _ = client_tx.send(Ok(connection.server_properties().clone()));
                let _ = connection.close();
            }
            Err(err) => {
                let _ = client_tx.send(Err(err));
            }
        }
    });

    let seen_server_properties = client_rx
        .recv_timeout(WATCHDOG)
        .expect("client did not finish the handshake in time")
        .expect("handshake against a well-behaved broker must succeed");
    let (start_ok, vhost) = broker_rx
        .recv_timeout(WATCHDOG)
        .expect("broker did not see a complete handshake");
    Outcome {
        start_ok,
        vhost,
        seen_server_properties,
    }
}

fn capabilities_of(start_ok: &StartOk) -> FieldTable {
    match start_ok.client_properties.get("capabilities") {
        Some(AMQPValue::FieldTable(caps)) => caps.clone(),
        other => panic!("StartOk without a capabilities table: {:?}", other),
    }
}

fn long_string(s: &str) -> AMQPValue {
    AMQPValue::LongString(s.to_string())
}

/// Server properties of a broker that advertises its extensions the way RabbitMQ does.
fn rabbit_like_properties(connection_blocked: Option<bool>) -> FieldTable {
    let mut caps = FieldTable::new();
    for k in &["publisher_confirms", "basic.nack", "consumer_cancel_notify"] {
        caps.insert(k.to_string(), AMQPValue::Boolean(true));
    }
    if let Some(flag) = connection_blocked {
        caps.insert("connection.blocked".to_string(), AMQPValue::Boolean(flag));
    }
    let mut props = FieldTable::new();
    props.insert("product".to_string(), long_string("RabbitMQ"));
    props.insert("version".to_string(), long_string("3.8.9"));
    props.insert("capabilities".to_string(), AMQPValue::FieldTable(caps));
    props
}

fn assert_full_start_ok(outcome: &Outcome, information: Option<&str>) {
    let start_ok = &outcome.start_ok;
    assert_eq!(start_ok.mechanism, "PLAIN");
    assert_eq!(start_ok.response, "\x00guest\x00guest");
    assert_eq!(start_ok.locale, "en_US");
    assert_eq!(
        start_ok.client_properties.get("information"),
        information.map(long_string).as_ref()
    );
    let caps = capabilities_of(start_ok);
    assert_eq!(
        caps.get("consumer_cancel_notify"),
        Some(&AMQPValue::Boolean(true)),
        "StartOk must claim consumer_cancel_notify; client capabilities: {:?}",
        caps
    );
    assert_eq!(
        caps.get("connection.blocked"),
        Some(&AMQPValue::Boolean(true)),
        "StartOk must claim connection.blocked; client capabilities: {:?}",
        caps
    );
}

/// Control: passes with and without the change. Brokers that say nothing about their
/// capabilities, and brokers that advertise them all as switched on.
#[test]
fn control_start_ok_carries_capabilities_for_ordinary_brokers() {
    let options = ConnectionOptions::<Auth>::default().virtual_host("demo");
    let outcome = handshake(options, FieldTable::new());
    assert_full_start_ok(&outcome, None);
    assert_eq!(outcome.vhost, "demo");
    assert_eq!(outcome.seen_server_properties, FieldTable::new());

    let props = rabbit_like_properties(Some(true));
    let options = ConnectionOptions::<Auth>::default().information(Some("control".to_string()));
    let outcome = handshake(options, props.clone());
    assert_full_start_ok(&outcome, Some("control"));
    assert_eq!(outcome.vhost, "/");
    assert_eq!(outcome.seen_server_properties, props);

    // a capabilities table that does not mention connection.blocked at all
    let props = rabbit_like_properties(None);
    let outcome = handshake(ConnectionOptions::<Auth>::default(), props.clone());
    assert_full_start_ok(&outcome, None);
    assert_eq!(outcome.seen_server_properties, props);
}

/// Fails with the change: a broker whose own properties list `connection.blocked = false`
/// (e.g. the extension is switched off on that node) still gets a StartOk that claims both
/// capabilities - what the client announces does not depend on what the server announced.
#[test]
fn start_ok_capabilities_do_not_depend_on_server_properties() {
    let props = rabbit_like_properties(Some(false));
    let options = ConnectionOptions::<Auth>::default().information(Some("demo".to_string()));
    let outcome = handshake(options, props.clone());
    assert_eq!(outcome.seen_server_properties, props);
    assert_full_start_ok(&outcome, Some("demo"));
}
