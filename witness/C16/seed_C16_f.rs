//@host src/lib.rs
// witness scenario from seeded change C16-f (independent sub-agent demonstration); passes on the unchanged tree
//! Demonstration for seed C16f.
//!
//! Property C16: "... ConnectionTimeout when a configured timeout elapses while the server stays
//! silent ... The attempt never panics and never hangs as long as the server responds, closes,
//! or a timeout is configured."
//!
//! The tests drive the real I/O loop against an in-memory peer that accepts everything the client
//! writes and never answers.  With a connection timeout configured every such attempt has to end
//! with `Error::ConnectionTimeout` -- on the plain path (`Connection::insecure_open_stream`) and on
//! the TLS path (`Connection::open_tls_stream`, i.e. `IoLoop::start_tls`), whether the peer falls
//! silent during the TLS handshake or only afterwards, during the AMQP handshake.
//!
//! Every attempt runs under a watchdog, so that a hanging attempt FAILS the test instead of
//! blocking the test run.

use crate::{Auth, Connection, ConnectionOptions, ConnectionTuning, Error, IoStream, Result};
use mio::{Evented, Poll, PollOpt, Ready, Registration, SetReadiness, Token};
use std::io::{self, Read, Write};
use std::sync::mpsc;
use std::sync::{Arc, Mutex};
use std::thread;
use std::time::Duration;

/// The configured connection timeout (short: the passing direction waits for it once).
const TIMEOUT: Duration = Duration::from_millis(150);

/// How long an attempt may take before it is declared hung.
const WATCHDOG: Duration = Duration::from_secs(10);

/// A peer that is always writable, swallows (and records) everything written to it and never
/// sends a single byte: every read would block.
struct SilentStream {
    registration: Registration,
    // keeps the readiness queue node alive; the stream stays "writable" for good
    _set_readiness: SetReadiness,
    written: Arc<Mutex<Vec<u8>>>,
}

impl SilentStream {
    fn new() -> (SilentStream, Arc<Mutex<Vec<u8>>>) {
        let (registration, set_readiness) = Registration::new2();
        set_readiness.set_readiness(Ready::writable()).unwrap();
        let written = Arc::new(Mutex::new(Vec::new()));
        let stream = SilentStream {
            registration,
            _set_readiness: set_readiness,
            written: Arc::clone(&written),
        };
        (stream, written)
    }
}

impl Read for SilentStream {
    fn read(&mut self, _buf: &mut [u8]) -> io::Result<usize> {
        Err(io::Error::new(io::ErrorKind::WouldBlock, "silent peer"))
    }
}

impl Write for SilentStream {
    fn write(&mut self, buf: &[u8]) -> io::Result<usize> {
        self.written.lock().unwrap().extend_from_slice(buf);
        Ok(buf.len())
    }

    fn flush(&mut self) -> io::Result<()> {
        Ok(())
    }
}

impl Evented for SilentStream {
    fn register(&self, poll: &Poll, token: Token, interest: Ready, opts: PollOpt) -> io::Result<()> {
        Evented::register(&self.registration, poll, token, interest, opts)
    }

    fn reregister(
        &self,
        poll: &Poll,
        token: Token,
        interest: Ready,
        opts: PollOpt,
    ) -> io::Result<()> {
        Evented::reregister(&self.registration, poll, token, interest, opts)
    }

    fn deregister(&self, poll: &Poll) -> io::Result<()> {
        Evented::deregister(&self.registration, poll)
    }
}

impl IoStream for SilentStream {}

fn options_with_timeout() -> ConnectionOptions<Auth> {
    ConnectionOptions::default().connection_timeout(Some(TIMEOUT))
}

/// Runs one connection attempt on its own thread; panics (= fails the test) if the attempt has
/// not come back after WATCHDOG.  A connection that was (unexpectedly) opened is forgotten, not
/// dropped: dropping it would try to talk to the silent peer.
fn attempt<F>(what: &str, open: F) -> std::result::Result<(), Error>
where
    F: FnOnce() -> Result<Connection> + Send + 'static,
{
    let (tx, rx) = mpsc::channel();
    thread::Builder::new()
        .name(format!("c16f-{}", what))
        .spawn(move || {
            let result = open().map(std::mem::forget);
            let _ = tx.send(result);
        })
        .unwrap();
    match rx.recv_timeout(WATCHDOG) {
        Ok(result) => result,
        Err(mpsc::RecvTimeoutError::Disconnected) => panic!("{}: the attempt panicked", what),
        Err(mpsc::RecvTimeoutError::Timeout) => panic!(
            "{}: a connection timeout of {:?} is configured and the peer is silent, but the \
             attempt is still hanging after {:?}",
            what, TIMEOUT, WATCHDOG
        ),
    }
}

fn assert_connection_timeout(what: &str, result: std::result::Result<(), Error>) {
    match result {
        Err(Error::ConnectionTimeout) => (),
        Err(err) => panic!("{}: expected ConnectionTimeout, got error {:?}", what, err),
        Ok(()) => panic!("{}: expected ConnectionTimeout, got a connection", what),
    }
}

// ---------------------------------------------------------------------------------------------
// Control: plain stream, peer silent from the start.  Passes with and without the change.
// ---------------------------------------------------------------------------------------------
#[test]
fn control_plain_stream_silent_peer_times_out() {
    let (stream, written) = SilentStream::new();
    let result = attempt("plain", move || {
        Connection::insecure_open_stream(stream, options_with_timeout(), ConnectionTuning::default())
    });
    assert_connection_timeout("plain", result);
    // the protocol header went out, nothing else
    assert_eq!(&written.lock().unwrap()[..], &b"AMQP\x00\x00\x09\x01"[..]);
}

#[cfg(feature = "native-tls")]
mod tls {
    use super::*;
    use crate::io_loop::IoLoop;
    use crate::stream::HandshakeStream;

    /// Stand-in for a TLS session in the middle of its handshake on top of a SilentStream
    /// (mirrors stream::native_tls::TlsHandshakeStream): the handshake needs `rounds_left` more
    /// exchanges with the peer before it yields the stream; None = the peer never answers.
    struct FakeTlsHandshake {
        stream: Option<SilentStream>,
        rounds_left: Option<usize>,
    }

    impl HandshakeStream for FakeTlsHandshake {
        type Stream = SilentStream;

        fn progress_handshake(&mut self) -> Result<Option<SilentStream>> {
            match self.rounds_left {
                Some(0) => Ok(self.stream.take()),
                Some(n) => {
                    self.rounds_left = Some(n - 1);
                    Ok(None)
                }
                None => Ok(None),
            }
        }
    }

    impl Evented for FakeTlsHandshake {
        fn register(&self, poll: &Poll, token: Token, interest: Ready, opts: PollOpt) -> io::Result<()> {
            self.stream.as_ref().unwrap().register(poll, token, interest, opts)
        }

        fn reregister(
            &self,
            poll: &Poll,
            token: Token,
            interest: Ready,
            opts: PollOpt,
        ) -> io::Result<()> {
            self.stream.as_ref().unwrap().reregister(poll, token, interest, opts)
        }

        fn deregister(&self, poll: &Poll) -> io::Result<()> {
            self.stream.as_ref().unwrap().deregister(poll)
        }
    }

    /// What Connection::open_tls_stream does once the connector has wrapped the stream.
    fn open_fake_tls(handshake: FakeTlsHandshake) -> std::result::Result<(), Error> {
        attempt("fake-tls", move || {
            let io_loop = IoLoop::new(ConnectionTuning::default())?;
            let (join_handle, _server_properties, channel0) =
                io_loop.start_tls(handshake, options_with_timeout())?;
            // not expected to get here; do not run any destructor that talks to the peer
            std::mem::forget((join_handle, channel0));
            panic!("handshake with a silent peer completed");
        })
    }

    // -----------------------------------------------------------------------------------------
    // Control: the TLS handshake completes at once, the peer then stays silent during the AMQP
    // handshake.  Passes with and without the change.
    // -----------------------------------------------------------------------------------------
    #[test]
    fn control_tls_done_then_silent_peer_times_out() {
        let (stream, written) = SilentStream::new();
        let result = open_fake_tls(FakeTlsHandshake {
            stream: Some(stream),
            rounds_left: Some(0),
        });
        assert_connection_timeout("tls done, amqp silent", result);
        assert_eq!(&written.lock().unwrap()[..], &b"AMQP\x00\x00\x09\x01"[..]);
    }

    // -----------------------------------------------------------------------------------------
    // The peer falls silent in the middle of the TLS handshake (I/O loop driven directly with a
    // stand-in TLS session).  Passes on the unmodified library, hangs (-> watchdog) with the
    // change.
    // -----------------------------------------------------------------------------------------
    #[test]
    fn tls_handshake_silent_peer_times_out() {
        let (stream, written) = SilentStream::new();
        let result = open_fake_tls(FakeTlsHandshake {
            stream: Some(stream),
            rounds_left: None,
        });
        assert_connection_timeout("tls silent", result);
        // the AMQP protocol header must not be sent before the TLS session is up
        assert!(written.lock().unwrap().is_empty());
    }

    // -----------------------------------------------------------------------------------------
    // Same through the public API and the real native-tls connector: the peer swallows the
    // ClientHello and never answers.  Passes on the unmodified library, hangs (-> watchdog) with
    // the change.
    // -----------------------------------------------------------------------------------------
    #[test]
    fn open_tls_stream_silent_peer_times_out() {
        let connector = native_tls::TlsConnector::new().expect("native-tls connector");
        let (stream, written) = SilentStream::new();
        let result = attempt("open_tls_stream", move || {
            Connection::open_tls_stream(
                connector,
                "localhost",
                stream,
                options_with_timeout(),
                ConnectionTuning::default(),
            )
        });
        assert_connection_timeout("open_tls_stream", result);
        // a TLS handshake record (ClientHello) went out, and no AMQP header in the clear
        let written = written.lock().unwrap();
        assert_eq!(written.first(), Some(&0x16));
        assert!(!written.windows(4).any(|w| w == b"AMQP"));
    }
}
