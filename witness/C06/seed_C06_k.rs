//@host src/lib.rs
// witness scenario from seeded change C06-k (independent sub-agent demonstration); passes on the unchanged tree
// Demonstration for property C06: frame decoding must not depend on how the byte
// stream is segmented.
//
// Drives the real `FrameBuffer` (real AMQP size/parse path) with in-memory streams
// that hand out a fixed byte stream in caller-chosen pieces. No sockets, no threads,
// no clocks: nothing here can hang.

use crate::errors::Error;
use crate::frame_buffer::FrameBuffer;
use amq_protocol::frame::{parse_frame, AMQPFrame};
use std::collections::VecDeque;
use std::io;

enum Step {
    Data(Vec<u8>),
    WouldBlock,
}

// A stream that answers each read() with the next scripted step. One Data step is one
// read result (if the caller's buffer is smaller, the rest stays for the next read). Once
// the script is exhausted every read reports WouldBlock (never EOF).
struct Scripted {
    steps: VecDeque<Step>,
    reads: usize,
}

impl Scripted {
    fn new() -> Scripted {
        Scripted {
            steps: VecDeque::new(),
            reads: 0,
        }
    }

    fn data(mut self, bytes: &[u8]) -> Scripted {
        self.steps.push_back(Step::Data(bytes.to_vec()));
        self
    }

    fn would_block(mut self) -> Scripted {
        self.steps.push_back(Step::WouldBlock);
        self
    }

    // `bytes` cut into pieces of `piece` bytes (last one may be shorter), with no
    // would-block in between.
    fn pieces(mut self, bytes: &[u8], piece: usize) -> Scripted {
        for chunk in bytes.chunks(piece) {
            self = self.data(chunk);
        }
        self
    }
}

impl io::Read for Scripted {
    fn read(&mut self, buf: &mut [u8]) -> io::Result<usize> {
        self.reads += 1;
        match self.steps.pop_front() {
            None | Some(Step::WouldBlock) => Err(io::ErrorKind::WouldBlock.into()),
            Some(Step::Data(mut bytes)) => {
                let n = usize::min(buf.len(), bytes.len());
                buf[..n].copy_from_slice(&bytes[..n]);
                if n < bytes.len() {
                    bytes.drain(..n);
                    self.steps.push_front(Step::Data(bytes));
                }
                Ok(n)
            }
        }
    }
}

fn raw_frame(kind: u8, channel: u16, payload: &[u8]) -> Vec<u8> {
    let mut out = vec![kind];
    out.extend_from_slice(&channel.to_be_bytes());
    out.extend_from_slice(&(payload.len() as u32).to_be_bytes());
    out.extend_from_slice(payload);
    out.push(0xCE);
    out
}

fn heartbeat() -> Vec<u8> {
    raw_frame(8, 0, &[])
}

fn body(channel: u16, len: usize) -> Vec<u8> {
    let payload: Vec<u8> = (0..len).map(|i| (i % 251) as u8).collect();
    raw_frame(3, channel, &payload)
}

// basic.ack(delivery_tag, multiple = false)
fn basic_ack(channel: u16, delivery_tag: u64) -> Vec<u8> {
    let mut payload = vec![0, 60, 0, 80];
    payload.extend_from_slice(&delivery_tag.to_be_bytes());
    payload.push(0);
    raw_frame(1, channel, &payload)
}

// content header for class basic, no properties
fn content_header(channel: u16, body_size: u64) -> Vec<u8> {
    let mut payload = vec![0, 60, 0, 0];
    payload.extend_from_slice(&body_size.to_be_bytes());
    payload.extend_from_slice(&[0, 0]);
    raw_frame(2, channel, &payload)
}

// All four frame types, sizes from 8 bytes to beyond the 4096-byte read quantum.
fn sample_frames() -> Vec<Vec<u8>> {
    vec![
        heartbeat(),
        basic_ack(1, 7),
        content_header(1, 5000),
        body(1, 5000),
        heartbeat(),
        body(2, 1),
        basic_ack(2, 8),
    ]
}

// What the frames are, established independently of FrameBuffer: each frame's bytes
// parsed on their own.
fn reference(frames: &[Vec<u8>]) -> Vec<AMQPFrame> {
    frames
        .iter()
        .map(|bytes| {
            let (rest, frame) = parse_frame(bytes).expect("sample frame must be valid");
            assert!(rest.is_empty());
            frame
        })
        .collect()
}

// One read_from call; returns (bytes read, frames handed to the handler).
fn one_call(buf: &mut FrameBuffer, stream: &mut Scripted) -> (usize, Vec<AMQPFrame>) {
    let mut got = Vec::new();
    let n = buf
        .read_from(stream, |frame| {
            got.push(frame);
            Ok(())
        })
        .expect("read_from failed");
    (n, got)
}

// Control: passes with or without the change. The whole stream arrives in a few reads
// (fewer than any sensible per-call bound), cut at awkward places: inside a header,
// inside the big body frame, right behind a frame end.
#[test]
fn control_few_reads_then_would_block() {
    let frames = sample_frames();
    let bytes: Vec<u8> = frames.concat();
    let expected = reference(&frames);

    for &cuts in &[
        &[3usize, 11, 40, 4200][..],
        &[8, 29, 30, 5090],
        &[1, 2, 3, 4, 5, 6, 7],
        &[],
    ] {
        let mut stream = Scripted::new();
        let mut last = 0;
        for &cut in cuts {
            stream = stream.data(&bytes[last..cut]);
            last = cut;
        }
        stream = stream.data(&bytes[last..]).would_block();

        let mut buf = FrameBuffer::new();
        let (n, got) = one_call(&mut buf, &mut stream);
        assert_eq!(n, bytes.len());
        assert_eq!(got, expected);
    }
}

// Control: passes with or without the change. Would-block after every piece; the
// frames seen over all calls are the reference frames, each exactly once, in order, and
// each call hands on exactly the frames whose last byte has arrived.
#[test]
fn control_would_block_after_every_piece() {
    let frames = sample_frames();
    let bytes: Vec<u8> = frames.concat();
    let expected = reference(&frames);

    for &piece in &[1usize, 5, 7, 8, 13, 4096, 4097] {
        let mut stream = Scripted::new();
        for chunk in bytes.chunks(piece) {
            stream = stream.data(chunk).would_block();
        }

        let mut buf = FrameBuffer::new();
        let mut all = Vec::new();
        let mut arrived = 0;
        for _ in bytes.chunks(piece) {
            let (n, got) = one_call(&mut buf, &mut stream);
            arrived += n;
            all.extend(got);
            assert_eq!(all.len(), complete_frames(&frames, arrived), "piece={}", piece);
        }
        assert_eq!(arrived, bytes.len());
        assert_eq!(all, expected);
    }
}

// number of frames whose last byte lies within the first `arrived` bytes of the stream
fn complete_frames(frames: &[Vec<u8>], arrived: usize) -> usize {
    let mut end = 0;
    frames
        .iter()
        .take_while(|f| {
            end += f.len();
            end <= arrived
        })
        .count()
}

// Demonstration 1: three heartbeat frames (24 bytes) arriving one byte per read, with no
// would-block until all 24 bytes are in. All three frames have fully arrived by the time
// the stream reports would-block, so the one read_from call must hand on all three.
#[test]
fn byte_at_a_time_without_would_block() {
    let frames = vec![heartbeat(), heartbeat(), heartbeat()];
    let bytes: Vec<u8> = frames.concat();
    let mut stream = Scripted::new().pieces(&bytes, 1).would_block();

    let mut buf = FrameBuffer::new();
    let (n, got) = one_call(&mut buf, &mut stream);
    assert_eq!(
        (n, got.len()),
        (24, 3),
        "read_from returned although the stream had not reported would-block \
         (stream saw {} reads)",
        stream.reads
    );
    assert_eq!(got, reference(&frames));
}

// Demonstration 2: the same bytes must give the same frames per call whatever the
// number of reads they are spread over. Compare k reads against a single read, for the
// mixed sample stream (which contains a frame larger than the read quantum).
#[test]
fn same_frames_for_any_number_of_reads() {
    let frames = sample_frames();
    let bytes: Vec<u8> = frames.concat();
    let expected = reference(&frames);

    for pieces in 1..=64 {
        let piece = (bytes.len() + pieces - 1) / pieces;
        let mut stream = Scripted::new().pieces(&bytes, piece).would_block();

        let mut buf = FrameBuffer::new();
        let (n, got) = one_call(&mut buf, &mut stream);
        assert_eq!(
            (n, got.len()),
            (bytes.len(), expected.len()),
            "stream cut into pieces of {} bytes",
            piece
        );
        assert_eq!(got, expected);
    }
}

// Demonstration 3: end of stream must surface as UnexpectedSocketClose in the call in
// which it is reached, and a malformed frame as MalformedFrame, wherever the cuts are.
#[test]
fn errors_surface_for_any_number_of_reads() {
    let good = vec![heartbeat(), basic_ack(1, 1)];
    let mut bad = body(1, 20);
    *bad.last_mut().unwrap() = 0xCD;

    for &piece in &[1usize, 2, 3, 64] {
        // EOF right behind the good frames: Data(empty) makes read() return Ok(0).
        let bytes: Vec<u8> = good.concat();
        let mut stream = Scripted::new().pieces(&bytes, piece).data(&[]);
        let mut buf = FrameBuffer::new();
        let mut got = Vec::new();
        let res = buf.read_from(&mut stream, |f| {
            got.push(f);
            Ok(())
        });
        assert_eq!(got, reference(&good), "piece={}", piece);
        match res {
            Err(Error::UnexpectedSocketClose) => (),
            other => panic!("piece={}: expected UnexpectedSocketClose, got {:?}", piece, other),
        }

        // malformed frame behind the good frames, followed by one more good frame that
        // must never be acted on.
        let mut bytes: Vec<u8> = good.concat();
        bytes.extend_from_slice(&bad);
        bytes.extend_from_slice(&heartbeat());
        let mut stream = Scripted::new().pieces(&bytes, piece).would_block();
        let mut buf = FrameBuffer::new();
        let mut got = Vec::new();
        let res = buf.read_from(&mut stream, |f| {
            got.push(f);
            Ok(())
        });
        assert_eq!(got, reference(&good), "piece={}", piece);
        match res {
            Err(Error::MalformedFrame) => (),
            other => panic!("piece={}: expected MalformedFrame, got {:?}", piece, other),
        }
    }
}
