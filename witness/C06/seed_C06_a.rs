//@host src/lib.rs
// witness scenario from seeded change C06-a (independent sub-agent demonstration); passes on the unchanged tree
// Demonstration for C06: frame decoding must not depend on how the byte stream is
// segmented. Drives the real `FrameBuffer` (AMQP frame kind) with real AMQP frames
// through a scripted non-blocking stream.
//
// Wire with (in src/lib.rs):   #[cfg(test)] mod frame_buffer_segmentation_demo;

use crate::frame_buffer::FrameBuffer;
use amq_protocol::frame::AMQPFrame;
use std::collections::VecDeque;
use std::io;

enum Step {
    Data(Vec<u8>),
    WouldBlock,
}

// A scripted non-blocking socket: each `Data` chunk is handed out by (possibly several)
// reads, each `WouldBlock` makes exactly one read fail with EWOULDBLOCK.
// Running off the end of the script is EOF.
struct Script(VecDeque<Step>);

impl io::Read for Script {
    fn read(&mut self, out: &mut [u8]) -> io::Result<usize> {
        match self.0.pop_front() {
            None => Ok(0),
            Some(Step::WouldBlock) => Err(io::Error::new(io::ErrorKind::WouldBlock, "")),
            Some(Step::Data(mut d)) => {
                let n = usize::min(out.len(), d.len());
                out[..n].copy_from_slice(&d[..n]);
                if n < d.len() {
                    self.0.push_front(Step::Data(d.split_off(n)));
                }
                Ok(n)
            }
        }
    }
}

fn body_frame(channel: u16, payload: &[u8]) -> Vec<u8> {
    let mut v = vec![3u8];
    v.extend_from_slice(&channel.to_be_bytes());
    v.extend_from_slice(&(payload.len() as u32).to_be_bytes());
    v.extend_from_slice(payload);
    v.push(0xCE);
    v
}

fn heartbeat_frame() -> Vec<u8> {
    vec![8, 0, 0, 0, 0, 0, 0, 0xCE]
}

// One "readable" wakeup: call read_from once, return the frames handed on by that call.
fn wakeup(fb: &mut FrameBuffer, s: &mut Script) -> Vec<AMQPFrame> {
    let mut got = Vec::new();
    fb.read_from(s, |f| {
        got.push(f);
        Ok(())
    })
    .expect("read_from failed");
    got
}

fn run(big_len: usize, cut: usize) {
    let payload: Vec<u8> = (0..big_len).map(|i| (i % 251) as u8).collect();
    let big = body_frame(1, &payload);
    let small = body_frame(1, b"hello");
    let hb = heartbeat_frame();

    // Reference: everything arrives in one go.
    {
        let mut all = big.clone();
        all.extend_from_slice(&small);
        all.extend_from_slice(&hb);
        let mut s = Script(vec![Step::Data(all), Step::WouldBlock].into());
        let mut fb = FrameBuffer::new();
        assert_eq!(
            wakeup(&mut fb, &mut s),
            vec![
                AMQPFrame::Body(1, payload.clone()),
                AMQPFrame::Body(1, b"hello".to_vec()),
                AMQPFrame::Heartbeat(0),
            ]
        );
    }

    // Same bytes, but the first frame is cut in two by a would-block, and the later
    // (smaller) frames each arrive on their own wakeup.
    let mut s = Script(
        vec![
            Step::Data(big[..cut].to_vec()),
            Step::WouldBlock,
            Step::Data(big[cut..].to_vec()),
            Step::WouldBlock,
            Step::Data(small.clone()),
            Step::WouldBlock,
            Step::Data(hb.clone()),
            Step::WouldBlock,
        ]
        .into(),
    );
    let mut fb = FrameBuffer::new();

    assert_eq!(wakeup(&mut fb, &mut s), vec![], "big={} cut={}", big_len, cut);
    assert_eq!(
        wakeup(&mut fb, &mut s),
        vec![AMQPFrame::Body(1, payload.clone())],
        "big={} cut={}",
        big_len,
        cut
    );
    // Each later frame must be handed on by the wakeup in which its last byte arrived.
    assert_eq!(
        wakeup(&mut fb, &mut s),
        vec![AMQPFrame::Body(1, b"hello".to_vec())],
        "small body frame not handed on when its last byte arrived (big={} cut={})",
        big_len,
        cut
    );
    assert_eq!(
        wakeup(&mut fb, &mut s),
        vec![AMQPFrame::Heartbeat(0)],
        "heartbeat not handed on when its last byte arrived (big={} cut={})",
        big_len,
        cut
    );
}

#[test]
fn split_small_frame_then_smaller_frames() {
    // 100-byte body frame split after its header.
    run(100, 20);
}

#[test]
fn split_large_frame_then_smaller_frames() {
    // body frame larger than the 4096-byte read quantum, split mid-payload.
    run(5000, 3000);
}

#[test]
fn unsplit_frames_are_fine() {
    // control: cut == whole frame is not a split at all (first wakeup delivers nothing
    // only if cut < len, so use the general harness with frames arriving whole)
    let big = body_frame(2, &[7u8; 5000]);
    let hb = heartbeat_frame();
    let mut s = Script(
        vec![
            Step::Data(big),
            Step::WouldBlock,
            Step::Data(hb),
            Step::WouldBlock,
        ]
        .into(),
    );
    let mut fb = FrameBuffer::new();
    assert_eq!(wakeup(&mut fb, &mut s), vec![AMQPFrame::Body(2, vec![7u8; 5000])]);
    assert_eq!(wakeup(&mut fb, &mut s), vec![AMQPFrame::Heartbeat(0)]);
}
