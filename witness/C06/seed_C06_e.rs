//@host src/lib.rs
// witness scenario from seeded change C06-e (independent sub-agent demonstration); passes on the unchanged tree
//! C06 demonstration: what the client does with a stream of frames must not depend on how the
//! bytes of that stream are cut into reads.
//!
//! Everything here goes through the public API (`Connection::insecure_open_stream`,
//! `Connection::open_channel`, `Channel::basic_get`) on top of an in-memory `IoStream`. The
//! in-memory stream hands the I/O thread exactly one scripted piece per `read()` call (or a
//! would-block), so the segmentation seen by the client is fully determined by the test and
//! not by timing. The test thread plays the server: it walks the client through the AMQP
//! handshake (negotiating a chosen frame_max), answers channel.open, and answers basic.get
//! with get-ok + content header + one content body frame, cut as requested.
//!
//! Every wait has a deadline, so a broken library makes these tests FAIL, not hang. Client
//! objects are `mem::forget`-ed so that nothing tries to talk to the "server" on drop.

use crate::serialize::OutputBuffer;
use crate::{Auth, Connection, ConnectionOptions, ConnectionTuning, FieldTable, IoStream};
use amq_protocol::frame::{parse_frame, AMQPFrame};
use amq_protocol::protocol::basic::AMQPMethod as AmqpBasic;
use amq_protocol::protocol::basic::{AMQPProperties, GetOk};
use amq_protocol::protocol::channel::AMQPMethod as AmqpChannel;
use amq_protocol::protocol::channel::OpenOk as ChannelOpenOk;
use amq_protocol::protocol::connection::AMQPMethod as AmqpConnection;
use amq_protocol::protocol::connection::{OpenOk, Start, Tune};
use amq_protocol::protocol::AMQPClass;
use mio::{Evented, Poll, PollOpt, Ready, Registration, SetReadiness, Token};
use std::collections::VecDeque;
use std::io::{self, Read, Write};
use std::sync::mpsc;
use std::sync::{Arc, Condvar, Mutex};
use std::thread;
use std::time::{Duration, Instant};

const DEADLINE: Duration = Duration::from_secs(20);
const TICK: Duration = Duration::from_millis(2);

// ---------------------------------------------------------------------------------------------
// in-memory stream
// ---------------------------------------------------------------------------------------------

#[derive(Default)]
struct Shared {
    // One entry per read() call of the client: Some(bytes) is returned as is, None makes that
    // read() return WouldBlock. An empty queue is WouldBlock as well.
    to_client: VecDeque<Option<Vec<u8>>>,
    from_client: Vec<u8>,
}

#[derive(Default)]
struct Wire {
    shared: Mutex<Shared>,
    cv: Condvar,
}

struct ClientEnd {
    wire: Arc<Wire>,
    registration: Registration,
}

impl Read for ClientEnd {
    fn read(&mut self, buf: &mut [u8]) -> io::Result<usize> {
        let mut shared = self.wire.shared.lock().unwrap();
        match shared.to_client.pop_front() {
            Some(Some(piece)) => {
                // The client always offers at least 4096 bytes; the scripts below never use
                // bigger pieces, so one piece is exactly one read.
                assert!(piece.len() <= buf.len(), "scripted piece larger than read buffer");
                buf[..piece.len()].copy_from_slice(&piece);
                Ok(piece.len())
            }
            Some(None) | None => Err(io::Error::new(io::ErrorKind::WouldBlock, "would block")),
        }
    }
}

impl Write for ClientEnd {
    fn write(&mut self, buf: &[u8]) -> io::Result<usize> {
        let mut shared = self.wire.shared.lock().unwrap();
        shared.from_client.extend_from_slice(buf);
        self.wire.cv.notify_all();
        Ok(buf.len())
    }

    fn flush(&mut self) -> io::Result<()> {
        Ok(())
    }
}

impl Evented for ClientEnd {
    fn register(&self, poll: &Poll, token: Token, interest: Ready, opts: PollOpt) -> io::Result<()> {
        Evented::register(&self.registration, poll, token, interest, opts)
    }

    fn reregister(&self, poll: &Poll, token: Token, interest: Ready, opts: PollOpt) -> io::Result<()> {
        Evented::reregister(&self.registration, poll, token, interest, opts)
    }

    fn deregister(&self, poll: &Poll) -> io::Result<()> {
        Evented::deregister(&self.registration, poll)
    }
}

impl IoStream for ClientEnd {}

struct ServerEnd {
    wire: Arc<Wire>,
    set_readiness: SetReadiness,
}

fn mem_stream() -> (ClientEnd, ServerEnd) {
    let wire = Arc::new(Wire::default());
    let (registration, set_readiness) = Registration::new2();
    let client = ClientEnd {
        wire: Arc::clone(&wire),
        registration,
    };
    let server = ServerEnd { wire, set_readiness };
    server.kick();
    (client, server)
}

impl ServerEnd {
    // (Re-)announce "readable and writable". Spurious wake-ups are harmless for the client (a
    // read that would block, a write of nothing), and announcing over and over while we wait
    // keeps the demonstration independent of the exact edge-trigger bookkeeping.
    fn kick(&self) {
        self.set_readiness
            .set_readiness(Ready::readable() | Ready::writable())
            .unwrap();
    }

    fn push(&self, piece: Option<Vec<u8>>) {
        self.wire.shared.lock().unwrap().to_client.push_back(piece);
        self.kick();
    }

    fn push_bytes(&self, bytes: &[u8]) {
        self.push(Some(bytes.to_vec()));
    }

    // Wait until the client has written at least n bytes, and take exactly n.
    fn expect_bytes(&self, n: usize, what: &str) -> Result<Vec<u8>, String> {
        let start = Instant::now();
        let mut shared = self.wire.shared.lock().unwrap();
        while shared.from_client.len() < n {
            if start.elapsed() > DEADLINE {
                return Err(format!("timed out waiting for the client to send {}", what));
            }
            let (guard, _) = self.wire.cv.wait_timeout(shared, TICK).unwrap();
            shared = guard;
            self.kick();
        }
        Ok(shared.from_client.drain(..n).collect())
    }

    fn expect_frame(&self, what: &str) -> Result<AMQPFrame, String> {
        let head = self.expect_bytes(7, what)?;
        let size = u32::from_be_bytes([head[3], head[4], head[5], head[6]]) as usize;
        let mut all = head;
        all.extend(self.expect_bytes(size + 1, what)?);
        match parse_frame(&all) {
            Ok((rest, frame)) if rest.is_empty() => Ok(frame),
            _ => Err(format!("client sent an unparsable frame while expecting {}", what)),
        }
    }
}

// ---------------------------------------------------------------------------------------------
// scenario: handshake, channel.open, basic.get answered with a message cut into given pieces
// ---------------------------------------------------------------------------------------------

fn method_bytes<M: crate::serialize::IntoAmqpClass>(channel_id: u16, method: M) -> Vec<u8> {
    let mut buf = OutputBuffer::empty();
    buf.push_method(channel_id, method);
    buf[0..].to_vec()
}

fn body_of(len: usize) -> Vec<u8> {
    (0..len).map(|i| (i % 251) as u8).collect()
}

// The server's answer to basic.get: get-ok, content header, ONE content body frame.
// Returns (bytes of the stream, offset at which the body frame starts).
fn get_reply_stream(body: &[u8]) -> (Vec<u8>, usize) {
    let mut buf = OutputBuffer::empty();
    buf.push_method(
        1,
        AmqpBasic::GetOk(GetOk {
            delivery_tag: 1,
            redelivered: false,
            exchange: "".to_string(),
            routing_key: "q".to_string(),
            message_count: 0,
        }),
    );
    buf.push_content_header(1, 60, body.len(), &AMQPProperties::default());
    let body_frame_at = buf.len();
    buf.push_content_body(1, body);
    (buf[0..].to_vec(), body_frame_at)
}

// A cut is a list of piece lengths, consumed from the front of the stream; 0 means "the next
// read() would block"; whatever is left over after the list goes out as a last piece (split
// into 4096-byte reads if necessary).
fn cut(stream: &[u8], pieces: &[usize]) -> Vec<Option<Vec<u8>>> {
    let mut out = Vec::new();
    let mut rest = stream;
    for &len in pieces {
        if len == 0 {
            out.push(None);
        } else if !rest.is_empty() {
            let len = usize::min(len, rest.len());
            out.push(Some(rest[..len].to_vec()));
            rest = &rest[len..];
        }
    }
    for piece in rest.chunks(4096) {
        out.push(Some(piece.to_vec()));
    }
    out
}

// What the application saw as the outcome of basic_get.
type Outcome = Result<Vec<u8>, String>;

fn run_scenario(server_frame_max: u32, body: &[u8], pieces: &[usize]) -> Outcome {
    let (client_end, server) = mem_stream();
    let (result_tx, result_rx) = mpsc::channel::<Outcome>();

    thread::spawn(move || {
        let outcome = (|| -> Outcome {
            let mut conn = Connection::insecure_open_stream(
                client_end,
                ConnectionOptions::<Auth>::default(),
                ConnectionTuning::default(),
            )
            .map_err(|e| format!("open failed: {}", e))?;
            let chan = conn
                .open_channel(Some(1))
                .map_err(|e| format!("open_channel failed: {}", e))?;
            let got = chan.basic_get("q", true);
            let outcome = match got {
                Ok(Some(get)) => Ok(get.delivery.body.clone()),
                Ok(None) => Err("basic_get returned no message".to_string()),
                // The I/O thread is gone: closing the connection cannot block, and tells us
                // how the I/O thread ended.
                Err(crate::Error::EventLoopDropped) => {
                    std::mem::forget(chan);
                    return Err(format!(
                        "basic_get failed because the connection ended: {:?}",
                        conn.close()
                    ));
                }
                Err(e) => Err(format!("basic_get failed: {}", e)),
            };
            std::mem::forget(chan);
            std::mem::forget(conn);
            outcome
        })();
        let _ = result_tx.send(outcome);
    });

    // --- server side -------------------------------------------------------------------------
    let header = server.expect_bytes(8, "the protocol header")?;
    assert_eq!(&header[..], b"AMQP\x00\x00\x09\x01");

    server.push_bytes(&method_bytes(
        0,
        AmqpConnection::Start(Start {
            version_major: 0,
            version_minor: 9,
            server_properties: FieldTable::new(),
            mechanisms: "PLAIN".to_string(),
            locales: "en_US".to_string(),
        }),
    ));
    server.expect_frame("start-ok")?;

    server.push_bytes(&method_bytes(
        0,
        AmqpConnection::Tune(Tune {
            channel_max: 0,
            frame_max: server_frame_max,
            heartbeat: 0,
        }),
    ));
    server.expect_frame("tune-ok")?;
    server.expect_frame("open")?;
    server.push_bytes(&method_bytes(
        0,
        AmqpConnection::OpenOk(OpenOk {
            known_hosts: "".to_string(),
        }),
    ));

    match server.expect_frame("channel.open")? {
        AMQPFrame::Method(1, AMQPClass::Channel(AmqpChannel::Open(_))) => (),
        other => return Err(format!("expected channel.open, got {:?}", other)),
    }
    server.push_bytes(&method_bytes(
        1,
        AmqpChannel::OpenOk(ChannelOpenOk {
            channel_id: "".to_string(),
        }),
    ));

    match server.expect_frame("basic.get")? {
        AMQPFrame::Method(1, AMQPClass::Basic(AmqpBasic::Get(_))) => (),
        other => return Err(format!("expected basic.get, got {:?}", other)),
    }
    let (stream, _) = get_reply_stream(body);
    for piece in cut(&stream, pieces) {
        server.push(piece);
    }

    // --- wait for what the application saw (keep announcing readiness so that scripted
    // would-block points are passed) ------------------------------------------------------------
    let start = Instant::now();
    loop {
        match result_rx.recv_timeout(TICK) {
            Ok(outcome) => return outcome,
            Err(mpsc::RecvTimeoutError::Timeout) => {
                if start.elapsed() > DEADLINE {
                    return Err("timed out waiting for basic_get to return".to_string());
                }
                server.kick();
            }
            Err(mpsc::RecvTimeoutError::Disconnected) => {
                return Err("client thread died".to_string());
            }
        }
    }
}

// Short failure messages instead of a dump of the body.
fn assert_delivered(got: &Outcome, body: &[u8], context: &str) {
    match got {
        Ok(bytes) if &bytes[..] == body => (),
        Ok(bytes) => panic!(
            "{}: application got a different body ({} bytes instead of {})",
            context,
            bytes.len(),
            body.len()
        ),
        Err(err) => panic!(
            "{}: application did not get the {}-byte message: {}",
            context,
            body.len(),
            err
        ),
    }
}

// The smallest frame_max AMQP allows a server to advertise is 4096; 8192 keeps the numbers
// small. A body of FRAME_MAX - 8 bytes makes a body frame of exactly FRAME_MAX bytes, which is
// what a broker sends for every message that does not fit into one frame.
const FRAME_MAX: u32 = 8192;
const FULL_BODY: usize = FRAME_MAX as usize - 8;

// ---------------------------------------------------------------------------------------------
// controls: pass with and without the change
// ---------------------------------------------------------------------------------------------

// The full-size frame in as few reads as the 4096-byte read quantum allows for its head: one
// read of 4096 bytes (get-ok, header, head of the body frame), one read with all the rest.
#[test]
fn control_full_size_frame_in_two_reads() {
    let body = body_of(FULL_BODY);
    let (stream, _) = get_reply_stream(&body);
    let rest = stream.len() - 4096;
    assert!(rest <= FRAME_MAX as usize);
    // one explicit piece for the rest, so that it is not split into 4096-byte reads
    let got = run_scenario(FRAME_MAX, &body, &[4096, rest]);
    assert_delivered(&got, &body, "cut [4096, rest]");
}

// A frame of three quarters of frame_max, cut into many small reads with would-block points.
#[test]
fn control_medium_frame_in_many_reads() {
    let body = body_of(6000);
    let mut pieces = Vec::new();
    for _ in 0..20 {
        pieces.push(500);
        pieces.push(0);
    }
    let got = run_scenario(FRAME_MAX, &body, &pieces);
    assert_delivered(&got, &body, "cut into 500-byte reads");
}

// The same bytes and the same cut as in the failing demonstration below, but with the default
// frame_max (128 KiB) negotiated.
#[test]
fn control_same_cut_with_large_negotiated_frame_max() {
    let body = body_of(FULL_BODY);
    let got = run_scenario(1 << 17, &body, &[4096, 2000]);
    assert_delivered(&got, &body, "frame_max 131072, cut [4096, 2000, rest]");
}

// ---------------------------------------------------------------------------------------------
// demonstrations: pass on the unmodified library, fail with the change
// ---------------------------------------------------------------------------------------------

// Same stream as control_full_size_frame_in_two_reads, but the tail of the body frame arrives
// in two reads instead of one.
#[test]
fn full_size_frame_in_three_reads() {
    let body = body_of(FULL_BODY);
    let got = run_scenario(FRAME_MAX, &body, &[4096, 2000]);
    assert_delivered(&got, &body, "cut [4096, 2000, rest]");
}

// Same again, with a would-block between the reads.
#[test]
fn full_size_frame_in_three_reads_with_would_block() {
    let body = body_of(FULL_BODY);
    let got = run_scenario(FRAME_MAX, &body, &[4096, 0, 2000, 0]);
    assert_delivered(&got, &body, "cut [4096, would-block, 2000, would-block, rest]");
}

// The application must see the same thing for every cut of one and the same byte stream.
#[test]
fn outcome_is_the_same_for_every_cut() {
    let body = body_of(FULL_BODY);
    let (stream, _) = get_reply_stream(&body);
    let reference = run_scenario(FRAME_MAX, &body, &[4096, stream.len() - 4096]);
    assert_delivered(&reference, &body, "reference cut [4096, rest]");

    let cuts: Vec<Vec<usize>> = vec![
        vec![1, 6, 1, 4096],
        vec![1000; 9],
        vec![4096, 1, 4096],
        vec![4096, 1000, 1000, 1000],
        vec![3000, 0, 3000, 0, 1000, 0, 1000],
        vec![4096, 4000, 100, 10, 1],
    ];
    for pieces in cuts {
        let got = run_scenario(FRAME_MAX, &body, &pieces);
        assert_delivered(&got, &body, &format!("stream cut as {:?}", pieces));
    }
}
