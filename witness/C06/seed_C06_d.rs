//@host src/lib.rs
// witness scenario from seeded change C06-d (independent sub-agent demonstration); passes on the unchanged tree
// Demonstration for seed C06d.
//
// Property C06: the frames the client acts on are a function of the bytes received only, not of
// how the byte stream is cut into reads / would-block points; a frame is handed on as soon as its
// last byte has arrived, and an end of stream (or a malformed frame) only stops the frames that
// come AFTER it.
//
// Everything below drives the real client (Connection::insecure_open_stream, the real I/O thread,
// the real FrameBuffer) over an in-memory scripted broker. Each scenario is run twice with
// byte-for-byte identical server streams; the only difference is whether a would-block point
// separates the last frame from what follows it (end of stream / garbage).
use crate::serialize::OutputBuffer;
use crate::{Auth, Connection, ConnectionOptions, ConnectionTuning, Error, QueueDeclareOptions};
use amq_protocol::protocol::channel::AMQPMethod as AmqpChannel;
use amq_protocol::protocol::channel::OpenOk as ChannelOpenOk;
use amq_protocol::protocol::connection::AMQPMethod as AmqpConnection;
use amq_protocol::protocol::connection::{Close, CloseOk, OpenOk, Start, Tune};
use amq_protocol::protocol::queue::AMQPMethod as AmqpQueue;
use amq_protocol::protocol::queue::DeclareOk;
use amq_protocol::types::FieldTable;
use mio::{Evented, Poll, PollOpt, Ready, Registration, SetReadiness, Token};
use std::collections::VecDeque;
use std::io::{self, Read, Write};
use std::sync::mpsc;
use std::thread;
use std::time::Duration;

const WATCHDOG: Duration = Duration::from_secs(20);

/// What follows the server's last frame.
#[derive(Clone, Copy, Debug)]
enum After {
    /// The server closes its socket.
    Eof,
    /// The server sends 8 bytes that are not a frame (bad frame-end octet).
    Garbage,
}

/// Is there a would-block point between the last frame and what follows it?
#[derive(Clone, Copy, Debug, PartialEq)]
enum Cut {
    /// last frame, would-block, then EOF/garbage: two wake-ups of the I/O loop.
    Separate,
    /// last frame immediately followed by EOF/garbage: one wake-up of the I/O loop.
    Contiguous,
}

/// How the broker answers queue.declare.
#[derive(Clone, Copy, Debug)]
enum OnDeclare {
    DeclareOk,
    /// connection.close(320), followed by `After`.
    ConnectionClose(After),
}

#[derive(Clone, Copy, Debug)]
struct Scenario {
    on_declare: OnDeclare,
    /// what follows the connection.close-ok answering the client's connection.close
    after_close_ok: After,
    cut: Cut,
}

enum Item {
    Bytes(Vec<u8>),
    WouldBlock,
    Eof,
}

/// In-memory broker: parses what the client writes and scripts what the client will read.
struct ScriptedBroker {
    registration: Registration,
    set_readiness: SetReadiness,
    scenario: Scenario,
    seen_protocol_header: bool,
    inbox: Vec<u8>,
    script: VecDeque<Item>,
}

fn method_bytes<M: crate::serialize::IntoAmqpClass>(channel_id: u16, method: M) -> Vec<u8> {
    let mut buf = OutputBuffer::empty();
    buf.push_method(channel_id, method);
    buf[0..].to_vec()
}

impl ScriptedBroker {
    fn new(scenario: Scenario) -> ScriptedBroker {
        let (registration, set_readiness) = Registration::new2();
        ScriptedBroker {
            registration,
            set_readiness,
            scenario,
            seen_protocol_header: false,
            inbox: Vec::new(),
            script: VecDeque::new(),
        }
    }

    fn wake(&self) {
        self.set_readiness
            .set_readiness(Ready::readable() | Ready::writable())
            .unwrap();
    }

    fn push_bytes(&mut self, bytes: Vec<u8>) {
        // adjacent bytes are delivered by one read() as far as the caller's buffer allows
        if let Some(Item::Bytes(last)) = self.script.back_mut() {
            last.extend_from_slice(&bytes);
        } else {
            self.script.push_back(Item::Bytes(bytes));
        }
    }

    fn push_would_block(&mut self) {
        self.script.push_back(Item::WouldBlock);
    }

    fn push_after(&mut self, after: After) {
        if self.scenario.cut == Cut::Separate {
            self.push_would_block();
        }
        match after {
            After::Eof => self.script.push_back(Item::Eof),
            After::Garbage => {
                // type 1, channel 0, size 0, but 0x00 where the frame-end octet 0xCE belongs
                self.push_bytes(vec![1, 0, 0, 0, 0, 0, 0, 0]);
                self.push_would_block();
            }
        }
    }

    fn on_method(&mut self, channel_id: u16, class_id: u16, method_id: u16) {
        match (class_id, method_id) {
            // connection.start-ok
            (10, 11) => {
                let tune = Tune {
                    channel_max: 2047,
                    frame_max: 131_072,
                    heartbeat: 0,
                };
                self.push_bytes(method_bytes(0, AmqpConnection::Tune(tune)));
                self.push_would_block();
            }
            // connection.tune-ok
            (10, 31) => {}
            // connection.open
            (10, 40) => {
                let open_ok = OpenOk {
                    known_hosts: String::new(),
                };
                self.push_bytes(method_bytes(0, AmqpConnection::OpenOk(open_ok)));
                self.push_would_block();
            }
            // connection.close
            (10, 50) => {
                self.push_bytes(method_bytes(0, AmqpConnection::CloseOk(CloseOk {})));
                let after = self.scenario.after_close_ok;
                self.push_after(after);
            }
            // connection.close-ok
            (10, 51) => {}
            // channel.open
            (20, 10) => {
                let open_ok = ChannelOpenOk {
                    channel_id: String::new(),
                };
                self.push_bytes(method_bytes(channel_id, AmqpChannel::OpenOk(open_ok)));
                self.push_would_block();
            }
            // queue.declare
            (50, 10) => match self.scenario.on_declare {
                OnDeclare::DeclareOk => {
                    let declare_ok = DeclareOk {
                        queue: "q".to_string(),
                        message_count: 0,
                        consumer_count: 0,
                    };
                    self.push_bytes(method_bytes(channel_id, AmqpQueue::DeclareOk(declare_ok)));
                    self.push_would_block();
                }
                OnDeclare::ConnectionClose(after) => {
                    let close = Close {
                        reply_code: 320,
                        reply_text: "CONNECTION_FORCED".to_string(),
                        class_id: 0,
                        method_id: 0,
                    };
                    self.push_bytes(method_bytes(0, AmqpConnection::Close(close)));
                    self.push_after(after);
                }
            },
            other => panic!("scripted broker: unexpected method {:?}", other),
        }
    }

    fn digest_inbox(&mut self) {
        if !self.seen_protocol_header {
            if self.inbox.len() < 8 {
                return;
            }
            assert_eq!(&self.inbox[..8], b"AMQP\x00\x00\x09\x01");
            self.inbox.drain(..8);
            self.seen_protocol_header = true;
            let start = Start {
                version_major: 0,
                version_minor: 9,
                server_properties: FieldTable::new(),
                mechanisms: "PLAIN".to_string(),
                locales: "en_US".to_string(),
            };
            self.push_bytes(method_bytes(0, AmqpConnection::Start(start)));
            self.push_would_block();
        }
        loop {
            if self.inbox.len() < 7 {
                return;
            }
            let size = u32::from_be_bytes([
                self.inbox[3],
                self.inbox[4],
                self.inbox[5],
                self.inbox[6],
            ]) as usize;
            if self.inbox.len() < size + 8 {
                return;
            }
            let frame: Vec<u8> = self.inbox.drain(..size + 8).collect();
            assert_eq!(frame[size + 7], 0xCE);
            if frame[0] == 1 {
                let channel_id = u16::from_be_bytes([frame[1], frame[2]]);
                let class_id = u16::from_be_bytes([frame[7], frame[8]]);
                let method_id = u16::from_be_bytes([frame[9], frame[10]]);
                self.on_method(channel_id, class_id, method_id);
            }
        }
    }
}

impl Read for ScriptedBroker {
    fn read(&mut self, buf: &mut [u8]) -> io::Result<usize> {
        match self.script.pop_front() {
            None => Err(io::ErrorKind::WouldBlock.into()),
            Some(Item::WouldBlock) => {
                if !self.script.is_empty() {
                    // more to come: the socket becomes readable again
                    self.wake();
                }
                Err(io::ErrorKind::WouldBlock.into())
            }
            Some(Item::Eof) => {
                self.script.push_front(Item::Eof);
                Ok(0)
            }
            Some(Item::Bytes(mut bytes)) => {
                let n = usize::min(buf.len(), bytes.len());
                buf[..n].copy_from_slice(&bytes[..n]);
                bytes.drain(..n);
                if !bytes.is_empty() {
                    self.script.push_front(Item::Bytes(bytes));
                }
                Ok(n)
            }
        }
    }
}

impl Write for ScriptedBroker {
    fn write(&mut self, buf: &[u8]) -> io::Result<usize> {
        self.inbox.extend_from_slice(buf);
        self.digest_inbox();
        if !self.script.is_empty() {
            self.wake();
        }
        Ok(buf.len())
    }

    fn flush(&mut self) -> io::Result<()> {
        Ok(())
    }
}

impl Evented for ScriptedBroker {
    fn register(
        &self,
        poll: &Poll,
        token: Token,
        interest: Ready,
        opts: PollOpt,
    ) -> io::Result<()> {
        self.registration.register(poll, token, interest, opts)?;
        // a fresh socket is writable
        self.set_readiness.set_readiness(Ready::writable())
    }

    fn reregister(
        &self,
        poll: &Poll,
        token: Token,
        interest: Ready,
        opts: PollOpt,
    ) -> io::Result<()> {
        self.registration.reregister(poll, token, interest, opts)
    }

    fn deregister(&self, poll: &Poll) -> io::Result<()> {
        #[allow(deprecated)]
        self.registration.deregister(poll)
    }
}

impl crate::IoStream for ScriptedBroker {}

/// Run `f` on its own thread; panic (instead of hanging) if it does not finish.
fn with_watchdog<T: Send + 'static, F: FnOnce() -> T + Send + 'static>(f: F) -> T {
    let (tx, rx) = mpsc::channel();
    thread::spawn(move || {
        let _ = tx.send(f());
    });
    rx.recv_timeout(WATCHDOG)
        .expect("scenario hung or panicked (watchdog)")
}

fn open(scenario: Scenario) -> Connection {
    Connection::insecure_open_stream(
        ScriptedBroker::new(scenario),
        ConnectionOptions::<Auth>::default(),
        ConnectionTuning::default(),
    )
    .expect("handshake with the scripted broker failed")
}

/// open, open a channel, declare a queue, close. Returns (result of declare, result of close)
/// rendered as strings (Error is neither Clone nor PartialEq).
fn run(scenario: Scenario) -> (String, String) {
    with_watchdog(move || {
        let mut connection = open(scenario);
        let channel = connection.open_channel(None).expect("open_channel failed");
        let declared = match channel.queue_declare("q", QueueDeclareOptions::default()) {
            Ok(queue) => {
                let s = format!("Ok({})", queue.name());
                std::mem::forget(queue);
                s
            }
            Err(Error::ServerClosedConnection { code, message }) => {
                format!("ServerClosedConnection({}, {})", code, message)
            }
            Err(err) => format!("other error: {:?}", err),
        };
        // never let Drop talk to a broker that may not answer
        std::mem::forget(channel);
        let closed = match connection.close() {
            Ok(()) => "Ok".to_string(),
            Err(err) => format!("{:?}", err),
        };
        (declared, closed)
    })
}

// ---------------------------------------------------------------------------------------------
// Scenario 1: client-initiated close. The broker answers connection.close with close-ok and then
// closes its socket. The close handshake is complete once close-ok has been received, whatever
// the socket does afterwards.
// ---------------------------------------------------------------------------------------------

fn clean_close(cut: Cut) -> Scenario {
    Scenario {
        on_declare: OnDeclare::DeclareOk,
        after_close_ok: After::Eof,
        cut,
    }
}

/// CONTROL (passes with and without the change): close-ok, would-block, end of stream.
#[test]
fn control_close_ok_then_would_block_then_eof() {
    let (declared, closed) = run(clean_close(Cut::Separate));
    assert_eq!(declared, "Ok(q)");
    assert_eq!(closed, "Ok");
}

/// Same bytes, but the end of stream is seen by the same wake-up that reads close-ok.
#[test]
fn close_ok_immediately_followed_by_eof() {
    let (declared, closed) = run(clean_close(Cut::Contiguous));
    assert_eq!(declared, "Ok(q)");
    assert_eq!(
        closed, "Ok",
        "close-ok had fully arrived before the end of stream and must have been acted on"
    );
}

// ---------------------------------------------------------------------------------------------
// Scenario 2: server-initiated close. The broker answers queue.declare with
// connection.close(320) and then closes its socket / sends garbage. The waiting channel must be
// told about the server's close in either segmentation.
// ---------------------------------------------------------------------------------------------

fn server_close(after: After, cut: Cut) -> Scenario {
    Scenario {
        on_declare: OnDeclare::ConnectionClose(after),
        after_close_ok: After::Eof,
        cut,
    }
}

/// CONTROL (passes with and without the change).
#[test]
fn control_server_close_then_would_block_then_eof() {
    let (declared, _) = run(server_close(After::Eof, Cut::Separate));
    assert_eq!(declared, "ServerClosedConnection(320, CONNECTION_FORCED)");
}

/// CONTROL (passes with and without the change).
#[test]
fn control_server_close_then_would_block_then_garbage() {
    let (declared, _) = run(server_close(After::Garbage, Cut::Separate));
    assert_eq!(declared, "ServerClosedConnection(320, CONNECTION_FORCED)");
}

#[test]
fn server_close_immediately_followed_by_eof() {
    let (declared, _) = run(server_close(After::Eof, Cut::Contiguous));
    assert_eq!(
        declared, "ServerClosedConnection(320, CONNECTION_FORCED)",
        "connection.close had fully arrived before the end of stream and must have been acted on"
    );
}

#[test]
fn server_close_immediately_followed_by_garbage() {
    let (declared, _) = run(server_close(After::Garbage, Cut::Contiguous));
    assert_eq!(
        declared, "ServerClosedConnection(320, CONNECTION_FORCED)",
        "connection.close had fully arrived before the malformed frame and must have been acted on"
    );
}

/// The statement itself: identical streams cut differently give identical client reactions.
#[test]
fn reaction_does_not_depend_on_the_cut() {
    for after in [After::Eof, After::Garbage] {
        let separate = run(server_close(after, Cut::Separate)).0;
        let contiguous = run(server_close(after, Cut::Contiguous)).0;
        assert_eq!(separate, contiguous, "server close followed by {:?}", after);
    }
    let separate = run(clean_close(Cut::Separate));
    let contiguous = run(clean_close(Cut::Contiguous));
    assert_eq!(separate, contiguous, "close-ok followed by end of stream");
}
