//@host src/io_loop/mod.rs
//@quick (time-outs only matter when something hangs: also runs in the quick tier, labelled bounded)
// C08 / C05 bounded stand-in, end to end through the public API (real I/O thread, in-memory broker).  Session states at the moment the
// connection ends: 0..2 extra open channels, 0..2 consumers, a call in flight on another thread or not; ways it ends:
//   client close, answered by CloseOk (with and without the broker hanging up right behind it);
//   server Connection.Close(code, text);
//   transport end of stream; malformed data; a protocol violation by the server that the client answers with an exception (frame on an
//   unknown channel is fatal, content on channel 0 is a client exception).
// Oracle = the properties: client close -> Connection.Close(200, "goodbye") is the last frame the client writes, close() returns Ok, every
// still-open channel's next call fails with ClientClosedConnection and every consumer gets ClientClosedConnection; server close -> CloseOk is
// the last frame the client writes, next calls fail with ServerClosedConnection(code, text), consumers get the same, Connection::close returns
// that error; a dying connection -> every call in flight and every later call returns an error in bounded time, every consumer queue
// terminates (is disconnected), Connection::close reports the root cause.  Nothing submitted after the close point is written.
// Bound: the state grid below (the count is printed); timeouts only matter when something hangs.
include!("/verif/witness/_common/live_broker.rs");
use crate::{Auth, Channel, Connection, ConnectionOptions, ConnectionTuning, ConsumerMessage, ConsumerOptions, Error};
use std::thread;

const T: Duration = Duration::from_secs(10);

#[derive(Debug, Clone, Copy, PartialEq)]
enum End {
    ClientClose { hang_up_behind: bool },
    /// another thread keeps submitting while the close is waiting for CloseOk
    ClientCloseWithLateSubmissions,
    /// the server's own Connection.Close crosses the client's
    ClientCloseMeetsServerClose,
    ServerClose,
    Eof,
    /// a last frame and the end of stream become visible together
    FrameThenEof,
    Malformed,
    /// the socket reports an error on the next read / on the next write (a call makes the client write)
    ReadError,
    WriteError,
    BogusChannel,
    ContentOnChannel0,
}

fn drain_consumer(what: &str, rx: &crossbeam_channel::Receiver<ConsumerMessage>) -> Vec<String> {
    let mut seen = Vec::new();
    loop {
        match rx.recv_timeout(T) {
            Ok(m) => seen.push(format!("{:?}", m)),
            Err(crossbeam_channel::RecvTimeoutError::Disconnected) => return seen,
            Err(crossbeam_channel::RecvTimeoutError::Timeout) => panic!("{}: consumer queue neither terminated nor disconnected (saw {:?})", what, seen),
        }
    }
}

fn run(end: End, channels: usize, consumers: usize, call_in_flight: bool) {
    let what = format!("{:?} channels={} consumers={} call_in_flight={}", end, channels, consumers, call_in_flight);
    let ctl = Handle::new();
    let mut connection = Connection::insecure_open_stream(LiveBroker::new(ctl.clone()), ConnectionOptions::<Auth>::default().heartbeat(0), ConnectionTuning::default()).expect("handshake");
    let main_ch = connection.open_channel(Some(1)).unwrap();
    let mut extra: Vec<Channel> = (0..channels).map(|i| connection.open_channel(Some(2 + i as u16)).unwrap()).collect();
    let mut receivers = Vec::new();
    for i in 0..consumers {
        let c = main_ch.basic_consume(format!("q{}", i), ConsumerOptions::default()).unwrap();
        receivers.push(c.receiver().clone());
        std::mem::forget(c);
    }
    // a call in flight on another thread (channel 9), never answered
    let flying = if call_in_flight {
        let ch9 = connection.open_channel(Some(9)).unwrap();
        ctl.withhold(9, 50, 30);
        let h = thread::spawn(move || {
            let r = ch9.queue_purge("q9");
            std::mem::forget(ch9);
            r
        });
        assert!(ctl.wait_for(|(n, f)| *n == 9 && matches!(f, AMQPFrame::Method(_, AMQPClass::Queue(Q::Purge(_)))), T), "{}: call never reached the broker", what);
        Some(h)
    } else {
        None
    };
    ctl.take_seen();

    // ---- the end
    let close_result = match end {
        End::ClientClose { hang_up_behind } => {
            if hang_up_behind {
                // CloseOk and end of stream arrive together
                ctl.withhold(0, 10, 50);
                let ctl2 = ctl.clone();
                let t = thread::spawn(move || {
                    assert!(ctl2.wait_for(|(n, f)| *n == 0 && matches!(f, AMQPFrame::Method(_, AMQPClass::Connection(AmqpConnection::Close(_)))), T), "Connection.Close never written");
                    ctl2.inject(method_bytes(0, AmqpConnection::CloseOk(connection_::CloseOk {})));
                    ctl2.close_socket();
                });
                let r = connection.close();
                t.join().unwrap();
                r
            } else {
                connection.close()
            }
        }
        End::ClientCloseWithLateSubmissions => {
            ctl.withhold(0, 10, 50);
            let late = connection.open_channel(Some(12)).unwrap();
            ctl.take_seen();
            let ctl2 = ctl.clone();
            let t = thread::spawn(move || {
                assert!(ctl2.wait_for(|(n, f)| *n == 0 && matches!(f, AMQPFrame::Method(_, AMQPClass::Connection(AmqpConnection::Close(_)))), T), "Connection.Close never written");
                // submissions behind the close point: a publish and a synchronous call
                let _ = late.basic_publish("", crate::Publish::new(b"too late", "k"));
                let r = late.queue_purge("late");
                assert!(r.is_err(), "a call submitted behind the close point returned Ok");
                std::mem::forget(late);
            });
            // let the submissions reach the I/O thread before the server answers
            let ctl3 = ctl.clone();
            let t2 = thread::spawn(move || {
                assert!(ctl3.wait_for(|(n, f)| *n == 0 && matches!(f, AMQPFrame::Method(_, AMQPClass::Connection(AmqpConnection::Close(_)))), T));
                thread::sleep(Duration::from_millis(150));
                ctl3.inject(method_bytes(0, AmqpConnection::CloseOk(connection_::CloseOk {})));
            });
            let r = connection.close();
            t.join().unwrap();
            t2.join().unwrap();
            r
        }
        End::ClientCloseMeetsServerClose => {
            ctl.withhold(0, 10, 50);
            let ctl2 = ctl.clone();
            let t = thread::spawn(move || {
                assert!(ctl2.wait_for(|(n, f)| *n == 0 && matches!(f, AMQPFrame::Method(_, AMQPClass::Connection(AmqpConnection::Close(_)))), T), "Connection.Close never written");
                ctl2.inject(method_bytes(0, AmqpConnection::Close(connection_::Close { reply_code: 320, reply_text: "CONNECTION_FORCED - bye".to_string(), class_id: 0, method_id: 0 })));
                thread::sleep(Duration::from_millis(100));
                ctl2.close_socket();
            });
            let r = connection.close();
            t.join().unwrap();
            r
        }
        End::FrameThenEof => {
            ctl.inject_then_close_socket(vec![8, 0, 0, 0, 0, 0, 0, 0xCE]);
            connection.close()
        }
        End::ServerClose => {
            ctl.inject(method_bytes(0, AmqpConnection::Close(connection_::Close { reply_code: 320, reply_text: "CONNECTION_FORCED - bye".to_string(), class_id: 0, method_id: 0 })));
            assert!(ctl.wait_for(|(n, f)| *n == 0 && matches!(f, AMQPFrame::Method(_, AMQPClass::Connection(AmqpConnection::CloseOk(_)))), T), "{}: no CloseOk written", what);
            // give the thread's end a moment to be observable through a failing call, then ask
            connection.close()
        }
        End::Eof => {
            ctl.close_socket();
            connection.close()
        }
        End::ReadError => {
            ctl.fail_reads();
            connection.close()
        }
        End::WriteError => {
            ctl.fail_writes();
            // something to write: a call from another thread (it must come back with an error, not hang)
            let victim = connection.open_channel(Some(13));
            assert!(victim.is_err(), "{}: a call whose request cannot be written returned Ok", what);
            connection.close()
        }
        End::Malformed => {
            ctl.inject(vec![1, 0, 1, 0, 0, 0, 4, 0xde, 0xad, 0xbe, 0xef, 0x00]); // a method frame whose frame-end octet is wrong
            connection.close()
        }
        End::BogusChannel => {
            ctl.inject(method_bytes(77, Q::PurgeOk(queue::PurgeOk { message_count: 1 })));
            connection.close()
        }
        End::ContentOnChannel0 => {
            ctl.inject(content_bytes(0, b"x"));
            connection.close()
        }
    };

    // ---- Connection::close reports the root cause
    match (end, &close_result) {
        (End::ClientClose { .. }, Ok(())) | (End::ClientCloseWithLateSubmissions, Ok(())) => {}
        (End::ClientCloseMeetsServerClose, Err(Error::ServerClosedConnection { code: 320, .. })) => {}
        (End::FrameThenEof, Err(Error::UnexpectedSocketClose)) => {}
        (End::ServerClose, Err(Error::ServerClosedConnection { code: 320, message })) if message == "CONNECTION_FORCED - bye" => {}
        (End::Eof, Err(Error::UnexpectedSocketClose)) => {}
        (End::Malformed, Err(Error::MalformedFrame)) => {}
        (End::ReadError, Err(Error::IoErrorReadingSocket { .. })) => {}
        (End::WriteError, Err(Error::IoErrorWritingSocket { .. })) => {}
        (End::BogusChannel, Err(Error::ReceivedFrameWithBogusChannelId { channel_id: 77 })) => {}
        (End::ContentOnChannel0, Err(Error::ClientException)) => {}
        (_, other) => panic!("{}: Connection::close returned {:?}", what, other.as_ref().map_err(|e| e.to_string())),
    }
    // ---- the call in flight returns an error in bounded time (close() has joined the I/O thread already)
    if let Some(h) = flying {
        let r = h.join().unwrap();
        match (end, &r) {
            (End::ClientClose { .. }, Err(Error::ClientClosedConnection)) | (End::ClientCloseWithLateSubmissions, Err(Error::ClientClosedConnection)) => {}
            (End::ServerClose, Err(Error::ServerClosedConnection { code: 320, .. })) | (End::ClientCloseMeetsServerClose, Err(Error::ServerClosedConnection { code: 320, .. })) => {}
            (End::ClientClose { .. }, other) | (End::ServerClose, other) | (End::ClientCloseWithLateSubmissions, other) | (End::ClientCloseMeetsServerClose, other) => panic!("{}: call in flight returned {:?}", what, other.as_ref().map_err(|e| e.to_string())),
            (_, Err(_)) => {}
            (_, Ok(v)) => panic!("{}: call in flight returned Ok({})", what, v),
        }
    }
    // ---- every still-open channel's next call fails (with the close's error for the two orderly closes)
    let mut all = vec![main_ch];
    all.append(&mut extra);
    for ch in &all {
        let r = ch.queue_purge("q");
        match (end, &r) {
            (End::ClientClose { .. }, Err(Error::ClientClosedConnection)) | (End::ClientCloseWithLateSubmissions, Err(Error::ClientClosedConnection)) => {}
            (End::ServerClose, Err(Error::ServerClosedConnection { code: 320, message })) | (End::ClientCloseMeetsServerClose, Err(Error::ServerClosedConnection { code: 320, message })) if message == "CONNECTION_FORCED - bye" => {}
            (End::ClientClose { .. }, other) | (End::ServerClose, other) | (End::ClientCloseWithLateSubmissions, other) | (End::ClientCloseMeetsServerClose, other) => panic!("{}: next call on channel {} returned {:?}", what, ch.channel_id(), other.as_ref().map_err(|e| e.to_string())),
            (_, Err(_)) => {}
            (_, Ok(v)) => panic!("{}: a call after the connection died returned Ok({})", what, v),
        }
        assert!(ch.queue_purge("q").is_err(), "{}: a later call succeeded", what);
    }
    // ---- every consumer queue terminates; after an orderly close with exactly the matching terminal message
    for rx in &receivers {
        let seen = drain_consumer(&what, rx);
        match end {
            End::ClientClose { .. } | End::ClientCloseWithLateSubmissions => assert_eq!(seen, vec!["ClientClosedConnection".to_string()], "{}: consumer saw", what),
            End::ServerClose | End::ClientCloseMeetsServerClose => {
                assert_eq!(seen.len(), 1, "{}: consumer saw {:?}", what, seen);
                assert!(seen[0].starts_with("ServerClosedConnection") && seen[0].contains("320") && seen[0].contains("CONNECTION_FORCED - bye"), "{}: consumer saw {:?}", what, seen);
            }
            _ => assert!(seen.len() <= 1, "{}: consumer saw more than one terminal message: {:?}", what, seen),
        }
    }
    // ---- what the client wrote from the close point on
    let written: Vec<(u16, AMQPFrame)> = ctl.take_seen();
    match end {
        End::ClientClose { .. } | End::ClientCloseWithLateSubmissions | End::ClientCloseMeetsServerClose => {
            // (nothing submitted behind the close point - late submissions, the server's crossing close, the calls above - may reach the wire)
            let last = written.last().unwrap_or_else(|| panic!("{}: nothing written", what));
            match last {
                (0, AMQPFrame::Method(_, AMQPClass::Connection(AmqpConnection::Close(c)))) => {
                    assert_eq!((c.reply_code, c.reply_text.as_str(), c.class_id, c.method_id), (200, "goodbye", 0, 0), "{}", what);
                }
                other => panic!("{}: the last frame written is {:?}, not Connection.Close", what, other),
            }
            assert_eq!(written.iter().filter(|(_, f)| matches!(f, AMQPFrame::Method(_, AMQPClass::Connection(AmqpConnection::Close(_))))).count(), 1, "{}", what);
        }
        End::ServerClose => {
            let last = written.last().unwrap_or_else(|| panic!("{}: nothing written", what));
            assert!(matches!(last, (0, AMQPFrame::Method(_, AMQPClass::Connection(AmqpConnection::CloseOk(_))))), "{}: the last frame written is {:?}, not CloseOk", what, last);
        }
        End::ContentOnChannel0 => {
            // the client answers the violation with Connection.Close carrying a hard error code, and writes nothing after it
            let last = written.last().unwrap_or_else(|| panic!("{}: nothing written", what));
            match last {
                (0, AMQPFrame::Method(_, AMQPClass::Connection(AmqpConnection::Close(c)))) => assert!(c.reply_code == 530 || c.reply_code == 540 || c.reply_code == 503 || c.reply_code == 504 || c.reply_code == 505, "{}: {:?}", what, c),
                other => panic!("{}: the last frame written is {:?}", what, other),
            }
        }
        _ => {}
    }
    for ch in all {
        std::mem::forget(ch);
    }
}

#[test]
fn verif_sweep_c08_c05_every_way_a_connection_ends() {
    let mut count = 0;
    for &end in &[End::ClientClose { hang_up_behind: false }, End::ClientClose { hang_up_behind: true }, End::ClientCloseWithLateSubmissions, End::ClientCloseMeetsServerClose, End::ServerClose, End::Eof, End::FrameThenEof, End::Malformed, End::ReadError, End::WriteError, End::BogusChannel, End::ContentOnChannel0] {
        for &channels in &[0usize, 2] {
            for &consumers in &[0usize, 2] {
                for &call_in_flight in &[false, true] {
                    with_watchdog(format!("{:?} channels={} consumers={} call_in_flight={}", end, channels, consumers, call_in_flight), 60, move || run(end, channels, consumers, call_in_flight));
                    count += 1;
                }
            }
        }
    }
    println!("C08/C05 sweep: {} scenarios", count);
}
