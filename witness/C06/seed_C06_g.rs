//@host src/io_loop/mod.rs
// witness scenario from seeded change C06-g (independent sub-agent demonstration); passes on the unchanged tree
// Demonstration for seed C06g.
//
// Property C06: the frames the client acts on are a function of the bytes received only, however
// they are cut into reads and wherever would-block occurs; a malformed frame / end of stream ends
// the connection *after* every frame in front of it has been acted on.
//
// The tests feed the same byte stream, cut in different ways, to the real read path
// (Inner::read_from_stream -> FrameBuffer -> ConnectionState::process), and end to end to a real
// Connection running on an in-memory IoStream, and compare the client's reaction.

use super::connection_state::ConnectionState;
use super::content_collector::ContentCollector;
use super::heartbeat_timers::HeartbeatTimers;
use super::{Channel0Slot, ChannelMessage, ChannelSlot, Inner};
use crate::frame_buffer::FrameBuffer;
use crate::serialize::OutputBuffer;
use crate::{Auth, Connection, ConnectionOptions, ConnectionTuning, Error, FieldTable, IoStream};
use amq_protocol::protocol::connection::AMQPMethod as AmqpConnection;
use amq_protocol::protocol::connection::{Close, CloseOk, OpenOk, Start, Tune};
use amq_protocol::protocol::queue::AMQPMethod as AmqpQueue;
use amq_protocol::protocol::queue::DeclareOk;
use mio::{Evented, Poll, PollOpt, Ready, Registration, SetReadiness, Token};
use mio_extras::channel::sync_channel as mio_sync_channel;
use std::collections::{HashMap, VecDeque};
use std::io;
use std::sync::mpsc;
use std::sync::{Arc, Mutex};
use std::thread;
use std::time::Duration;

// ---------------------------------------------------------------------------------------------
// Scripted in-memory stream
// ---------------------------------------------------------------------------------------------

#[derive(Clone, Debug)]
enum Step {
    // bytes that are available to read() right now
    Data(Vec<u8>),
    // one read() reports WouldBlock here (a cut in the segmentation)
    WouldBlock,
    // read() reports WouldBlock until the client has written something since the previous gate
    AwaitWrite,
    // end of stream
    Eof,
}

struct ScriptState {
    steps: VecDeque<Step>,
    writes: usize,
    writes_at_last_gate: usize,
}

struct ScriptStream {
    state: Arc<Mutex<ScriptState>>,
    registration: Registration,
    set_readiness: SetReadiness,
}

impl ScriptStream {
    fn new(steps: Vec<Step>) -> ScriptStream {
        let (registration, set_readiness) = Registration::new2();
        set_readiness
            .set_readiness(Ready::readable() | Ready::writable())
            .unwrap();
        ScriptStream {
            state: Arc::new(Mutex::new(ScriptState {
                steps: steps.into(),
                writes: 0,
                writes_at_last_gate: 0,
            })),
            registration,
            set_readiness,
        }
    }

    fn exhausted(&self) -> bool {
        self.state.lock().unwrap().steps.is_empty()
    }

    // wake the poller again: with edge-triggered registration every call yields one more event
    fn rearm(&self) {
        self.set_readiness
            .set_readiness(Ready::readable() | Ready::writable())
            .unwrap();
    }
}

impl io::Read for ScriptStream {
    fn read(&mut self, buf: &mut [u8]) -> io::Result<usize> {
        let would_block = || Err(io::Error::new(io::ErrorKind::WouldBlock, "would block"));
        let mut state = self.state.lock().unwrap();
        loop {
            match state.steps.pop_front() {
                None => return would_block(),
                Some(Step::Eof) => {
                    state.steps.push_front(Step::Eof);
                    return Ok(0);
                }
                Some(Step::WouldBlock) => {
                    drop(state);
                    self.rearm();
                    return would_block();
                }
                Some(Step::AwaitWrite) => {
                    if state.writes > state.writes_at_last_gate {
                        state.writes_at_last_gate = state.writes;
                        continue;
                    }
                    state.steps.push_front(Step::AwaitWrite);
                    return would_block();
                }
                Some(Step::Data(mut bytes)) => {
                    if bytes.is_empty() {
                        continue;
                    }
                    let n = usize::min(buf.len(), bytes.len());
                    buf[..n].copy_from_slice(&bytes[..n]);
                    if n < bytes.len() {
                        bytes.drain(..n);
                        state.steps.push_front(Step::Data(bytes));
                    }
                    return Ok(n);
                }
            }
        }
    }
}

impl io::Write for ScriptStream {
    fn write(&mut self, buf: &[u8]) -> io::Result<usize> {
        self.state.lock().unwrap().writes += 1;
        self.rearm();
        Ok(buf.len())
    }

    fn flush(&mut self) -> io::Result<()> {
        Ok(())
    }
}

impl Evented for ScriptStream {
    fn register(&self, poll: &Poll, token: Token, interest: Ready, opts: PollOpt) -> io::Result<()> {
        self.registration.register(poll, token, interest, opts)
    }

    fn reregister(
        &self,
        poll: &Poll,
        token: Token,
        interest: Ready,
        opts: PollOpt,
    ) -> io::Result<()> {
        self.registration.reregister(poll, token, interest, opts)
    }

    fn deregister(&self, poll: &Poll) -> io::Result<()> {
        poll.deregister(&self.registration)
    }
}

impl IoStream for ScriptStream {}

// ---------------------------------------------------------------------------------------------
// Frames
// ---------------------------------------------------------------------------------------------

fn method_bytes<M: crate::serialize::IntoAmqpClass>(channel_id: u16, method: M) -> Vec<u8> {
    let mut buf = OutputBuffer::empty();
    buf.push_method(channel_id, method);
    buf[0..].to_vec()
}

fn server_close() -> Vec<u8> {
    method_bytes(
        0,
        AmqpConnection::Close(Close {
            reply_code: 320,
            reply_text: "CONNECTION_FORCED - broker going down".to_string(),
            class_id: 0,
            method_id: 0,
        }),
    )
}

fn queue_declare_ok(channel_id: u16) -> Vec<u8> {
    method_bytes(
        channel_id,
        AmqpQueue::DeclareOk(DeclareOk {
            queue: "q".to_string(),
            message_count: 3,
            consumer_count: 1,
        }),
    )
}

// A frame with a correct size field but without the frame-end octet: cannot be parsed.
fn malformed_frame() -> Vec<u8> {
    let mut bytes = queue_declare_ok(1);
    let last = bytes.len() - 1;
    bytes[last] = 0x00;
    bytes
}

// ---------------------------------------------------------------------------------------------
// Part 1: the read path of the I/O loop driven directly
// ---------------------------------------------------------------------------------------------

// Everything a client could notice: what arrived on the handle of channel 1, the state of the
// connection, what is queued for the server, and how reading ended.
#[derive(Debug, PartialEq)]
struct Reaction {
    channel1_messages: Vec<String>,
    state: &'static str,
    writes_sealed: bool,
    bytes_queued: usize,
    end: Option<String>,
}

fn react(steps: Vec<Step>) -> Reaction {
    let mut inner = Inner::new(HeartbeatTimers::default(), 8);
    inner.chan_slots.set_channel_max(16);

    let (tx, channel1_rx) = crossbeam_channel::bounded(2);
    let (_channel1_tx, rx) = mio_sync_channel(8);
    let slot = ChannelSlot {
        rx,
        tx,
        collector: ContentCollector::new(1),
        consumers: HashMap::new(),
        return_handler: None,
        pub_confirm_handler: None,
    };
    inner
        .chan_slots
        .insert(Some(1), |_| Ok((slot, ())))
        .unwrap();

    let (ch0_slot, _ch0_handle) = Channel0Slot::new(8);
    let mut state = ConnectionState::Steady(ch0_slot);
    let mut frame_buffer = FrameBuffer::new();
    let mut stream = ScriptStream::new(steps);

    // one call per readable event, as handle_steady_event does
    let mut end = None;
    for _ in 0..10_000 {
        let result = inner.read_from_stream(&mut stream, &mut frame_buffer, |inner, frame| {
            state.process(inner, frame)
        });
        match result {
            Ok(()) if stream.exhausted() => break,
            Ok(()) => (),
            Err(err) => {
                end = Some(format!("{:?}", err));
                break;
            }
        }
    }

    let channel1_messages = channel1_rx
        .try_iter()
        .map(|message| match message {
            Ok(ChannelMessage::Method(method)) => format!("Ok({:?})", method),
            Ok(_) => "Ok(other)".to_string(),
            Err(err) => format!("Err({:?})", err),
        })
        .collect();

    Reaction {
        channel1_messages,
        state: match state {
            ConnectionState::Steady(_) => "Steady",
            ConnectionState::ServerClosing(_) => "ServerClosing",
            ConnectionState::ClientException => "ClientException",
            ConnectionState::ClientClosed => "ClientClosed",
        },
        writes_sealed: inner.are_writes_sealed(),
        bytes_queued: inner.outbuf.len(),
        end,
    }
}

// Server sends connection.close and closes its socket behind it. Whether the end of stream is
// seen by the same readable event as the frame or by the next one must not matter: the channel
// learns that the server closed the connection (with code and text), close-ok is queued.
#[test]
fn server_close_then_eof_reaction_does_not_depend_on_cut() {
    let split = react(vec![
        Step::Data(server_close()),
        Step::WouldBlock,
        Step::Eof,
    ]);
    assert_eq!(split.state, "ServerClosing");
    assert_eq!(split.channel1_messages.len(), 1);
    assert!(split.channel1_messages[0].contains("ServerClosedConnection"));
    assert!(split.writes_sealed);
    assert!(split.end.as_ref().unwrap().contains("UnexpectedSocketClose"));

    let together = react(vec![Step::Data(server_close()), Step::Eof]);
    assert_eq!(together, split);
}

// A reply for channel 1 followed by a frame that cannot be parsed: the reply is handed to the
// channel, then the connection ends with MalformedFrame - for every cut.
#[test]
fn reply_then_malformed_frame_reaction_does_not_depend_on_cut() {
    let mut bytes = queue_declare_ok(1);
    let first_len = bytes.len();
    bytes.extend(malformed_frame());

    let reference = react(vec![
        Step::Data(bytes[..first_len].to_vec()),
        Step::WouldBlock,
        Step::Data(bytes[first_len..].to_vec()),
    ]);
    assert_eq!(reference.channel1_messages.len(), 1);
    assert!(reference.channel1_messages[0].contains("DeclareOk"));
    assert!(reference.end.as_ref().unwrap().contains("MalformedFrame"));

    for cut in 0..=bytes.len() {
        let cut_once = react(vec![
            Step::Data(bytes[..cut].to_vec()),
            Step::WouldBlock,
            Step::Data(bytes[cut..].to_vec()),
        ]);
        assert_eq!(cut_once, reference, "one would-block after {} bytes", cut);

        let no_would_block = react(vec![
            Step::Data(bytes[..cut].to_vec()),
            Step::Data(bytes[cut..].to_vec()),
        ]);
        assert_eq!(no_would_block, reference, "short read of {} bytes", cut);
    }
}

// CONTROL (passes with and without the change): the same kinds of streams, but every cut keeps
// a would-block between the last good frame and the end of stream / a stream of good frames only.
#[test]
fn control_cuts_that_keep_the_end_of_stream_in_its_own_read() {
    let mut bytes = queue_declare_ok(1);
    bytes.extend(server_close());

    let reference = react(vec![
        Step::Data(bytes.clone()),
        Step::WouldBlock,
        Step::Eof,
    ]);
    assert_eq!(reference.state, "ServerClosing");
    assert_eq!(reference.channel1_messages.len(), 2);
    assert!(reference.channel1_messages[0].contains("DeclareOk"));
    assert!(reference.channel1_messages[1].contains("ServerClosedConnection"));

    for cut in 0..=bytes.len() {
        let reaction = react(vec![
            Step::Data(bytes[..cut].to_vec()),
            Step::WouldBlock,
            Step::Data(bytes[cut..].to_vec()),
            Step::WouldBlock,
            Step::Eof,
        ]);
        assert_eq!(reaction, reference, "cut after {} bytes", cut);
    }

    // byte by byte, would-block after every byte
    let mut steps = Vec::new();
    for b in &bytes {
        steps.push(Step::Data(vec![*b]));
        steps.push(Step::WouldBlock);
    }
    steps.push(Step::Eof);
    assert_eq!(react(steps), reference);

    // good frames only, no end of stream at all
    let all = react(vec![Step::Data(queue_declare_ok(1))]);
    assert_eq!(all.state, "Steady");
    assert_eq!(all.end, None);
    assert_eq!(all.channel1_messages.len(), 1);
}

// ---------------------------------------------------------------------------------------------
// Part 2: end to end, a Connection on the scripted stream
// ---------------------------------------------------------------------------------------------

fn handshake_steps() -> Vec<Step> {
    let start = method_bytes(
        0,
        AmqpConnection::Start(Start {
            version_major: 0,
            version_minor: 9,
            server_properties: FieldTable::new(),
            mechanisms: "PLAIN AMQPLAIN".to_string(),
            locales: "en_US".to_string(),
        }),
    );
    let tune = method_bytes(
        0,
        AmqpConnection::Tune(Tune {
            channel_max: 64,
            frame_max: 131_072,
            heartbeat: 0,
        }),
    );
    let open_ok = method_bytes(
        0,
        AmqpConnection::OpenOk(OpenOk {
            known_hosts: "".to_string(),
        }),
    );
    vec![
        Step::AwaitWrite, // protocol header
        Step::Data(start),
        Step::AwaitWrite, // start-ok
        Step::Data(tune),
        Step::AwaitWrite, // tune-ok + open
        Step::Data(open_ok),
    ]
}

// Runs `f` on its own thread; a reaction that never comes is a failure, not a hang.
fn with_watchdog<T: Send + 'static, F: FnOnce() -> T + Send + 'static>(f: F) -> T {
    let (tx, rx) = mpsc::channel();
    thread::spawn(move || {
        let _ = tx.send(f());
    });
    match rx.recv_timeout(Duration::from_secs(20)) {
        Ok(value) => value,
        Err(_) => panic!("no reaction from the client within 20s (hung or panicked)"),
    }
}

// Opens a connection, calls close(); the server's part after the handshake is `tail`, served
// once the client's connection.close has been written.
fn open_and_close(tail: Vec<Step>) -> Result<(), String> {
    with_watchdog(move || {
        let mut steps = handshake_steps();
        steps.push(Step::AwaitWrite); // connection.close
        steps.extend(tail);
        let stream = ScriptStream::new(steps);
        let connection = Connection::insecure_open_stream(
            stream,
            ConnectionOptions::<Auth>::default(),
            ConnectionTuning::default(),
        )
        .map_err(|err| format!("open: {:?}", err))?;
        connection.close().map_err(|err: Error| format!("{:?}", err))
    })
}

fn close_ok() -> Vec<u8> {
    method_bytes(0, AmqpConnection::CloseOk(CloseOk {}))
}

// The server answers close with close-ok and closes its socket right behind it. The close
// handshake is complete; close() reports success however the two are cut into reads.
#[test]
fn close_ok_then_eof_is_a_clean_close_for_every_cut() {
    let split = open_and_close(vec![Step::Data(close_ok()), Step::WouldBlock, Step::Eof]);
    assert_eq!(split, Ok(()));

    let together = open_and_close(vec![Step::Data(close_ok()), Step::Eof]);
    assert_eq!(together, split);
}

// CONTROL (passes with and without the change): close-ok arrives in pieces, the end of stream
// is seen by a later read.
#[test]
fn control_close_ok_in_pieces_then_eof_in_its_own_read() {
    let bytes = close_ok();
    for cut in 0..=bytes.len() {
        let result = open_and_close(vec![
            Step::Data(bytes[..cut].to_vec()),
            Step::WouldBlock,
            Step::Data(bytes[cut..].to_vec()),
            Step::WouldBlock,
            Step::Eof,
        ]);
        assert_eq!(result, Ok(()), "cut after {} bytes", cut);
    }
}
