//@host src/lib.rs
// witness scenario from seeded change C06-b (independent sub-agent demonstration); passes on the unchanged tree
// Demonstration for seed C06b: frame decoding must not depend on how the byte
// stream is cut into reads.
//
// Wire with (in src/lib.rs, next to `mod frame_buffer;`):
//     #[cfg(test)]
//     mod frame_buffer_seed_demo;
//
// Run with:
//     CARGO_TARGET_DIR=/tmp/seed/C06b/target cargo test --offline --lib frame_buffer_seed_demo

use crate::errors::*;
use crate::frame_buffer::FrameBuffer;
use amq_protocol::frame::AMQPFrame;
use mockstream::FailingMockStream;
use std::io::{self, Cursor, Read};

fn would_block() -> FailingMockStream {
    FailingMockStream::new(io::ErrorKind::WouldBlock, "", 1)
}

// A content-body frame (type 3) on `channel` with the given payload.
fn body_frame(channel: u16, payload: &[u8]) -> Vec<u8> {
    let mut v = vec![3u8];
    v.extend_from_slice(&channel.to_be_bytes());
    v.extend_from_slice(&(payload.len() as u32).to_be_bytes());
    v.extend_from_slice(payload);
    v.push(0xCE);
    v
}

// A heartbeat frame (type 8, channel 0, empty payload): the 8-byte minimum frame.
fn heartbeat_frame() -> Vec<u8> {
    vec![8, 0, 0, 0, 0, 0, 0, 0xCE]
}

// Feed `chunks` (one read each, then a would-block) to a fresh FrameBuffer with a
// single read_from call and describe what was handed on.
fn decode(chunks: &[&[u8]]) -> (Vec<String>, Result<usize>) {
    let mut stream: Box<dyn Read> = Box::new(io::empty());
    for chunk in chunks {
        stream = Box::new(stream.chain(Cursor::new(chunk.to_vec())));
    }
    let mut stream = stream.chain(would_block());

    let mut got = Vec::new();
    let mut buf = FrameBuffer::new();
    let res = buf.read_from(&mut stream, |frame| {
        got.push(match frame {
            AMQPFrame::Body(ch, data) => format!("body ch={} len={}", ch, data.len()),
            AMQPFrame::Heartbeat(ch) => format!("heartbeat ch={}", ch),
            other => format!("other {:?}", other),
        });
        Ok(())
    });
    (got, res)
}

fn check(stream: &[u8], cuts: &[usize], expected: &[&str]) {
    let mut chunks = Vec::new();
    let mut start = 0;
    for &cut in cuts {
        chunks.push(&stream[start..cut]);
        start = cut;
    }
    chunks.push(&stream[start..]);

    let (got, res) = decode(&chunks);
    assert_eq!(got, expected, "cuts {:?}: wrong frames handed on", cuts);
    match res {
        Ok(n) => assert_eq!(n, stream.len(), "cuts {:?}", cuts),
        Err(err) => panic!("cuts {:?}: valid stream ended with error: {}", cuts, err),
    }
}

// Small frames: a 108-byte body frame followed by an 8-byte heartbeat.
#[test]
fn small_frame_split_after_header_then_heartbeat() {
    let mut stream = body_frame(1, &[0xAB; 100]);
    stream.extend_from_slice(&heartbeat_frame());
    let expected = ["body ch=1 len=100", "heartbeat ch=0"];

    // controls: one read; a cut inside the 7-byte header; a cut on the frame boundary
    check(&stream, &[], &expected);
    check(&stream, &[5], &expected);
    check(&stream, &[108], &expected);

    // the interesting one: first read ends inside the body frame *after* its header,
    // second read brings the rest of it together with the heartbeat.
    check(&stream, &[20], &expected);
}

// Frame beyond the 4096-byte read quantum: the first read cannot hold it, so it is
// necessarily completed by a later read which also carries the following frames.
#[test]
fn large_frame_followed_by_other_frames() {
    let mut stream = body_frame(2, &[0x55; 5000]);
    stream.extend_from_slice(&heartbeat_frame());
    stream.extend_from_slice(&body_frame(2, &[0x66; 10]));
    let expected = ["body ch=2 len=5000", "heartbeat ch=0", "body ch=2 len=10"];

    check(&stream, &[], &expected);
    check(&stream, &[4096], &expected);
    check(&stream, &[3, 5008], &expected);
}
