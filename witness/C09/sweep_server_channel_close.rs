//@host src/io_loop/mod.rs
//@quick (generic sweep without wall-clock dependence: also runs in the quick tier, labelled bounded)
// C09 bounded stand-in, end to end through the public API (real I/O thread, in-memory broker): three open channels; the server closes
// channel 2 in every combination of {a call in flight on 2, content half received on 2, 0/1/2 consumers on 2, a call in flight on channel 3}.
// Oracle = the property: the call in flight (or else the next call) on 2 fails with ServerClosedChannel carrying 2 and the server's code and
// text, every consumer on 2 gets ServerClosedChannel and is then disconnected (the half-received message is not delivered), the client
// answers Channel.CloseOk on 2, later calls on 2 keep failing; channels 1 and 3 and the connection keep working with their own replies (the
// call in flight on 3 gets its own reply), and id 2 can be opened again and works.
// Bound: the 2 x 2 x 3 x 2 = 24 state combinations, 2 races x 20 repetitions, 6 publish-in-flight scenarios; waits are bounded by generous timeouts that only matter when something hangs.
include!("/verif/witness/_common/live_broker.rs");
use crate::{Auth, Channel, Connection, ConnectionOptions, ConnectionTuning, ConsumerMessage, ConsumerOptions, Error};
use std::thread;

const T: Duration = Duration::from_secs(10);

fn expect_server_closed(what: &str, r: crate::Result<u32>) {
    match r {
        Err(Error::ServerClosedChannel { channel_id, code, message }) => {
            assert_eq!((channel_id, code, message.as_str()), (2, 406, "PRECONDITION_FAILED - boom"), "{}", what);
        }
        other => panic!("{}: expected ServerClosedChannel, got {:?}", what, other.map_err(|e| e.to_string())),
    }
}

fn run(call_in_flight: bool, half_content: bool, consumers: usize, other_in_flight: bool) {
    let what = format!("call_in_flight={} half_content={} consumers={} other_in_flight={}", call_in_flight, half_content, consumers, other_in_flight);
    let ctl = Handle::new();
    let mut connection = Connection::insecure_open_stream(LiveBroker::new(ctl.clone()), ConnectionOptions::<Auth>::default().heartbeat(0), ConnectionTuning::default()).expect("handshake");
    let ch1 = connection.open_channel(Some(1)).unwrap();
    let ch2 = connection.open_channel(Some(2)).unwrap();
    let ch3 = connection.open_channel(Some(3)).unwrap();

    // consumers on 2 (their receivers are kept; the Consumer objects borrow the channel, so only the receivers travel)
    let mut receivers = Vec::new();
    let mut tags = Vec::new();
    for _ in 0..consumers.max(if half_content { 1 } else { 0 }) {
        let c = ch2.basic_consume("q", ConsumerOptions::default()).unwrap();
        receivers.push(c.receiver().clone());
        tags.push(c.consumer_tag().to_string());
        std::mem::forget(c);
    }
    if half_content {
        let mut bytes = method_bytes(2, B::Deliver(basic::Deliver { consumer_tag: tags[0].clone(), delivery_tag: 1, redelivered: false, exchange: "x".to_string(), routing_key: "k".to_string() }));
        let mut buf = OutputBuffer::empty();
        buf.push_content_header(2, 60, 10, &crate::AmqpProperties::default());
        buf.push_content_body(2, b"half");
        bytes.extend_from_slice(&buf[0..]);
        ctl.inject(bytes);
    }
    // a call in flight on 3 (its answer is withheld until after the close)
    let (other, mut ch3_main) = if other_in_flight {
        ctl.withhold(3, 50, 30);
        (
            Some(thread::spawn(move || {
                let r = ch3.queue_purge("q3");
                (ch3, r)
            })),
            None,
        )
    } else {
        (None, Some(ch3))
    };
    // a call in flight on 2
    let victim = if call_in_flight {
        ctl.withhold(2, 50, 30);
        let h = thread::spawn(move || {
            let r = ch2.queue_purge("q2");
            (ch2, r)
        });
        assert!(ctl.wait_for(|(n, f)| *n == 2 && matches!(f, AMQPFrame::Method(_, AMQPClass::Queue(Q::Purge(_)))), T), "{}: the call on 2 never reached the broker", what);
        Err(h)
    } else {
        Ok(ch2)
    };
    if other_in_flight {
        assert!(ctl.wait_for(|(n, f)| *n == 3 && matches!(f, AMQPFrame::Method(_, AMQPClass::Queue(Q::Purge(_)))), T), "{}: the call on 3 never reached the broker", what);
    }

    // ---- the server closes channel 2
    ctl.inject(method_bytes(2, AmqpChannel::Close(channel_::Close { reply_code: 406, reply_text: "PRECONDITION_FAILED - boom".to_string(), class_id: 60, method_id: 40 })));
    assert!(ctl.wait_for(|(n, f)| *n == 2 && matches!(f, AMQPFrame::Method(_, AMQPClass::Channel(AmqpChannel::CloseOk(_)))), T), "{}: no Channel.CloseOk on 2", what);

    let ch2 = match victim {
        Err(h) => {
            let (ch2, r) = h.join().unwrap();
            expect_server_closed(&format!("{}: call in flight on 2", what), r);
            ch2
        }
        Ok(ch2) => ch2,
    };
    // the call in flight - or, without one, the next call - reports the server's close; later calls on 2 keep failing
    if !call_in_flight {
        expect_server_closed(&format!("{}: next call on 2", what), ch2.queue_purge("q2"));
    }
    // (the property asks later calls to keep failing; it does not say with which error)
    assert!(ch2.queue_delete("q2", Default::default()).is_err(), "{}: a later call on the closed channel succeeded", what);
    assert!(ch2.queue_purge("q2").is_err(), "{}: a later call on the closed channel succeeded", what);
    // consumers: exactly ServerClosedChannel, then disconnected; the half-received message never shows up
    for (i, rx) in receivers.iter().enumerate() {
        match rx.recv_timeout(T) {
            Ok(ConsumerMessage::ServerClosedChannel(Error::ServerClosedChannel { channel_id: 2, code: 406, .. })) => {}
            other => panic!("{}: consumer {} got {:?}", what, i, other),
        }
        match rx.recv_timeout(T) {
            Err(crossbeam_channel::RecvTimeoutError::Disconnected) => {}
            other => panic!("{}: consumer {} queue not disconnected after its terminal message: {:?}", what, i, other),
        }
    }
    // the other channels and the connection keep working, each call with its own reply
    assert_eq!(ch1.queue_purge("q1").unwrap(), 1001, "{}: channel 1", what);
    let ch3 = match other {
        Some(h) => {
            ctl.inject(method_bytes(3, Q::PurgeOk(queue::PurgeOk { message_count: 4242 })));
            let (ch3, r) = h.join().unwrap();
            assert_eq!(r.unwrap(), 4242, "{}: the call in flight on 3 must get its own reply", what);
            ch3
        }
        None => ch3_main.take().unwrap(),
    };
    assert_eq!(ch3.queue_purge("q3").unwrap(), 1003, "{}: channel 3", what);
    // the closed channel's id is available again and the new channel works
    std::mem::forget(ch2);
    let again = connection.open_channel(Some(2)).unwrap_or_else(|e| panic!("{}: id 2 not available again: {}", what, e));
    assert_eq!(again.queue_purge("q2").unwrap(), 1002, "{}: re-opened channel 2", what);
    std::mem::forget(again);
    std::mem::forget(ch1);
    std::mem::forget(ch3);
    connection.close().unwrap_or_else(|e| panic!("{}: closing the connection afterwards failed: {}", what, e));
}

// the reply to the call in flight and the server's close arrive in one read: the caller gets its reply, the NEXT call reports the close
fn run_reply_then_close() {
    let what = "reply and close in one batch";
    let ctl = Handle::new();
    let mut connection = Connection::insecure_open_stream(LiveBroker::new(ctl.clone()), ConnectionOptions::<Auth>::default().heartbeat(0), ConnectionTuning::default()).expect("handshake");
    let ch1 = connection.open_channel(Some(1)).unwrap();
    let ch2 = connection.open_channel(Some(2)).unwrap();
    ctl.withhold(2, 50, 30);
    let h = thread::spawn(move || {
        let r = ch2.queue_purge("q2");
        (ch2, r)
    });
    assert!(ctl.wait_for(|(n, f)| *n == 2 && matches!(f, AMQPFrame::Method(_, AMQPClass::Queue(Q::Purge(_)))), T), "{}: the call on 2 never reached the broker", what);
    let mut bytes = method_bytes(2, Q::PurgeOk(queue::PurgeOk { message_count: 777 }));
    bytes.extend(method_bytes(2, AmqpChannel::Close(channel_::Close { reply_code: 406, reply_text: "PRECONDITION_FAILED - boom".to_string(), class_id: 60, method_id: 40 })));
    ctl.inject(bytes);
    let (ch2, r) = h.join().unwrap();
    assert_eq!(r.unwrap_or_else(|e| panic!("{}: the answered call failed with {}", what, e)), 777, "{}", what);
    assert!(ctl.wait_for(|(n, f)| *n == 2 && matches!(f, AMQPFrame::Method(_, AMQPClass::Channel(AmqpChannel::CloseOk(_)))), T), "{}: no Channel.CloseOk on 2", what);
    expect_server_closed(&format!("{}: next call on 2", what), ch2.queue_purge("q2"));
    assert_eq!(ch1.queue_purge("q1").unwrap(), 1001, "{}: channel 1", what);
    std::mem::forget(ch2);
    let again = connection.open_channel(Some(2)).unwrap_or_else(|e| panic!("{}: id 2 not available again: {}", what, e));
    assert_eq!(again.queue_purge("q2").unwrap(), 1002, "{}", what);
    std::mem::forget(again);
    std::mem::forget(ch1);
    connection.close().unwrap_or_else(|e| panic!("{}: closing the connection afterwards failed: {}", what, e));
}

// the client's own Channel.Close is in flight when the server's Channel.Close arrives, followed by the server's CloseOk for the client's close
fn run_client_close_races_server_close() {
    let what = "client close racing a server close";
    let ctl = Handle::new();
    let mut connection = Connection::insecure_open_stream(LiveBroker::new(ctl.clone()), ConnectionOptions::<Auth>::default().heartbeat(0), ConnectionTuning::default()).expect("handshake");
    let ch1 = connection.open_channel(Some(1)).unwrap();
    let ch2 = connection.open_channel(Some(2)).unwrap();
    ctl.withhold(2, 20, 40);
    let h = thread::spawn(move || ch2.close());
    assert!(ctl.wait_for(|(n, f)| *n == 2 && matches!(f, AMQPFrame::Method(_, AMQPClass::Channel(AmqpChannel::Close(_)))), T), "{}: the client's close never reached the broker", what);
    let mut bytes = method_bytes(2, AmqpChannel::Close(channel_::Close { reply_code: 406, reply_text: "PRECONDITION_FAILED - boom".to_string(), class_id: 60, method_id: 40 }));
    bytes.extend(method_bytes(2, AmqpChannel::CloseOk(channel_::CloseOk {})));
    ctl.inject(bytes);
    match h.join().unwrap() {
        Ok(()) => {}
        Err(Error::ServerClosedChannel { channel_id: 2, code: 406, .. }) => {}
        Err(e) => panic!("{}: the racing close returned {}", what, e),
    }
    assert!(ctl.wait_for(|(n, f)| *n == 2 && matches!(f, AMQPFrame::Method(_, AMQPClass::Channel(AmqpChannel::CloseOk(_)))), T), "{}: no Channel.CloseOk on 2", what);
    // nothing else is disturbed
    assert_eq!(ch1.queue_purge("q1").unwrap_or_else(|e| panic!("{}: channel 1 broken: {}", what, e)), 1001, "{}", what);
    let again = connection.open_channel(Some(2)).unwrap_or_else(|e| panic!("{}: id 2 not available again: {}", what, e));
    assert_eq!(again.queue_purge("q2").unwrap(), 1002, "{}", what);
    std::mem::forget(again);
    std::mem::forget(ch1);
    connection.close().unwrap_or_else(|e| panic!("{}: closing the connection afterwards failed: {}", what, e));
}

// the server closes channel 2 while a publish on it is under way: the transport accepts nothing (or only the method frame), the publishing
// thread is blocked half way through handing a many-frame body to the I/O thread. The publish is the call in flight: it must come back with
// ServerClosedChannel (not hang, not panic, not succeed), and everything else is as in the other scenarios.
fn run_publish_in_flight(method_frame_out: bool, bound: usize) {
    let what = format!("publish in flight (method frame out: {}, mem_channel_bound {})", method_frame_out, bound);
    let ctl = Handle::new();
    (ctl.0).0.lock().unwrap().tune = Some(connection_::Tune { channel_max: 16, frame_max: 4096, heartbeat: 0 });
    let tuning = ConnectionTuning::default().mem_channel_bound(bound).buffered_writes_high_water(2000).buffered_writes_low_water(0);
    let mut connection = Connection::insecure_open_stream(LiveBroker::new(ctl.clone()), ConnectionOptions::<Auth>::default().heartbeat(0), tuning).expect("handshake");
    let ch1 = connection.open_channel(Some(1)).unwrap();
    let ch2 = connection.open_channel(Some(2)).unwrap();
    ctl.take_seen();
    // the transport takes the Basic.Publish method frame (a few dozen bytes) at most
    ctl.set_budget(Some(if method_frame_out { 30 } else { 0 }));
    let h = thread::spawn(move || {
        let body = vec![0x5au8; 400_000]; // about 100 body frames: far more than the bounded queue and the write buffer take
        let r = ch2.basic_publish("big", crate::Publish::new(&body, "rk"));
        (ch2, r)
    });
    thread::sleep(Duration::from_millis(100));
    assert!(!h.is_finished(), "{}: scenario not reached: the publish was not held back", what);
    ctl.inject(method_bytes(2, AmqpChannel::Close(channel_::Close { reply_code: 406, reply_text: "PRECONDITION_FAILED - boom".to_string(), class_id: 60, method_id: 40 })));
    let start = Instant::now();
    while !h.is_finished() {
        assert!(start.elapsed() < T, "{}: the publish in flight was never released by the server's close", what);
        thread::sleep(Duration::from_millis(2));
    }
    let (ch2, r) = match h.join() {
        Ok(v) => v,
        Err(e) => panic!("{}: the publish in flight panicked: {:?}", what, e.downcast_ref::<String>().cloned().or_else(|| e.downcast_ref::<&str>().map(|s| s.to_string()))),
    };
    expect_server_closed(&format!("{}: the publish", what), r.map(|()| 0));
    ctl.set_budget(None);
    assert!(ctl.wait_for(|(n, f)| *n == 2 && matches!(f, AMQPFrame::Method(_, AMQPClass::Channel(AmqpChannel::CloseOk(_)))), T), "{}: no Channel.CloseOk on 2", what);
    assert!(ch2.queue_purge("q2").is_err(), "{}: a later call on the closed channel succeeded", what);
    assert!(ch2.basic_publish("", crate::Publish::new(b"x", "rk")).is_err(), "{}: a later publish on the closed channel succeeded", what);
    assert_eq!(ch1.queue_purge("q1").unwrap_or_else(|e| panic!("{}: channel 1 broken: {}", what, e)), 1001, "{}", what);
    drop(ch2); // dropping the handle of a channel the server closed must be harmless
    let again = connection.open_channel(Some(2)).unwrap_or_else(|e| panic!("{}: id 2 not available again: {}", what, e));
    assert_eq!(again.queue_purge("q2").unwrap(), 1002, "{}", what);
    std::mem::forget(again);
    std::mem::forget(ch1);
    connection.close().unwrap_or_else(|e| panic!("{}: closing the connection afterwards failed: {}", what, e));
}

#[test]
fn verif_sweep_c09_publish_in_flight() {
    for &method_frame_out in &[false, true] {
        for &bound in &[1usize, 4, 16] {
            with_watchdog(format!("publish in flight {} {}", method_frame_out, bound), 40, move || run_publish_in_flight(method_frame_out, bound));
        }
    }
}

#[test]
fn verif_sweep_c09_races_around_the_close() {
    for _ in 0..20 {
        with_watchdog("reply and close in one batch".to_string(), 40, run_reply_then_close);
        with_watchdog("client close racing a server close".to_string(), 40, run_client_close_races_server_close);
    }
}

#[test]
fn verif_sweep_c09_server_closes_a_channel_in_every_state() {
    let mut count = 0;
    for &call_in_flight in &[false, true] {
        for &half_content in &[false, true] {
            for &consumers in &[0usize, 1, 2] {
                for &other_in_flight in &[false, true] {
                    with_watchdog(format!("call_in_flight={} half_content={} consumers={} other_in_flight={}", call_in_flight, half_content, consumers, other_in_flight), 40, move || run(call_in_flight, half_content, consumers, other_in_flight));
                    count += 1;
                }
            }
        }
    }
    println!("C09 sweep: {} scenarios", count);
}
