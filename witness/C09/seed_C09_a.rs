//@host src/io_loop/mod.rs
// witness scenario from seeded change C09-a (independent sub-agent demonstration); passes on the unchanged tree
// Demonstration for C09 ("a server-initiated channel close affects that channel only").
//
// Wire with, at the end of src/io_loop/mod.rs:
//
//     #[cfg(test)]
//     mod c09_demo;
//
// Scenario (simultaneous close on channel 1, channel 2 is an innocent bystander):
//   1. the client has a Channel.Close in flight on channel 1;
//   2. the server, at the same moment, closes channel 1 itself (Channel.Close 406);
//   3. the server then - as AMQP 0-9-1 requires ("the response to receiving a Close after
//      sending Close must be to send Close-Ok") - answers the client's Close with a
//      Channel.CloseOk on channel 1;
//   4. channel 2 gets a reply to a call of its own; channel id 1 is opened again.

use super::heartbeat_timers::HeartbeatTimers;
use super::{Channel0Slot, ChannelSlot, ConnectionState, Inner, IoLoopHandle};
use crate::errors::Error;
use crate::serialize::OutputBuffer;
use amq_protocol::frame::AMQPFrame;
use amq_protocol::protocol::channel::AMQPMethod as AmqpChannel;
use amq_protocol::protocol::channel::{Close as ChannelClose, CloseOk as ChannelCloseOk};
use amq_protocol::protocol::queue::AMQPMethod as AmqpQueue;
use amq_protocol::protocol::queue::{Declare as QueueDeclare, DeclareOk as QueueDeclareOk};
use amq_protocol::protocol::AMQPClass;

const BOUND: usize = 16;

fn open(inner: &mut Inner, id: u16) -> IoLoopHandle {
    inner
        .chan_slots
        .insert(Some(id), |id| Ok(ChannelSlot::new(BOUND, id)))
        .unwrap_or_else(|err| panic!("channel id {} should be available: {}", id, err))
}

fn declare() -> AmqpQueue {
    AmqpQueue::Declare(QueueDeclare {
        ticket: 0,
        queue: "q".to_string(),
        passive: false,
        durable: false,
        exclusive: false,
        auto_delete: false,
        nowait: false,
        arguments: Default::default(),
    })
}

#[test]
fn server_close_racing_client_close_leaves_connection_and_other_channels_alive() {
    let mut inner = Inner::new(HeartbeatTimers::default(), BOUND);
    inner.chan_slots.set_channel_max(8);
    inner.outbuf.clear(); // drop the protocol header; we only care about later frames

    let (ch0_slot, _ch0_handle) = Channel0Slot::new(BOUND);
    let mut state = ConnectionState::Steady(ch0_slot);

    let mut h1 = open(&mut inner, 1);
    let mut h2 = open(&mut inner, 2);

    // (1) client's Channel.Close on 1 is on the wire (nothing for the state machine to do), and
    // (2) the server's own Channel.Close on 1 arrives.
    let server_close = AMQPFrame::Method(
        1,
        AMQPClass::Channel(AmqpChannel::Close(ChannelClose {
            reply_code: 406,
            reply_text: "PRECONDITION_FAILED".to_string(),
            class_id: 60,
            method_id: 80,
        })),
    );
    state
        .process(&mut inner, server_close)
        .expect("server-initiated channel close must not be an I/O loop error");

    // the client answered CloseOk on channel 1
    let mut expected = OutputBuffer::empty();
    expected.push_method(1, AmqpChannel::CloseOk(ChannelCloseOk {}));
    assert_eq!(&inner.outbuf[0..], &expected[0..], "CloseOk on channel 1");

    // the call on channel 1 fails with ServerClosedChannel carrying id, code and text
    match h1.call_nowait(declare()) {
        Err(Error::ServerClosedChannel {
            channel_id: 1,
            code: 406,
            ref message,
        }) if message == "PRECONDITION_FAILED" => (),
        other => panic!("unexpected result on closed channel: {:?}", other),
    }
    // ... and later calls keep failing
    assert!(h1.call_nowait(declare()).is_err());

    // (3) the server's CloseOk for the client's own (racing) Close arrives on channel 1.
    let server_close_ok = AMQPFrame::Method(
        1,
        AMQPClass::Channel(AmqpChannel::CloseOk(ChannelCloseOk {})),
    );
    let res = state.process(&mut inner, server_close_ok);
    assert!(
        res.is_ok(),
        "a CloseOk racing a server-initiated close of the same channel took the whole \
         connection down: {:?}",
        res
    );
    match state {
        ConnectionState::Steady(_) => (),
        _ => panic!("connection must still be in the steady state"),
    }

    // (4) the other channel still gets its reply ...
    let declare_ok = AMQPFrame::Method(
        2,
        AMQPClass::Queue(AmqpQueue::DeclareOk(QueueDeclareOk {
            queue: "q".to_string(),
            message_count: 3,
            consumer_count: 0,
        })),
    );
    state
        .process(&mut inner, declare_ok)
        .expect("reply on channel 2 must be routed");
    let ok: QueueDeclareOk = h2.call(declare()).expect("channel 2 keeps working");
    assert_eq!(ok.message_count, 3);

    // ... and id 1 is available for a new channel.
    let h1b = open(&mut inner, 1);
    assert_eq!(h1b.channel_id(), 1);
}
