//@host src/lib.rs
// witness scenario from seeded change C09-e (independent sub-agent demonstration); passes on the unchanged tree
//! Demonstration for the seeded change C09e.
//!
//! Property under test (C09): when the server closes channel n, the call in flight on n fails
//! with `ServerClosedChannel` carrying n and the server's code and text, the client answers
//! Channel.CloseOk on n, later calls on n keep failing, every other channel keeps working and
//! id n becomes available for a new channel.
//!
//! All tests drive the real client (Connection / Channel / I/O thread) over a loopback TCP socket
//! against a scripted broker that lives in the test thread. Client calls that block run in scoped
//! threads. Nothing here depends on timing: every step of the broker script is triggered by a
//! frame it has read or by a client call having returned. A watchdog turns an unexpected hang
//! into a failure of the test binary.
//!
//! * `publish_interrupted_by_server_close_fails_with_server_closed_channel` is the demonstration:
//!   the server closes channel 1 while a large publish on it is half handed over to the I/O
//!   thread (method frame gone out, content still being sent, client blocked by back-pressure).
//! * the other three tests are controls that pass with and without the change.

use crate::serialize::{IntoAmqpClass, OutputBuffer};
use crate::{
    Auth, Channel, Connection, ConnectionOptions, ConnectionTuning, Error, FieldTable, Publish,
    Result,
};
use amq_protocol::frame::{parse_frame, AMQPFrame};
use amq_protocol::protocol::basic::AMQPMethod as AmqpBasic;
use amq_protocol::protocol::basic::QosOk;
use amq_protocol::protocol::channel::AMQPMethod as AmqpChannel;
use amq_protocol::protocol::channel::Close as ChannelClose;
use amq_protocol::protocol::channel::OpenOk as ChannelOpenOk;
use amq_protocol::protocol::connection::AMQPMethod as AmqpConnection;
use amq_protocol::protocol::connection::{OpenOk, Start, Tune};
use amq_protocol::protocol::queue::AMQPMethod as AmqpQueue;
use amq_protocol::protocol::AMQPClass;
use std::any::Any;
use std::io::{Read, Write};
use std::mem::ManuallyDrop;
use std::net::{TcpListener, TcpStream};
use std::panic::{catch_unwind, AssertUnwindSafe};
use std::sync::atomic::{AtomicBool, Ordering};
use std::sync::Arc;
use std::thread;
use std::time::Duration;

const FRAME_MAX: u32 = 131_072;
const SOCKET_BUFFER: usize = 32 * 1024;

// ---------------------------------------------------------------------------------------------
// watchdog: a demonstration that goes wrong must FAIL, not hang
// ---------------------------------------------------------------------------------------------

struct Watchdog(Arc<AtomicBool>);

impl Watchdog {
    fn arm(name: &'static str, seconds: u64) -> Watchdog {
        let done = Arc::new(AtomicBool::new(false));
        let done2 = Arc::clone(&done);
        thread::spawn(move || {
            for _ in 0..seconds * 10 {
                thread::sleep(Duration::from_millis(100));
                if done2.load(Ordering::SeqCst) {
                    return;
                }
            }
            eprintln!("c09e_demo: watchdog: test {} is stuck - aborting", name);
            std::process::exit(101);
        });
        Watchdog(done)
    }
}

impl Drop for Watchdog {
    fn drop(&mut self) {
        // also disarmed when the test panics: a failed assertion is a failure, not a hang
        self.0.store(true, Ordering::SeqCst);
    }
}

// ---------------------------------------------------------------------------------------------
// scripted broker
// ---------------------------------------------------------------------------------------------

struct Broker {
    stream: TcpStream,
}

impl Broker {
    fn read_exact(&mut self, buf: &mut [u8]) {
        self.stream
            .read_exact(buf)
            .expect("broker: reading from the client failed or timed out");
    }

    fn read_frame(&mut self) -> AMQPFrame {
        let mut head = [0u8; 7];
        self.read_exact(&mut head);
        let size = u32::from_be_bytes([head[3], head[4], head[5], head[6]]) as usize;
        let mut buf = vec![0u8; 7 + size + 1];
        buf[..7].copy_from_slice(&head);
        self.read_exact(&mut buf[7..]);
        match parse_frame(&buf) {
            Ok((rest, frame)) if rest.is_empty() => frame,
            _ => panic!("broker: client sent a malformed frame"),
        }
    }

    fn read_method(&mut self) -> (u16, AMQPClass) {
        match self.read_frame() {
            AMQPFrame::Method(channel_id, method) => (channel_id, method),
            other => panic!("broker: expected a method frame, got {:?}", other),
        }
    }

    fn send<M: IntoAmqpClass>(&mut self, channel_id: u16, method: M) {
        let mut out = OutputBuffer::empty();
        out.push_method(channel_id, method);
        self.stream
            .write_all(&out[0..])
            .expect("broker: writing to the client failed");
    }

    fn handshake(&mut self) {
        let mut header = [0u8; 8];
        self.read_exact(&mut header);
        assert_eq!(&header, b"AMQP\x00\x00\x09\x01");
        self.send(
            0,
            AmqpConnection::Start(Start {
                version_major: 0,
                version_minor: 9,
                server_properties: FieldTable::new(),
                mechanisms: "PLAIN".to_string(),
                locales: "en_US".to_string(),
            }),
        );
        match self.read_method() {
            (0, AMQPClass::Connection(AmqpConnection::StartOk(_))) => (),
            other => panic!("broker: expected StartOk, got {:?}", other),
        }
        self.send(
            0,
            AmqpConnection::Tune(Tune {
                channel_max: 8,
                frame_max: FRAME_MAX,
                heartbeat: 0,
            }),
        );
        match self.read_method() {
            (0, AMQPClass::Connection(AmqpConnection::TuneOk(_))) => (),
            other => panic!("broker: expected TuneOk, got {:?}", other),
        }
        match self.read_method() {
            (0, AMQPClass::Connection(AmqpConnection::Open(_))) => (),
            other => panic!("broker: expected Connection.Open, got {:?}", other),
        }
        self.send(
            0,
            AmqpConnection::OpenOk(OpenOk {
                known_hosts: String::new(),
            }),
        );
    }

    fn close_channel(&mut self, channel_id: u16, code: u16, text: &str) {
        self.send(
            channel_id,
            AmqpChannel::Close(ChannelClose {
                reply_code: code,
                reply_text: text.to_string(),
                class_id: 60,
                method_id: 40,
            }),
        );
    }

    /// Reads up to and including Channel.CloseOk on `channel_id`. Whatever comes before it must
    /// be content (header / body frames) of that same channel. Returns the number of body bytes.
    fn read_until_close_ok(&mut self, channel_id: u16) -> usize {
        let mut body_bytes = 0;
        loop {
            match self.read_frame() {
                AMQPFrame::Method(n, AMQPClass::Channel(AmqpChannel::CloseOk(_)))
                    if n == channel_id =>
                {
                    return body_bytes;
                }
                AMQPFrame::Header(n, _, _) if n == channel_id => (),
                AMQPFrame::Body(n, body) if n == channel_id => body_bytes += body.len(),
                other => panic!(
                    "broker: unexpected frame while waiting for CloseOk on {}: {:?}",
                    channel_id, other
                ),
            }
        }
    }
}

// ---------------------------------------------------------------------------------------------
// client side helpers
// ---------------------------------------------------------------------------------------------

/// The objects of the client are never dropped: dropping a Channel or a Connection talks to the
/// server, and in a failing test nobody would answer.
struct Client {
    conn: ManuallyDrop<Connection>,
}

fn connect(tuning: ConnectionTuning) -> (Client, Broker) {
    let listener = TcpListener::bind("127.0.0.1:0").unwrap();
    let addr = listener.local_addr().unwrap();
    let stream = mio::net::TcpStream::connect(&addr).unwrap();
    // small, fixed socket buffers: the amount of data in flight between the client and a broker
    // that has stopped reading is then bounded by a few hundred KiB whatever the kernel defaults
    stream.set_send_buffer_size(SOCKET_BUFFER).unwrap();
    let (server_side, _) = listener.accept().unwrap();
    {
        let tweak = mio::net::TcpStream::from_stream(server_side.try_clone().unwrap()).unwrap();
        tweak.set_recv_buffer_size(SOCKET_BUFFER).unwrap();
    }
    server_side.set_nonblocking(false).unwrap();
    server_side
        .set_read_timeout(Some(Duration::from_secs(60)))
        .unwrap();
    server_side.set_nodelay(true).unwrap();
    let mut broker = Broker {
        stream: server_side,
    };

    let conn = thread::scope(|s| {
        let client = s.spawn(move || {
            Connection::insecure_open_stream(stream, ConnectionOptions::<Auth>::default(), tuning)
        });
        broker.handshake();
        client.join().unwrap().expect("client handshake failed")
    });
    (
        Client {
            conn: ManuallyDrop::new(conn),
        },
        broker,
    )
}

fn open_channel(client: &mut Client, broker: &mut Broker, id: u16) -> ManuallyDrop<Channel> {
    let conn = &mut *client.conn;
    thread::scope(|s| {
        let opener = s.spawn(move || conn.open_channel(Some(id)));
        match broker.read_method() {
            (n, AMQPClass::Channel(AmqpChannel::Open(_))) if n == id => (),
            other => panic!("broker: expected Channel.Open on {}, got {:?}", id, other),
        }
        broker.send(
            id,
            AmqpChannel::OpenOk(ChannelOpenOk {
                channel_id: String::new(),
            }),
        );
        ManuallyDrop::new(opener.join().unwrap().expect("open_channel failed"))
    })
}

/// A synchronous call on a channel the server has NOT closed gets its own reply.
fn assert_channel_works(channel: &mut ManuallyDrop<Channel>, broker: &mut Broker) {
    let id = channel.channel_id();
    let channel: &mut Channel = channel;
    thread::scope(|s| {
        let caller = s.spawn(move || channel.qos(0, 10, false));
        match broker.read_method() {
            (n, AMQPClass::Basic(AmqpBasic::Qos(_))) if n == id => (),
            other => panic!("broker: expected Basic.Qos on {}, got {:?}", id, other),
        }
        broker.send(id, AmqpBasic::QosOk(QosOk {}));
        caller
            .join()
            .unwrap()
            .expect("call on a channel the server did not close must succeed");
    });
}

fn describe_panic(payload: Box<dyn Any + Send>) -> String {
    if let Some(s) = payload.downcast_ref::<&str>() {
        s.to_string()
    } else if let Some(s) = payload.downcast_ref::<String>() {
        s.clone()
    } else {
        "<non-string panic payload>".to_string()
    }
}

/// Runs `f`; a panic inside the library becomes a value instead of tearing the test down.
fn run_call<T>(f: impl FnOnce() -> Result<T>) -> std::result::Result<Result<T>, String> {
    catch_unwind(AssertUnwindSafe(f)).map_err(describe_panic)
}

fn assert_server_closed<T: std::fmt::Debug>(
    outcome: std::result::Result<Result<T>, String>,
    want_id: u16,
    want_code: u16,
    want_text: &str,
) {
    match outcome {
        Ok(Err(Error::ServerClosedChannel {
            channel_id,
            code,
            message,
        })) => {
            assert_eq!(channel_id, want_id);
            assert_eq!(code, want_code);
            assert_eq!(message, want_text);
        }
        Ok(other) => panic!(
            "C09 violated: call on the closed channel {} returned {:?} instead of \
             ServerClosedChannel",
            want_id, other
        ),
        Err(panic_message) => panic!(
            "C09 violated: call on the closed channel {} panicked ({}) instead of failing with \
             ServerClosedChannel",
            want_id, panic_message
        ),
    }
}

fn assert_keeps_failing(channel: &mut ManuallyDrop<Channel>) {
    // the I/O thread has dropped the channel: this fails at once, no broker involved
    match run_call(|| channel.qos(0, 1, false)) {
        Ok(Err(_)) => (),
        other => panic!(
            "C09 violated: later call on the closed channel gave {:?}",
            other
        ),
    }
}

// ---------------------------------------------------------------------------------------------
// the demonstration
// ---------------------------------------------------------------------------------------------

/// State of channel 1 when the server closes it: a publish is under way, its Basic.Publish
/// method frame has reached the broker, its content is still being handed to the I/O thread and
/// the publishing thread cannot make progress (the broker has stopped reading, the socket and the
/// client's write buffer are full, the I/O thread has stopped polling the channels).
#[test]
fn publish_interrupted_by_server_close_fails_with_server_closed_channel() {
    let _watchdog = Watchdog::arm("publish_interrupted_by_server_close", 180);
    let tuning = ConnectionTuning::default()
        .mem_channel_bound(4)
        .buffered_writes_high_water(64 * 1024)
        .buffered_writes_low_water(0);
    let (mut client, mut broker) = connect(tuning);
    let mut victim = open_channel(&mut client, &mut broker, 1);
    let mut bystander = open_channel(&mut client, &mut broker, 2);

    // far more than fits into the socket buffers + the write buffer + the channel's queue
    let body = vec![0x5a_u8; 16 * 1024 * 1024];
    let text = "NOT_FOUND - no exchange 'big' in vhost '/'";

    let outcome = thread::scope(|s| {
        let victim: &mut Channel = &mut victim;
        let body = &body[..];
        let publisher =
            s.spawn(move || run_call(|| victim.basic_publish("big", Publish::new(body, "rk"))));

        // The broker sees the method frame of the publish: the publisher is past its first
        // hand-over to the I/O thread. It reads nothing more for now, so the publish cannot
        // complete, and closes the channel.
        match broker.read_method() {
            (1, AMQPClass::Basic(AmqpBasic::Publish(_))) => (),
            other => panic!("broker: expected Basic.Publish on 1, got {:?}", other),
        }
        broker.close_channel(1, 404, text);

        // the close is what releases the publisher
        publisher.join().unwrap()
    });

    // the client answers CloseOk on 1, after the part of the content that had been handed over
    let body_bytes = broker.read_until_close_ok(1);
    assert!(
        body_bytes < body.len(),
        "scenario not reached: the whole body went out before the close"
    );
    if let Ok(Ok(())) = outcome {
        panic!("scenario not reached: the publish completed before the close was processed");
    }

    // the call in flight fails with ServerClosedChannel carrying n, the code and the text
    assert_server_closed(outcome, 1, 404, text);

    // every other channel keeps working, later calls on 1 keep failing, id 1 is free again
    assert_channel_works(&mut bystander, &mut broker);
    assert_keeps_failing(&mut victim);
    let mut reopened = open_channel(&mut client, &mut broker, 1);
    assert_channel_works(&mut reopened, &mut broker);
    assert_channel_works(&mut bystander, &mut broker);
}

// ---------------------------------------------------------------------------------------------
// controls (pass with and without the change)
// ---------------------------------------------------------------------------------------------

/// Idle channel closed by the server; the next call on it is a publish.
#[test]
fn control_idle_channel_closed_then_publish_fails_with_server_closed_channel() {
    let _watchdog = Watchdog::arm("control_idle_channel_closed_then_publish", 180);
    let (mut client, mut broker) = connect(ConnectionTuning::default());
    let mut victim = open_channel(&mut client, &mut broker, 1);
    let mut bystander = open_channel(&mut client, &mut broker, 2);

    let text = "PRECONDITION_FAILED - go away";
    broker.close_channel(1, 406, text);
    // once CloseOk is here the I/O thread has dropped channel 1
    assert_eq!(broker.read_until_close_ok(1), 0);

    let outcome = run_call(|| victim.basic_publish("x", Publish::new(b"hello", "rk")));
    assert_server_closed(outcome, 1, 406, text);

    assert_channel_works(&mut bystander, &mut broker);
    assert_keeps_failing(&mut victim);
    let mut reopened = open_channel(&mut client, &mut broker, 1);
    assert_channel_works(&mut reopened, &mut broker);
}

/// Synchronous call in flight on the channel the server closes.
#[test]
fn control_call_in_flight_fails_with_server_closed_channel() {
    let _watchdog = Watchdog::arm("control_call_in_flight", 180);
    let (mut client, mut broker) = connect(ConnectionTuning::default());
    let mut victim = open_channel(&mut client, &mut broker, 1);
    let mut bystander = open_channel(&mut client, &mut broker, 2);

    let text = "NOT_FOUND - no queue 'nope' in vhost '/'";
    let outcome = thread::scope(|s| {
        let victim: &mut Channel = &mut victim;
        let caller =
            s.spawn(move || run_call(|| victim.queue_declare_passive("nope").map(|_queue| ())));
        match broker.read_method() {
            (1, AMQPClass::Queue(AmqpQueue::Declare(_))) => (),
            other => panic!("broker: expected Queue.Declare on 1, got {:?}", other),
        }
        broker.close_channel(1, 404, text);
        caller.join().unwrap()
    });
    assert_eq!(broker.read_until_close_ok(1), 0);
    assert_server_closed(outcome, 1, 404, text);

    assert_channel_works(&mut bystander, &mut broker);
    assert_keeps_failing(&mut victim);
}

/// The same large publish under the same back-pressure settings, but nobody closes the channel:
/// it arrives complete and in order.
#[test]
fn control_large_publish_without_close_arrives_intact() {
    let _watchdog = Watchdog::arm("control_large_publish_without_close", 180);
    let tuning = ConnectionTuning::default()
        .mem_channel_bound(4)
        .buffered_writes_high_water(64 * 1024)
        .buffered_writes_low_water(0);
    let (mut client, mut broker) = connect(tuning);
    let mut channel = open_channel(&mut client, &mut broker, 1);

    let body = vec![0xa5_u8; 4 * 1024 * 1024];
    thread::scope(|s| {
        let channel: &mut Channel = &mut channel;
        let body = &body[..];
        let publisher =
            s.spawn(move || run_call(|| channel.basic_publish("ex", Publish::new(body, "rk"))));
        match broker.read_method() {
            (1, AMQPClass::Basic(AmqpBasic::Publish(_))) => (),
            other => panic!("broker: expected Basic.Publish on 1, got {:?}", other),
        }
        match broker.read_frame() {
            AMQPFrame::Header(1, _, header) => assert_eq!(header.body_size, body.len() as u64),
            other => panic!("broker: expected a content header on 1, got {:?}", other),
        }
        let mut received = 0;
        while received < body.len() {
            match broker.read_frame() {
                AMQPFrame::Body(1, chunk) => {
                    assert!(chunk.iter().all(|b| *b == 0xa5));
                    received += chunk.len();
                }
                other => panic!("broker: expected a body frame on 1, got {:?}", other),
            }
        }
        assert_eq!(received, body.len());
        match publisher.join().unwrap() {
            Ok(Ok(())) => (),
            other => panic!("large publish failed: {:?}", other),
        }
    });
    assert_channel_works(&mut channel, &mut broker);
}
