//@host src/lib.rs
// witness scenario from seeded change C09-d (independent sub-agent demonstration); passes on the unchanged tree
//! C09 demonstration: a server-initiated channel close must be reported by whatever call is in
//! flight on that channel, or by the next call on it - including when that call is
//! `Channel::close`.
//!
//! The tests drive the real client (`Connection`, `Channel`, the I/O thread) over a loopback TCP
//! socket against a tiny scripted broker living in this file. Nothing here depends on timing for
//! its verdict: every wait is for a specific event (with a generous timeout that only serves to
//! turn a hang into a failure).

use crate::serialize::OutputBuffer;
use crate::{Auth, Connection, ConnectionOptions, ConnectionTuning, Error, FieldTable, Publish};
use amq_protocol::frame::{parse_frame, AMQPFrame};
use amq_protocol::protocol::basic::AMQPMethod as AmqpBasic;
use amq_protocol::protocol::basic::QosOk;
use amq_protocol::protocol::channel::AMQPMethod as AmqpChannel;
use amq_protocol::protocol::channel::Close as ChannelClose;
use amq_protocol::protocol::channel::CloseOk as ChannelCloseOk;
use amq_protocol::protocol::channel::OpenOk as ChannelOpenOk;
use amq_protocol::protocol::connection::AMQPMethod as AmqpConnection;
use amq_protocol::protocol::connection::CloseOk as ConnectionCloseOk;
use amq_protocol::protocol::connection::OpenOk as ConnectionOpenOk;
use amq_protocol::protocol::connection::{Start, Tune};
use amq_protocol::protocol::AMQPClass;
use std::collections::{HashMap, HashSet};
use std::io::{self, Read, Write};
use std::net::{TcpListener, TcpStream};
use std::sync::mpsc::{self, Receiver, RecvTimeoutError, Sender, TryRecvError};
use std::thread;
use std::time::{Duration, Instant};

const PATIENCE: Duration = Duration::from_secs(20);

// ---------------------------------------------------------------------------------------------
// A scripted broker
// ---------------------------------------------------------------------------------------------

/// What the test tells the broker to do.
enum Command {
    /// Send Channel.Close(code, text) on this channel now.
    ServerClose(u16, u16, &'static str),
    /// When the client's Channel.Close for this channel arrives, do what RabbitMQ does when it has
    /// just decided to close that channel itself: send its own Channel.Close (the two cross on the
    /// wire), and answer the client's Close with a CloseOk once the client has answered ours.
    CrossNextClientClose(u16, u16, &'static str),
}

/// What the broker tells the test.
#[derive(Debug, PartialEq)]
enum Event {
    /// The command was executed.
    Done,
    /// The client sent Channel.CloseOk on this channel.
    ClientCloseOk(u16),
}

struct Broker {
    commands: Sender<Command>,
    events: Receiver<Event>,
    port: u16,
}

impl Broker {
    fn start() -> Broker {
        let listener = TcpListener::bind("127.0.0.1:0").unwrap();
        let port = listener.local_addr().unwrap().port();
        let (commands, command_rx) = mpsc::channel();
        let (event_tx, events) = mpsc::channel();
        thread::spawn(move || {
            let (socket, _) = listener.accept().unwrap();
            // any error here (the client went away, the deadline passed) just ends the broker;
            // the tests notice through their own timeouts
            let _ = serve(socket, command_rx, event_tx);
        });
        Broker {
            commands,
            events,
            port,
        }
    }

    fn connect(&self) -> Connection {
        let addr = format!("127.0.0.1:{}", self.port).parse().unwrap();
        let stream = mio::net::TcpStream::connect(&addr).unwrap();
        Connection::insecure_open_stream(
            stream,
            ConnectionOptions::<Auth>::default(),
            ConnectionTuning::default(),
        )
        .unwrap()
    }

    fn tell(&self, command: Command) {
        self.commands.send(command).unwrap();
        self.expect(Event::Done);
    }

    fn expect(&self, event: Event) {
        match self.events.recv_timeout(PATIENCE) {
            Ok(got) => assert_eq!(got, event),
            Err(RecvTimeoutError::Timeout) => panic!("broker did not report {:?}", event),
            Err(RecvTimeoutError::Disconnected) => panic!("broker ended before {:?}", event),
        }
    }
}

fn frame_bytes(channel_id: u16, method: AMQPClass) -> Vec<u8> {
    struct Raw(AMQPClass);
    impl crate::serialize::IntoAmqpClass for Raw {
        fn into_class(self) -> AMQPClass {
            self.0
        }
    }
    let mut buf = OutputBuffer::empty();
    buf.push_method(channel_id, Raw(method));
    buf[0..].to_vec()
}

fn channel_close(code: u16, text: &str) -> AMQPClass {
    AMQPClass::Channel(AmqpChannel::Close(ChannelClose {
        reply_code: code,
        reply_text: text.to_string(),
        class_id: 0,
        method_id: 0,
    }))
}

fn serve(mut socket: TcpStream, commands: Receiver<Command>, events: Sender<Event>) -> io::Result<()> {
    let deadline = Instant::now() + 3 * PATIENCE;
    socket.set_nodelay(true)?;
    socket.set_read_timeout(Some(Duration::from_millis(5)))?;

    let mut inbuf: Vec<u8> = Vec::new();
    let mut header_seen = false;
    // channels on which a publish to the exchange "missing" is waiting for its body
    let mut doomed_publish: HashSet<u16> = HashSet::new();
    // channels whose next client Close is to be crossed by a server Close
    let mut cross: HashMap<u16, (u16, &'static str)> = HashMap::new();
    // channels on which we owe the client a CloseOk for its crossed Close
    let mut owed_close_ok: HashSet<u16> = HashSet::new();

    loop {
        if Instant::now() > deadline {
            return Err(io::Error::new(io::ErrorKind::TimedOut, "broker deadline"));
        }

        // 1. commands from the test
        loop {
            match commands.try_recv() {
                Ok(Command::ServerClose(n, code, text)) => {
                    socket.write_all(&frame_bytes(n, channel_close(code, text)))?;
                    let _ = events.send(Event::Done);
                }
                Ok(Command::CrossNextClientClose(n, code, text)) => {
                    cross.insert(n, (code, text));
                    let _ = events.send(Event::Done);
                }
                Err(TryRecvError::Empty) => break,
                // the test is over; keep serving so that drops on the client side get answers
                Err(TryRecvError::Disconnected) => break,
            }
        }

        // 2. bytes from the client
        let mut chunk = [0u8; 4096];
        match socket.read(&mut chunk) {
            Ok(0) => return Ok(()),
            Ok(n) => inbuf.extend_from_slice(&chunk[..n]),
            Err(ref err)
                if err.kind() == io::ErrorKind::WouldBlock
                    || err.kind() == io::ErrorKind::TimedOut => {}
            Err(err) => return Err(err),
        }

        if !header_seen {
            if inbuf.len() < 8 {
                continue;
            }
            assert_eq!(&inbuf[..8], b"AMQP\x00\x00\x09\x01");
            inbuf.drain(..8);
            header_seen = true;
            let start = AmqpConnection::Start(Start {
                version_major: 0,
                version_minor: 9,
                server_properties: FieldTable::new(),
                mechanisms: "PLAIN".to_string(),
                locales: "en_US".to_string(),
            });
            socket.write_all(&frame_bytes(0, AMQPClass::Connection(start)))?;
        }

        // 3. whole frames
        loop {
            if inbuf.len() < 7 {
                break;
            }
            let size = u32::from_be_bytes([inbuf[3], inbuf[4], inbuf[5], inbuf[6]]) as usize + 8;
            if inbuf.len() < size {
                break;
            }
            let frame = match parse_frame(&inbuf[..size]) {
                Ok((_, frame)) => frame,
                Err(_) => return Err(io::Error::new(io::ErrorKind::InvalidData, "bad frame")),
            };
            inbuf.drain(..size);

            let mut reply = |n: u16, method: AMQPClass| socket.write_all(&frame_bytes(n, method));
            match frame {
                AMQPFrame::Method(0, AMQPClass::Connection(AmqpConnection::StartOk(_))) => {
                    let tune = AmqpConnection::Tune(Tune {
                        channel_max: 2047,
                        frame_max: 131_072,
                        heartbeat: 0,
                    });
                    reply(0, AMQPClass::Connection(tune))?;
                }
                AMQPFrame::Method(0, AMQPClass::Connection(AmqpConnection::TuneOk(_))) => {}
                AMQPFrame::Method(0, AMQPClass::Connection(AmqpConnection::Open(_))) => {
                    let open_ok = AmqpConnection::OpenOk(ConnectionOpenOk {
                        known_hosts: String::new(),
                    });
                    reply(0, AMQPClass::Connection(open_ok))?;
                }
                AMQPFrame::Method(0, AMQPClass::Connection(AmqpConnection::Close(_))) => {
                    let close_ok = AmqpConnection::CloseOk(ConnectionCloseOk {});
                    reply(0, AMQPClass::Connection(close_ok))?;
                    return Ok(());
                }
                AMQPFrame::Method(n, AMQPClass::Channel(AmqpChannel::Open(_))) => {
                    let open_ok = AmqpChannel::OpenOk(ChannelOpenOk {
                        channel_id: String::new(),
                    });
                    reply(n, AMQPClass::Channel(open_ok))?;
                }
                AMQPFrame::Method(n, AMQPClass::Channel(AmqpChannel::Close(_))) => {
                    if let Some((code, text)) = cross.remove(&n) {
                        reply(n, channel_close(code, text))?;
                        owed_close_ok.insert(n);
                    } else {
                        let close_ok = AmqpChannel::CloseOk(ChannelCloseOk {});
                        reply(n, AMQPClass::Channel(close_ok))?;
                    }
                }
                AMQPFrame::Method(n, AMQPClass::Channel(AmqpChannel::CloseOk(_))) => {
                    if owed_close_ok.remove(&n) {
                        let close_ok = AmqpChannel::CloseOk(ChannelCloseOk {});
                        reply(n, AMQPClass::Channel(close_ok))?;
                    }
                    let _ = events.send(Event::ClientCloseOk(n));
                }
                AMQPFrame::Method(n, AMQPClass::Basic(AmqpBasic::Qos(_))) => {
                    reply(n, AMQPClass::Basic(AmqpBasic::QosOk(QosOk {})))?;
                }
                AMQPFrame::Method(n, AMQPClass::Basic(AmqpBasic::Publish(publish))) => {
                    if publish.exchange == "missing" {
                        doomed_publish.insert(n);
                    }
                }
                AMQPFrame::Header(_, _, _) => {}
                AMQPFrame::Body(n, _) => {
                    // (the tests publish bodies that fit one frame)
                    if doomed_publish.remove(&n) {
                        reply(n, channel_close(404, NO_EXCHANGE))?;
                    }
                }
                other => panic!("scripted broker cannot answer {:?}", other),
            }
        }
    }
}

const NO_EXCHANGE: &str = "NOT_FOUND - no exchange 'missing' in vhost '/'";

// ---------------------------------------------------------------------------------------------
// Helpers
// ---------------------------------------------------------------------------------------------

/// Runs `body` on its own thread and fails (instead of hanging) if it does not finish.
fn within_patience<T: Send + 'static, F: FnOnce() -> T + Send + 'static>(body: F) -> T {
    let (tx, rx) = mpsc::channel();
    let worker = thread::spawn(move || {
        let _ = tx.send(body());
    });
    match rx.recv_timeout(3 * PATIENCE) {
        Ok(value) => value,
        Err(RecvTimeoutError::Timeout) => panic!("the client did not finish"),
        Err(RecvTimeoutError::Disconnected) => match worker.join() {
            Err(panic) => std::panic::resume_unwind(panic),
            Ok(()) => unreachable!(),
        },
    }
}

fn assert_server_closed<T: std::fmt::Debug>(
    result: crate::Result<T>,
    want_id: u16,
    want_code: u16,
    want_text: &str,
) {
    match result {
        Err(Error::ServerClosedChannel {
            channel_id,
            code,
            message,
        }) => {
            assert_eq!(
                (channel_id, code, message.as_str()),
                (want_id, want_code, want_text)
            );
        }
        other => panic!(
            "expected ServerClosedChannel({}, {}, {:?}), got {:?}",
            want_id, want_code, want_text, other
        ),
    }
}

// ---------------------------------------------------------------------------------------------
// Tests
// ---------------------------------------------------------------------------------------------

/// The classic fire-and-forget publisher: publish (no reply expected), then close the channel.
/// The publish went to an exchange that does not exist, so the server closed the channel; the
/// close() is the next call on the channel and the only chance to learn about it.
#[test]
fn close_after_failed_publish_reports_server_close() {
    within_patience(|| {
        let broker = Broker::start();
        let mut connection = broker.connect();
        let channel = connection.open_channel(Some(1)).unwrap();
        let other = connection.open_channel(Some(2)).unwrap();

        channel
            .basic_publish("missing", Publish::new(b"hello", "anywhere"))
            .unwrap();
        // the I/O thread has seen the server's Close and answered it
        broker.expect(Event::ClientCloseOk(1));

        assert_server_closed(channel.close(), 1, 404, NO_EXCHANGE);

        // nothing else suffered
        other.qos(0, 1, false).unwrap();
        other.close().unwrap();
        connection.close().unwrap();
    })
}

/// The channel's own Close is the call in flight when the server's Close arrives.
#[test]
fn close_in_flight_crossed_by_server_close_reports_server_close() {
    within_patience(|| {
        let broker = Broker::start();
        let mut connection = broker.connect();
        let channel = connection.open_channel(Some(7)).unwrap();
        let other = connection.open_channel(None).unwrap();

        broker.tell(Command::CrossNextClientClose(
            7,
            406,
            "PRECONDITION_FAILED - unknown delivery tag 3",
        ));
        assert_server_closed(
            channel.close(),
            7,
            406,
            "PRECONDITION_FAILED - unknown delivery tag 3",
        );
        broker.expect(Event::ClientCloseOk(7));

        other.qos(0, 1, false).unwrap();
        other.close().unwrap();
        connection.close().unwrap();
    })
}

/// Control (passes with or without the change): the same server close reported through an
/// ordinary call, later calls keep failing, the neighbour keeps working, the id can be reused.
#[test]
fn control_ordinary_calls_report_server_close() {
    within_patience(|| {
        let broker = Broker::start();
        let mut connection = broker.connect();
        let channel = connection.open_channel(Some(1)).unwrap();
        let other = connection.open_channel(Some(2)).unwrap();

        broker.tell(Command::ServerClose(1, 404, NO_EXCHANGE));
        broker.expect(Event::ClientCloseOk(1));

        assert_server_closed(channel.qos(0, 1, false), 1, 404, NO_EXCHANGE);
        assert!(channel.qos(0, 1, false).is_err());
        assert!(channel
            .basic_publish("", Publish::new(b"x", "q"))
            .is_err());
        other.qos(0, 1, false).unwrap();

        let again = connection.open_channel(Some(1)).unwrap();
        again.qos(0, 1, false).unwrap();
        again.close().unwrap();

        // dropping the dead channel must not disturb anything either
        drop(channel);
        other.qos(0, 1, false).unwrap();
        other.close().unwrap();
        connection.close().unwrap();
    })
}

/// Control (passes with or without the change): closing a healthy channel still works and an
/// unrelated failure of close() is still reported.
#[test]
fn control_plain_close() {
    within_patience(|| {
        let broker = Broker::start();
        let mut connection = broker.connect();
        let channel = connection.open_channel(None).unwrap();
        assert_eq!(channel.channel_id(), 1);
        channel.close().unwrap();

        let channel = connection.open_channel(None).unwrap();
        connection.close().unwrap();
        match channel.close() {
            Err(Error::ServerClosedChannel { .. }) | Ok(()) => {
                panic!("close() on a channel of a closed connection must fail as before")
            }
            Err(_) => {}
        }
    })
}
