//@host src/lib.rs
// witness scenario from seeded change C09-g (independent sub-agent demonstration); passes on the unchanged tree
//! Demonstration for property C09 ("a server-initiated channel close affects that channel only").
//!
//! A scripted broker on a loopback socket drives the real I/O thread and the real client handles.
//! The broker closes a channel (404 NOT_FOUND) as soon as it sees a `basic.publish` method frame
//! naming an exchange that starts with `missing`, or a `queue.declare` for a queue that starts
//! with `missing` - i.e. possibly before the content frames of that publish were handed to the
//! I/O thread.
//!
//! * `close_between_publish_method_and_content_is_reported_as_server_closed_channel` is the
//!   demonstration proper: the close lands after the publish method frame was handed over and
//!   before the content frames are. The publish is the call in flight on that channel; it has to
//!   fail with `ServerClosedChannel` carrying the channel id and the server's code and text.
//! * the two `control_*` tests pass with or without the library change.
//!
//! Nothing here depends on timing: the client thread waits for the broker to report the
//! `channel.close-ok` before it carries on, and everything that waits does so with a timeout.

use crate::io_loop::{Channel0Handle, ChannelHandle, IoLoop};
use crate::serialize::{IntoAmqpClass, OutputBuffer};
use crate::{
    AmqpProperties, Auth, Connection, ConnectionOptions, ConnectionTuning, Error, FieldTable,
    QueueDeclareOptions, Result,
};
use amq_protocol::frame::{parse_frame, AMQPFrame};
use amq_protocol::protocol::basic::AMQPMethod as AmqpBasic;
use amq_protocol::protocol::basic::Publish as AmqpPublish;
use amq_protocol::protocol::basic::{Qos, QosOk};
use amq_protocol::protocol::channel::AMQPMethod as AmqpChannel;
use amq_protocol::protocol::channel::Close as ChannelClose;
use amq_protocol::protocol::channel::CloseOk as ChannelCloseOk;
use amq_protocol::protocol::channel::OpenOk as ChannelOpenOk;
use amq_protocol::protocol::connection::AMQPMethod as AmqpConnection;
use amq_protocol::protocol::connection::CloseOk as ConnectionCloseOk;
use amq_protocol::protocol::connection::OpenOk as ConnectionOpenOk;
use amq_protocol::protocol::connection::{Start, Tune};
use amq_protocol::protocol::queue::AMQPMethod as AmqpQueue;
use amq_protocol::protocol::queue::DeclareOk as QueueDeclareOk;
use amq_protocol::protocol::AMQPClass;
use std::collections::HashMap;
use std::io::{Read, Write};
use std::net::{SocketAddr, TcpListener, TcpStream};
use std::sync::mpsc::{channel, Receiver, RecvTimeoutError, Sender};
use std::thread::{self, JoinHandle};
use std::time::Duration;

const WAIT: Duration = Duration::from_secs(20);
const FRAME_MAX: u32 = 4096;
const CLOSE_CODE: u16 = 404;

/// What the broker reports back to the test.
#[derive(Debug, PartialEq)]
enum Seen {
    /// `channel.close-ok` arrived on this channel.
    ChannelCloseOk(u16),
    /// A complete message arrived: channel, exchange, number of body frames, body.
    Published(u16, String, usize, Vec<u8>),
}

fn close_text(what: &str, name: &str) -> String {
    format!("NOT_FOUND - no {} '{}' in vhost '/'", what, name)
}

struct PendingPublish {
    exchange: String,
    size: Option<u64>,
    frames: usize,
    body: Vec<u8>,
}

struct Broker {
    stream: TcpStream,
    inbuf: Vec<u8>,
    seen: Sender<Seen>,
    // channels the broker has closed and whose close-ok it is still waiting for; frames on them
    // are discarded, as the protocol demands
    closing: Vec<u16>,
    publishing: HashMap<u16, PendingPublish>,
}

impl Broker {
    fn send<M: IntoAmqpClass>(&mut self, channel_id: u16, method: M) {
        let mut buf = OutputBuffer::empty();
        buf.push_method(channel_id, method);
        self.stream.write_all(&buf[0..]).expect("broker write");
    }

    fn close_channel(&mut self, channel_id: u16, text: String, class_id: u16, method_id: u16) {
        self.closing.push(channel_id);
        self.publishing.remove(&channel_id);
        self.send(
            channel_id,
            AmqpChannel::Close(ChannelClose {
                reply_code: CLOSE_CODE,
                reply_text: text,
                class_id,
                method_id,
            }),
        );
    }

    fn fill(&mut self) -> bool {
        let mut chunk = [0u8; 8192];
        match self.stream.read(&mut chunk) {
            Ok(0) => false,
            Ok(n) => {
                self.inbuf.extend_from_slice(&chunk[..n]);
                true
            }
            // read timeout or reset: the test is over (or stuck; its own timeouts report that)
            Err(_) => false,
        }
    }

    fn next_frame(&mut self) -> Option<AMQPFrame> {
        loop {
            if self.inbuf.len() >= 7 {
                let size = u32::from_be_bytes([
                    self.inbuf[3],
                    self.inbuf[4],
                    self.inbuf[5],
                    self.inbuf[6],
                ]) as usize
                    + 8;
                if self.inbuf.len() >= size {
                    let frame = match parse_frame(&self.inbuf[..size]) {
                        Ok((_, frame)) => frame,
                        Err(_) => panic!("broker could not parse a frame sent by the client"),
                    };
                    self.inbuf.drain(..size);
                    return Some(frame);
                }
            }
            if !self.fill() {
                return None;
            }
        }
    }

    fn published(&mut self, channel_id: u16) {
        let done = match self.publishing.get(&channel_id) {
            Some(p) => p.size == Some(p.body.len() as u64),
            None => false,
        };
        if done {
            let p = self.publishing.remove(&channel_id).unwrap();
            let _ = self
                .seen
                .send(Seen::Published(channel_id, p.exchange, p.frames, p.body));
        }
    }

    fn run(mut self) {
        // protocol header, then connection.start
        while self.inbuf.len() < 8 {
            if !self.fill() {
                return;
            }
        }
        assert_eq!(&self.inbuf[..8], b"AMQP\x00\x00\x09\x01");
        self.inbuf.drain(..8);
        self.send(
            0,
            AmqpConnection::Start(Start {
                version_major: 0,
                version_minor: 9,
                server_properties: FieldTable::new(),
                mechanisms: "PLAIN".to_string(),
                locales: "en_US".to_string(),
            }),
        );

        while let Some(frame) = self.next_frame() {
            let channel_id = match &frame {
                AMQPFrame::Method(n, _) | AMQPFrame::Header(n, _, _) | AMQPFrame::Body(n, _) => *n,
                AMQPFrame::Heartbeat(_) | AMQPFrame::ProtocolHeader => continue,
            };
            if self.closing.contains(&channel_id) {
                if let AMQPFrame::Method(n, AMQPClass::Channel(AmqpChannel::CloseOk(_))) = frame {
                    self.closing.retain(|c| *c != n);
                    let _ = self.seen.send(Seen::ChannelCloseOk(n));
                }
                continue;
            }
            match frame {
                AMQPFrame::Method(0, AMQPClass::Connection(method)) => match method {
                    AmqpConnection::StartOk(_) => self.send(
                        0,
                        AmqpConnection::Tune(Tune {
                            channel_max: 8,
                            frame_max: FRAME_MAX,
                            heartbeat: 0,
                        }),
                    ),
                    AmqpConnection::TuneOk(_) => (),
                    AmqpConnection::Open(_) => self.send(
                        0,
                        AmqpConnection::OpenOk(ConnectionOpenOk {
                            known_hosts: String::new(),
                        }),
                    ),
                    AmqpConnection::Close(_) => {
                        self.send(0, AmqpConnection::CloseOk(ConnectionCloseOk {}));
                        return;
                    }
                    other => panic!("broker: unexpected connection method {:?}", other),
                },
                AMQPFrame::Method(n, AMQPClass::Channel(AmqpChannel::Open(_))) => self.send(
                    n,
                    AmqpChannel::OpenOk(ChannelOpenOk {
                        channel_id: String::new(),
                    }),
                ),
                AMQPFrame::Method(n, AMQPClass::Channel(AmqpChannel::Close(_))) => {
                    self.send(n, AmqpChannel::CloseOk(ChannelCloseOk {}))
                }
                AMQPFrame::Method(n, AMQPClass::Basic(AmqpBasic::Qos(_))) => {
                    self.send(n, AmqpBasic::QosOk(QosOk {}))
                }
                AMQPFrame::Method(n, AMQPClass::Queue(AmqpQueue::Declare(declare))) => {
                    if declare.queue.starts_with("missing") {
                        self.close_channel(n, close_text("queue", &declare.queue), 50, 10);
                    } else if !declare.nowait {
                        self.send(
                            n,
                            AmqpQueue::DeclareOk(QueueDeclareOk {
                                queue: declare.queue,
                                message_count: u32::from(n),
                                consumer_count: 0,
                            }),
                        );
                    }
                }
                AMQPFrame::Method(n, AMQPClass::Basic(AmqpBasic::Publish(publish))) => {
                    if publish.exchange.starts_with("missing") {
                        self.close_channel(n, close_text("exchange", &publish.exchange), 60, 40);
                    } else {
                        let pending = PendingPublish {
                            exchange: publish.exchange,
                            size: None,
                            frames: 0,
                            body: Vec::new(),
                        };
                        assert!(self.publishing.insert(n, pending).is_none());
                    }
                }
                AMQPFrame::Header(n, _, header) => {
                    let p = self.publishing.get_mut(&n).expect("header without publish");
                    assert!(p.size.is_none());
                    p.size = Some(header.body_size);
                    self.published(n);
                }
                AMQPFrame::Body(n, mut body) => {
                    let p = self.publishing.get_mut(&n).expect("body without publish");
                    assert!(p.size.is_some());
                    p.frames += 1;
                    p.body.append(&mut body);
                    self.published(n);
                }
                other => panic!("broker: unexpected frame {:?}", other),
            }
        }
    }
}

fn start_broker() -> (SocketAddr, Receiver<Seen>, JoinHandle<()>) {
    let listener = TcpListener::bind("127.0.0.1:0").expect("bind");
    let addr = listener.local_addr().expect("local_addr");
    let (seen_tx, seen_rx) = channel();
    let thread = thread::spawn(move || {
        let (stream, _) = listener.accept().expect("accept");
        stream.set_read_timeout(Some(WAIT)).expect("timeout");
        stream.set_nodelay(true).expect("nodelay");
        Broker {
            stream,
            inbuf: Vec::new(),
            seen: seen_tx,
            closing: Vec::new(),
            publishing: HashMap::new(),
        }
        .run()
    });
    (addr, seen_rx, thread)
}

fn client_stream(addr: &SocketAddr) -> mio::net::TcpStream {
    mio::net::TcpStream::connect(addr).expect("connect")
}

/// Runs `f` on its own thread and fails (instead of hanging) if it does not finish.
fn with_watchdog<F: FnOnce() + Send + 'static>(f: F) {
    let (done_tx, done_rx) = channel();
    let worker = thread::spawn(move || {
        f();
        let _ = done_tx.send(());
    });
    match done_rx.recv_timeout(WAIT + WAIT) {
        Ok(()) => worker.join().expect("worker"),
        Err(RecvTimeoutError::Timeout) => panic!("demonstration timed out"),
        Err(RecvTimeoutError::Disconnected) => match worker.join() {
            Err(panic) => std::panic::resume_unwind(panic),
            Ok(()) => unreachable!(),
        },
    }
}

fn expect_seen(seen: &Receiver<Seen>, expected: Seen) {
    match seen.recv_timeout(WAIT) {
        Ok(got) => assert_eq!(got, expected),
        Err(_) => panic!("broker did not report {:?}", expected),
    }
}

fn publish_method(exchange: &str) -> AmqpBasic {
    AmqpBasic::Publish(AmqpPublish {
        ticket: 0,
        exchange: exchange.to_string(),
        routing_key: "rk".to_string(),
        mandatory: false,
        immediate: false,
    })
}

fn assert_server_closed_channel<T: std::fmt::Debug>(
    result: Result<T>,
    expected_id: u16,
    expected_text: &str,
) {
    match result {
        Err(Error::ServerClosedChannel {
            channel_id,
            code,
            message,
        }) => {
            assert_eq!(channel_id, expected_id);
            assert_eq!(code, CLOSE_CODE);
            assert_eq!(message, expected_text);
        }
        other => panic!(
            "expected ServerClosedChannel for channel {}, got {:?}",
            expected_id, other
        ),
    }
}

struct Client {
    io_thread: JoinHandle<Result<()>>,
    ch0: Channel0Handle,
    seen: Receiver<Seen>,
    broker: JoinHandle<()>,
}

impl Client {
    fn open() -> Client {
        let (addr, seen, broker) = start_broker();
        let io_loop = IoLoop::new(ConnectionTuning::default()).expect("io loop");
        let (io_thread, _, ch0) = io_loop
            .start(client_stream(&addr), ConnectionOptions::<Auth>::default())
            .expect("handshake");
        Client {
            io_thread,
            ch0,
            seen,
            broker,
        }
    }

    fn channel(&mut self, id: u16) -> ChannelHandle {
        let handle = self.ch0.open_channel(Some(id)).expect("open channel");
        assert_eq!(handle.channel_id(), id);
        handle
    }

    fn finish(mut self) {
        self.ch0.close_connection().expect("close connection");
        self.io_thread
            .join()
            .expect("I/O thread panicked")
            .expect("I/O thread failed");
        self.broker.join().expect("broker panicked");
    }
}

fn qos(handle: &mut ChannelHandle) -> Result<QosOk> {
    handle.call::<_, QosOk>(AmqpBasic::Qos(Qos {
        prefetch_size: 0,
        prefetch_count: 1,
        global: false,
    }))
}

/// The demonstration. Channel 1 is in the middle of a publish (method frame handed over, content
/// frames not yet) when the server closes it; channel 2 is idle.
#[test]
fn close_between_publish_method_and_content_is_reported_as_server_closed_channel() {
    with_watchdog(|| {
        let mut client = Client::open();
        let mut ch1 = client.channel(1);
        let mut ch2 = client.channel(2);
        let props = AmqpProperties::default();
        let class_id = AmqpPublish::get_class_id();

        // first half of Channel::basic_publish ...
        ch1.call_nowait(publish_method("missing-exchange"))
            .expect("handing over the publish method");
        // ... the server refuses it and closes channel 1; the client has answered close-ok ...
        expect_seen(&client.seen, Seen::ChannelCloseOk(1));
        // ... second half of Channel::basic_publish. This is the call in flight on channel 1.
        let result = ch1.send_content(b"payload", class_id, &props);
        assert_server_closed_channel(
            result,
            1,
            &close_text("exchange", "missing-exchange"),
        );

        // later calls on channel 1 keep failing
        assert!(ch1.send_content(b"payload", class_id, &props).is_err());
        assert!(qos(&mut ch1).is_err());

        // channel 2, the connection and id 1 are fine
        qos(&mut ch2).expect("channel 2 still works");
        let mut ch1_again = client.channel(1);
        qos(&mut ch1_again).expect("re-opened channel 1 works");

        client.finish();
    });
}

/// Control: publishes that are not interrupted reach the broker unchanged (single frame, several
/// frames, empty body), also while another channel is being closed by the server.
#[test]
fn control_uninterrupted_publishes_arrive_intact() {
    with_watchdog(|| {
        let mut client = Client::open();
        let mut ch1 = client.channel(1);
        let mut ch2 = client.channel(2);
        let props = AmqpProperties::default();
        let class_id = AmqpPublish::get_class_id();
        let chunk = FRAME_MAX as usize - 8;

        let big: Vec<u8> = (0..2 * chunk + 17).map(|i| (i % 251) as u8).collect();
        ch2.call_nowait(publish_method("amq.direct")).unwrap();
        ch1.call_nowait(publish_method("missing-exchange")).unwrap();
        expect_seen(&client.seen, Seen::ChannelCloseOk(1));
        ch2.send_content(&big, class_id, &props).unwrap();
        expect_seen(
            &client.seen,
            Seen::Published(2, "amq.direct".to_string(), 3, big),
        );

        ch2.call_nowait(publish_method("amq.topic")).unwrap();
        ch2.send_content(b"small", class_id, &props).unwrap();
        expect_seen(
            &client.seen,
            Seen::Published(2, "amq.topic".to_string(), 1, b"small".to_vec()),
        );

        ch2.call_nowait(publish_method("amq.fanout")).unwrap();
        ch2.send_content(b"", class_id, &props).unwrap();
        expect_seen(
            &client.seen,
            Seen::Published(2, "amq.fanout".to_string(), 0, Vec::new()),
        );

        client.finish();
    });
}

/// Control, through the public API: the server closes channel 1 in answer to a synchronous call
/// (call in flight), and closes channel 3 while it is idle from the client's point of view (in
/// answer to a nowait declare).
#[test]
fn control_server_close_hits_the_call_in_flight_or_the_next_call() {
    with_watchdog(|| {
        let (addr, seen, broker) = start_broker();
        let mut conn = Connection::insecure_open_stream(
            client_stream(&addr),
            ConnectionOptions::<Auth>::default(),
            ConnectionTuning::default(),
        )
        .expect("open");
        let ch1 = conn.open_channel(Some(1)).unwrap();
        let ch2 = conn.open_channel(Some(2)).unwrap();
        let ch3 = conn.open_channel(Some(3)).unwrap();

        // call in flight
        let result = ch1
            .queue_declare("missing-queue", QueueDeclareOptions::default())
            .map(|q| q.name().to_string());
        assert_server_closed_channel(result, 1, &close_text("queue", "missing-queue"));
        expect_seen(&seen, Seen::ChannelCloseOk(1));
        assert!(ch1.qos(0, 1, false).is_err());

        // idle when the close arrives: the next call reports it
        ch3.queue_declare_nowait("missing-too", QueueDeclareOptions::default())
            .map(|_| ())
            .expect("nowait declare is asynchronous");
        expect_seen(&seen, Seen::ChannelCloseOk(3));
        assert_server_closed_channel(
            ch3.qos(0, 1, false),
            3,
            &close_text("queue", "missing-too"),
        );
        assert!(ch3.qos(0, 1, false).is_err());

        // the other channel gets its own replies, the ids can be used again
        {
            let q = ch2
                .queue_declare("q-two", QueueDeclareOptions::default())
                .unwrap();
            assert_eq!(q.name(), "q-two");
            assert_eq!(q.declared_message_count(), Some(2));
        }
        let ch1_again = conn.open_channel(Some(1)).unwrap();
        {
            let q = ch1_again
                .queue_declare("q-one", QueueDeclareOptions::default())
                .unwrap();
            assert_eq!(q.name(), "q-one");
            assert_eq!(q.declared_message_count(), Some(1));
        }

        // dropping a channel closes it (the broker answers); the two dead ones just fail quietly
        drop((ch1, ch2, ch3, ch1_again));
        conn.close().expect("close");
        broker.join().expect("broker panicked");
    });
}
