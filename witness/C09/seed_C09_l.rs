//@host src/io_loop/mod.rs
// witness scenario from seeded change C09-l (independent sub-agent demonstration); passes on the unchanged tree
//! Demonstration for C09 ("a server-initiated channel close affects that channel only").
//!
//! The tests drive the real pieces directly, without a socket and without an I/O thread: the
//! test's main thread plays the I/O thread (it owns `Inner` and the `ConnectionState` and feeds
//! frames to `ConnectionState::process`, exactly as `read_from_stream` does), and the client side
//! is the real `IoLoopHandle` created by `ChannelSlot::new`.
//!
//! `blocked_caller_sees_the_servers_close` is the demonstration: the caller on channel n is
//! blocked handing a message to the I/O thread (the bounded queue of n is full, as happens when
//! the I/O thread has stopped listening to the channels because too many writes are buffered)
//! at the moment the server's Channel.Close for n is processed. The call in flight has to fail
//! with ServerClosedChannel carrying n and the server's code and text.
//!
//! The other tests are controls that hold with and without the seeded change.

use super::*;
use amq_protocol::frame::parse_frame;
use amq_protocol::protocol::basic::AMQPMethod as AmqpBasic;
use amq_protocol::protocol::basic::Ack;
use amq_protocol::protocol::channel::AMQPMethod as AmqpChannel;
use amq_protocol::protocol::channel::Close as ChannelClose;
use std::sync::atomic::{AtomicBool, Ordering};
use std::sync::mpsc;
use std::sync::Arc;
use std::thread;

const CODE: u16 = 406;
const TEXT: &str = "PRECONDITION_FAILED - demo";
const WATCHDOG: Duration = Duration::from_secs(10);

struct Rig {
    inner: Inner,
    state: ConnectionState,
    // kept alive: dropping it would look like the client having gone away
    _ch0: IoLoopHandle0,
}

fn rig(bound: usize) -> Rig {
    let mut inner = Inner::new(HeartbeatTimers::default(), bound);
    inner.chan_slots.set_channel_max(16);
    // forget the protocol header; we only want to see what the steady state writes
    inner.outbuf.clear();
    let (ch0_slot, ch0) = Channel0Slot::new(bound);
    Rig {
        inner,
        state: ConnectionState::Steady(ch0_slot),
        _ch0: ch0,
    }
}

impl Rig {
    fn open(&mut self, id: u16) -> Result<IoLoopHandle> {
        let bound = self.inner.mio_channel_bound;
        self.inner
            .chan_slots
            .insert(Some(id), |id| Ok(ChannelSlot::new(bound, id)))
    }

    fn server_closes(&mut self, id: u16) {
        let close = ChannelClose {
            reply_code: CODE,
            reply_text: TEXT.to_string(),
            class_id: 60,
            method_id: 40,
        };
        let frame = AMQPFrame::Method(id, AMQPClass::Channel(AmqpChannel::Close(close)));
        self.state.process(&mut self.inner, frame).unwrap();
    }

    // All frames queued for the socket so far.
    fn written(&self) -> Vec<AMQPFrame> {
        let mut frames = Vec::new();
        let mut bytes = &self.inner.outbuf[0..];
        while !bytes.is_empty() {
            let (rest, frame) = parse_frame(bytes).expect("client wrote a malformed frame");
            frames.push(frame);
            bytes = rest;
        }
        frames
    }
}

fn ack(tag: u64) -> AmqpBasic {
    AmqpBasic::Ack(Ack {
        delivery_tag: tag,
        multiple: false,
    })
}

fn is_close_ok_on(frame: &AMQPFrame, id: u16) -> bool {
    match frame {
        AMQPFrame::Method(n, AMQPClass::Channel(AmqpChannel::CloseOk(_))) => *n == id,
        _ => false,
    }
}

fn is_ack_on(frame: &AMQPFrame, id: u16, tag: u64) -> bool {
    match frame {
        AMQPFrame::Method(n, AMQPClass::Basic(AmqpBasic::Ack(ack))) => {
            *n == id && ack.delivery_tag == tag
        }
        _ => false,
    }
}

fn assert_server_closed(err: Error, id: u16) {
    match err {
        Error::ServerClosedChannel {
            channel_id,
            code,
            message,
        } => {
            assert_eq!(channel_id, id);
            assert_eq!(code, CODE);
            assert_eq!(message, TEXT);
        }
        other => panic!(
            "call on channel {} should fail with ServerClosedChannel, got {:?}",
            id, other
        ),
    }
}

// Runs two one-way calls on `handle` in a second thread. The first one fits into the queue to
// the I/O thread (bound 1, nobody is reading), the second one has to wait for room. Returns the
// flag raised after the first call and the receiver for the result of the second.
fn spawn_two_calls(
    mut handle: IoLoopHandle,
) -> (Arc<AtomicBool>, mpsc::Receiver<(Result<()>, IoLoopHandle)>) {
    let first_done = Arc::new(AtomicBool::new(false));
    let flag = Arc::clone(&first_done);
    let (tx, rx) = mpsc::channel();
    thread::spawn(move || {
        handle.call_nowait(ack(1)).unwrap();
        flag.store(true, Ordering::SeqCst);
        let second = handle.call_nowait(ack(2));
        let _ = tx.send((second, handle));
    });
    (first_done, rx)
}

fn wait_until_second_call_is_waiting(first_done: &AtomicBool) {
    let start = Instant::now();
    while !first_done.load(Ordering::SeqCst) {
        assert!(start.elapsed() < WATCHDOG, "first call never returned");
        thread::yield_now();
    }
    // There is no way to observe "blocked inside send"; give the thread ample time to get
    // there. (If it does not, the test still passes on a correct library.)
    thread::sleep(Duration::from_millis(500));
}

/// DEMONSTRATION. Channel 3's caller is waiting for room in the full queue to the I/O thread when
/// the server closes channel 3.
#[test]
fn blocked_caller_sees_the_servers_close() {
    let mut rig = rig(1);
    let h3 = rig.open(3).unwrap();
    let mut h5 = rig.open(5).unwrap();

    let (first_done, result) = spawn_two_calls(h3);
    wait_until_second_call_is_waiting(&first_done);

    // the I/O thread (us) reads the server's Channel.Close for channel 3
    rig.server_closes(3);

    let (second, mut h3) = result
        .recv_timeout(WATCHDOG)
        .expect("caller blocked on channel 3 was never released");
    assert_server_closed(second.unwrap_err(), 3);

    // later calls keep failing
    match h3.call_nowait(ack(3)).unwrap_err() {
        Error::EventLoopDropped => (),
        other => panic!("unexpected error on a later call: {:?}", other),
    }

    // the client answered CloseOk on 3 and nothing channel 3 had queued went out
    let frames = rig.written();
    assert_eq!(frames.len(), 1, "{:?}", frames);
    assert!(is_close_ok_on(&frames[0], 3), "{:?}", frames);

    // channel 5 is unaffected
    h5.call_nowait(ack(7)).unwrap();
    rig.inner.handle_channel_readable(5).unwrap();
    let frames = rig.written();
    assert_eq!(frames.len(), 2, "{:?}", frames);
    assert!(is_ack_on(&frames[1], 5, 7), "{:?}", frames);

    // and id 3 can be used for a new channel
    let mut h3_new = rig.open(3).unwrap();
    h3_new.call_nowait(ack(9)).unwrap();
    rig.inner.handle_channel_readable(3).unwrap();
    assert!(is_ack_on(&rig.written()[2], 3, 9));
}

/// CONTROL. Same close, but the channel is idle: the next call finds the queue's receiving end
/// gone and reports the server's close, later calls keep failing, other channels are unaffected.
#[test]
fn control_idle_channel_next_call_sees_the_servers_close() {
    let mut rig = rig(1);
    let mut h3 = rig.open(3).unwrap();
    let mut h5 = rig.open(5).unwrap();

    rig.server_closes(3);

    assert_server_closed(h3.call_nowait(ack(1)).unwrap_err(), 3);
    match h3.call_nowait(ack(2)).unwrap_err() {
        Error::EventLoopDropped => (),
        other => panic!("unexpected error on a later call: {:?}", other),
    }

    h5.call_nowait(ack(7)).unwrap();
    rig.inner.handle_channel_readable(5).unwrap();
    let frames = rig.written();
    assert_eq!(frames.len(), 2, "{:?}", frames);
    assert!(is_close_ok_on(&frames[0], 3), "{:?}", frames);
    assert!(is_ack_on(&frames[1], 5, 7), "{:?}", frames);

    assert!(rig.open(5).is_err(), "id 5 is still taken");
    assert!(rig.open(3).is_ok(), "id 3 is free again");
}

/// CONTROL. A caller waiting for room in a full queue is released, successfully, when the I/O
/// thread gets round to reading the queue; both messages go out in order.
#[test]
fn control_blocked_caller_is_released_when_the_queue_is_read() {
    let mut rig = rig(1);
    let h3 = rig.open(3).unwrap();

    let (first_done, result) = spawn_two_calls(h3);
    wait_until_second_call_is_waiting(&first_done);

    // the I/O thread (us) reads channel 3's queue until the second message has arrived too
    let start = Instant::now();
    while rig.written().len() < 2 {
        assert!(start.elapsed() < WATCHDOG, "second message never arrived");
        rig.inner.handle_channel_readable(3).unwrap();
        thread::yield_now();
    }

    let (second, h3) = result
        .recv_timeout(WATCHDOG)
        .expect("caller blocked on channel 3 was never released");
    second.unwrap();
    let frames = rig.written();
    assert_eq!(frames.len(), 2, "{:?}", frames);
    assert!(is_ack_on(&frames[0], 3, 1), "{:?}", frames);
    assert!(is_ack_on(&frames[1], 3, 2), "{:?}", frames);

    // the handle is still attached to a live slot; do not let its drop look like a vanished client
    std::mem::forget(h3);
}
