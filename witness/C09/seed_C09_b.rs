//@host src/io_loop/io_loop_handle.rs
// witness scenario from seeded change C09-b (independent sub-agent demonstration); passes on the unchanged tree
// Demonstration for seed C09b.
//
// Wired in as a child module of io_loop::io_loop_handle (see the `#[cfg(test)] #[path = ...] mod`
// line at the bottom of src/io_loop/io_loop_handle.rs) so that it can look at the receiving end of
// a channel handle directly; everything else it drives is the real I/O-thread state machine
// (Inner + ConnectionState::process) and the real constructors (ChannelSlot::new,
// Channel0Slot::new, ChannelSlots::insert).
//
// Scenario (all of it legal AMQP): channels 1 and 2 are open. The client has a Basic.Qos call in
// flight on channel 1. The server answers it with Basic.QosOk and, right behind it (e.g. in the
// same TCP segment, so the I/O thread handles both frames before the calling thread has woken up
// and picked up the reply), closes channel 1 with Channel.Close(406, "PRECONDITION_FAILED - x").

use super::super::connection_state::ConnectionState;
use super::super::{Channel0Slot, ChannelSlot, Inner};
use super::IoLoopHandle;
use crate::errors::Error;
use crate::serialize::OutputBuffer;
use amq_protocol::frame::AMQPFrame;
use amq_protocol::protocol::basic::AMQPMethod as AmqpBasic;
use amq_protocol::protocol::basic::{Qos, QosOk};
use amq_protocol::protocol::channel::AMQPMethod as AmqpChannel;
use amq_protocol::protocol::channel::{Close, CloseOk};
use amq_protocol::protocol::AMQPClass;

const BOUND: usize = 16; // ConnectionTuning::default().mem_channel_bound

fn open_channel(inner: &mut Inner, id: u16) -> IoLoopHandle {
    inner
        .chan_slots
        .insert(Some(id), |id| Ok(ChannelSlot::new(BOUND, id)))
        .unwrap()
}

fn qos() -> AmqpBasic {
    AmqpBasic::Qos(Qos {
        prefetch_size: 0,
        prefetch_count: 10,
        global: false,
    })
}

fn qos_ok(channel_id: u16) -> AMQPFrame {
    AMQPFrame::Method(channel_id, AMQPClass::Basic(AmqpBasic::QosOk(QosOk {})))
}

#[test]
fn server_close_right_behind_a_reply_affects_that_channel_only() {
    let mut inner = Inner::new(Default::default(), BOUND);
    inner.chan_slots.set_channel_max(8);
    let (ch0_slot, _ch0_handle) = Channel0Slot::new(BOUND);
    let mut state = ConnectionState::Steady(ch0_slot);

    let mut h1 = open_channel(&mut inner, 1);
    let mut h2 = open_channel(&mut inner, 2);

    // Client: Basic.Qos goes out on channel 1 (the "send" half of a synchronous call); the I/O
    // thread picks it up and queues it for the socket.
    h1.call_nowait(qos()).unwrap();
    inner.handle_channel_readable(1).unwrap();
    inner.outbuf.clear(); // pretend everything so far (protocol header, qos) was written

    // Server: QosOk on 1, immediately followed by Channel.Close on 1. The I/O thread processes
    // both before the calling thread gets to run.
    state.process(&mut inner, qos_ok(1)).unwrap();
    let res = state.process(
        &mut inner,
        AMQPFrame::Method(
            1,
            AMQPClass::Channel(AmqpChannel::Close(Close {
                reply_code: 406,
                reply_text: "PRECONDITION_FAILED - x".to_string(),
                class_id: 60,
                method_id: 10,
            })),
        ),
    );
    // An Err out of process() ends the I/O thread, i.e. takes down the whole connection and every
    // other channel with it.
    assert!(
        res.is_ok(),
        "server closing channel 1 killed the I/O loop (and with it channel 2 and the connection): {:?}",
        res
    );
    assert!(matches!(state, ConnectionState::Steady(_)));

    // The client answered Channel.CloseOk on channel 1, and nothing else.
    let mut expected = OutputBuffer::empty();
    expected.push_method(1, AmqpChannel::CloseOk(CloseOk {}));
    assert_eq!(&inner.outbuf[0..], &expected[0..]);

    // Channel 1: the call in flight gets its reply, the next thing the handle sees is
    // ServerClosedChannel with the server's code and text, and later calls keep failing.
    match h1.rx.try_recv() {
        Ok(Ok(super::ChannelMessage::Method(AMQPClass::Basic(AmqpBasic::QosOk(_))))) => {}
        _ => panic!("reply to the call in flight on channel 1 was lost"),
    }
    match h1.call_nowait(qos()) {
        Err(Error::ServerClosedChannel {
            channel_id: 1,
            code: 406,
            ref message,
        }) if message == "PRECONDITION_FAILED - x" => {}
        other => panic!("expected ServerClosedChannel on channel 1, got {:?}", other),
    }
    assert!(h1.call_nowait(qos()).is_err());

    // Channel 2 is unaffected: a call on it still goes out and its reply comes back to it.
    assert!(inner.chan_slots.get(1).is_none());
    assert!(inner.chan_slots.get(2).is_some());
    h2.call_nowait(qos()).unwrap();
    inner.handle_channel_readable(2).unwrap();
    state.process(&mut inner, qos_ok(2)).unwrap();
    match h2.rx.try_recv() {
        Ok(Ok(super::ChannelMessage::Method(AMQPClass::Basic(AmqpBasic::QosOk(_))))) => {}
        _ => panic!("reply on channel 2 was lost"),
    }

    // And id 1 is available again for a new channel.
    let h1b = open_channel(&mut inner, 1);
    assert_eq!(h1b.channel_id(), 1);
}
