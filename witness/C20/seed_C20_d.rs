//@host src/io_loop/mod.rs
// witness scenario from seeded change C20-d (independent sub-agent demonstration); passes on the unchanged tree
//! Demonstration for property C20 ("simultaneous closes and requests never panic; they resolve
//! as some serial order"), crossing-close flavour: the client's `Connection::close` request is
//! handled by the I/O thread first and the server's own `Connection.Close` is read right after it
//! (same wake-up, or the next one - before any `CloseOk` arrives).
//!
//! Serial outcome required by the property: the client's request took effect before the server's
//! close (its `Close` is queued), the I/O thread does not panic, and `Connection::close` reports
//! the server's close.
//!
//! * `batch_*` tests drive the real `IoLoop::handle_steady_event` with the events of one batch in
//!   a chosen order (the channel-0 event is a real mio event produced by the real handle).
//! * `e2e_*` tests run the whole client (`Connection`, real I/O thread, real poll loop) against a
//!   scripted server on a loopback socket.

use super::*;
use crate::{Connection, ConnectionOptions, Error, FieldTable};
use amq_protocol::frame::parse_frame;
use amq_protocol::protocol::channel::AMQPMethod as AmqpChannel;
use amq_protocol::protocol::channel::OpenOk as ChannelOpenOk;
use amq_protocol::protocol::connection::AMQPMethod as AmqpConnection;
use amq_protocol::protocol::connection::{Close, CloseOk, OpenOk, Start, Tune};
use std::io::{Read, Write};
use std::net::{TcpListener, TcpStream as StdTcpStream};
use std::panic::{catch_unwind, AssertUnwindSafe};
use std::sync::mpsc;
use std::thread;

const WATCHDOG: Duration = Duration::from_secs(20);

fn frame_bytes<M: IntoAmqpClass>(channel_id: u16, method: M) -> Vec<u8> {
    let mut buf = OutputBuffer::empty();
    buf.push_method(channel_id, method);
    buf[0..].to_vec()
}

fn server_close() -> Close {
    Close {
        reply_code: 320,
        reply_text: "CONNECTION_FORCED - broker forced connection closure".to_string(),
        class_id: 0,
        method_id: 0,
    }
}

// ---------------------------------------------------------------------------------------------
// Part 1: one event batch, handled by the real handle_steady_event
// ---------------------------------------------------------------------------------------------

/// In-memory stream: reads hand out `input` once and then would block, writes are swallowed.
struct MemStream {
    registration: mio::Registration,
    input: Vec<u8>,
    written: Vec<u8>,
}

impl MemStream {
    fn new(input: Vec<u8>) -> MemStream {
        let (registration, _set_readiness) = mio::Registration::new2();
        MemStream {
            registration,
            input,
            written: Vec::new(),
        }
    }
}

impl Read for MemStream {
    fn read(&mut self, buf: &mut [u8]) -> io::Result<usize> {
        if self.input.is_empty() {
            return Err(io::ErrorKind::WouldBlock.into());
        }
        let n = usize::min(buf.len(), self.input.len());
        buf[..n].copy_from_slice(&self.input[..n]);
        self.input.drain(..n);
        Ok(n)
    }
}

impl Write for MemStream {
    fn write(&mut self, buf: &[u8]) -> io::Result<usize> {
        self.written.extend_from_slice(buf);
        Ok(buf.len())
    }

    fn flush(&mut self) -> io::Result<()> {
        Ok(())
    }
}

impl Evented for MemStream {
    fn register(&self, poll: &Poll, token: Token, interest: Ready, opts: PollOpt) -> io::Result<()> {
        self.registration.register(poll, token, interest, opts)
    }

    fn reregister(
        &self,
        poll: &Poll,
        token: Token,
        interest: Ready,
        opts: PollOpt,
    ) -> io::Result<()> {
        self.registration.reregister(poll, token, interest, opts)
    }

    fn deregister(&self, poll: &Poll) -> io::Result<()> {
        poll.deregister(&self.registration)
    }
}

impl IoStream for MemStream {}

struct Outcome {
    /// Err(message) if handling the batch panicked
    batch: std::result::Result<Result<()>, String>,
    /// what run_connection would report at the end, if the loop got there
    io_thread_result: Option<Result<()>>,
    client_close_result: Result<()>,
    written: Vec<u8>,
}

/// One wake-up in which both the client's Connection::close request (channel-0 source) and the
/// server's Connection.Close (socket) are pending, handled in the given order; then the socket
/// becomes writable.
fn run_batch(client_request_first: bool) -> Outcome {
    let mut io_loop = IoLoop::new(ConnectionTuning::default()).unwrap();
    let (ch0_slot, ch0_handle) = Channel0Slot::new(io_loop.inner.mio_channel_bound);
    io_loop
        .poll
        .register(
            &ch0_slot.common.rx,
            Token(0),
            Ready::readable(),
            PollOpt::edge(),
        )
        .unwrap();
    io_loop.inner.chan_slots.set_channel_max(16);
    // the protocol header is long gone once the connection is steady
    io_loop.inner.outbuf.clear();
    let mut state = ConnectionState::Steady(ch0_slot);
    let mut stream = MemStream::new(frame_bytes(0, AmqpConnection::Close(server_close())));

    // The client: Connection::close boils down to this call on the channel-0 handle.
    let client = thread::spawn(move || Channel0Handle::new(ch0_handle, 131_072).close_connection());

    // Wait (real poll) for the wake-up of the channel-0 source.
    let mut events = Events::with_capacity(16);
    let started = Instant::now();
    let ch0_event = loop {
        io_loop.poll.poll(&mut events, Some(WATCHDOG)).unwrap();
        if let Some(event) = events.iter().find(|e| e.token() == Token(0)) {
            break event;
        }
        assert!(started.elapsed() < WATCHDOG, "client request never arrived");
    };
    let stream_readable = Event::new(Ready::readable(), STREAM);
    let batch_events = if client_request_first {
        vec![ch0_event, stream_readable]
    } else {
        vec![stream_readable, ch0_event]
    };

    let batch = catch_unwind(AssertUnwindSafe(|| {
        for event in batch_events {
            io_loop.handle_steady_event(&mut stream, &mut state, event)?;
        }
        Ok(())
    }))
    .map_err(|panic| {
        panic
            .downcast_ref::<&str>()
            .map(|s| s.to_string())
            .or_else(|| panic.downcast_ref::<String>().cloned())
            .unwrap_or_else(|| "panic".to_string())
    });

    // Next wake-up: socket writable; then the end-of-batch check of run_io_loop and the result
    // mapping of run_connection.
    let mut io_thread_result = None;
    if let Ok(Ok(())) = batch {
        let writable = Event::new(Ready::writable(), STREAM);
        io_loop
            .handle_steady_event(&mut stream, &mut state, writable)
            .unwrap();
        if io_loop.is_connection_done(&state) {
            io_thread_result = Some(match &state {
                ConnectionState::Steady(_) => unreachable!(),
                ConnectionState::ServerClosing(close) => Err(Error::ServerClosedConnection {
                    code: close.reply_code,
                    message: close.reply_text.clone(),
                }),
                ConnectionState::ClientException => Err(Error::ClientException),
                ConnectionState::ClientClosed => Ok(()),
            });
        }
    }

    // Let go of everything the I/O thread would let go of, so that the client call returns.
    drop(state);
    let written = std::mem::take(&mut stream.written);
    drop(io_loop);
    let client_close_result = client.join().expect("client thread panicked");

    Outcome {
        batch,
        io_thread_result,
        client_close_result,
        written,
    }
}

fn assert_reports_server_close(result: &Option<Result<()>>) {
    match result {
        Some(Err(Error::ServerClosedConnection { code: 320, .. })) => (),
        other => panic!("I/O thread would not report the server's close: {:?}", other),
    }
}

/// CONTROL (passes with and without the change): the server's close is handled first, the client's
/// request is a stale wake-up.
#[test]
fn batch_server_close_then_client_close_request() {
    let outcome = run_batch(false);
    assert!(matches!(outcome.batch, Ok(Ok(()))), "{:?}", outcome.batch);
    assert_reports_server_close(&outcome.io_thread_result);
    // the request failed (its slot went away with the Steady state); only CloseOk went out
    assert!(outcome.client_close_result.is_err());
    assert_eq!(outcome.written, frame_bytes(0, AmqpConnection::CloseOk(CloseOk {})));
}

/// The other order of the same two events: the client's request takes effect first.
#[test]
fn batch_client_close_request_then_server_close() {
    let outcome = run_batch(true);
    match &outcome.batch {
        Ok(Ok(())) => (),
        Ok(Err(err)) => panic!("batch failed: {}", err),
        Err(panic) => panic!("I/O thread code panicked: {}", panic),
    }
    assert_reports_server_close(&outcome.io_thread_result);
    assert!(outcome.client_close_result.is_err());
    // the request took effect before the close: the client's Close is what went out
    match parse_frame(&outcome.written) {
        Ok((rest, AMQPFrame::Method(0, AMQPClass::Connection(AmqpConnection::Close(close))))) => {
            assert_eq!(close.reply_code, 200);
            assert!(rest.is_empty(), "nothing may follow our Close");
        }
        other => panic!("unexpected output {:?}", other),
    }
}

// ---------------------------------------------------------------------------------------------
// Part 2: the whole client against a scripted server on a loopback socket
// ---------------------------------------------------------------------------------------------

struct Server {
    stream: StdTcpStream,
    buf: Vec<u8>,
}

impl Server {
    fn send<M: IntoAmqpClass>(&mut self, channel_id: u16, method: M) {
        self.stream
            .write_all(&frame_bytes(channel_id, method))
            .unwrap();
    }

    fn fill(&mut self) -> bool {
        let mut chunk = [0u8; 4096];
        match self.stream.read(&mut chunk) {
            Ok(0) => false,
            Ok(n) => {
                self.buf.extend_from_slice(&chunk[..n]);
                true
            }
            Err(err) => panic!("scripted server: read failed: {}", err),
        }
    }

    fn read_protocol_header(&mut self) {
        while self.buf.len() < 8 {
            assert!(self.fill(), "eof before protocol header");
        }
        assert_eq!(&self.buf[..8], b"AMQP\x00\x00\x09\x01");
        self.buf.drain(..8);
    }

    /// Next frame from the client, or None at end of stream.
    fn read_frame(&mut self) -> Option<AMQPFrame> {
        loop {
            if self.buf.len() >= 7 {
                let size = u32::from_be_bytes([self.buf[3], self.buf[4], self.buf[5], self.buf[6]])
                    as usize
                    + 8;
                if self.buf.len() >= size {
                    let (_, frame) = parse_frame(&self.buf[..size]).expect("client sent garbage");
                    self.buf.drain(..size);
                    return Some(frame);
                }
            }
            if !self.fill() {
                return None;
            }
        }
    }

    fn expect_method(&mut self) -> (u16, AMQPClass) {
        match self.read_frame() {
            Some(AMQPFrame::Method(channel_id, method)) => (channel_id, method),
            other => panic!("scripted server: expected a method, got {:?}", other),
        }
    }

    fn handshake(&mut self) {
        self.read_protocol_header();
        self.send(
            0,
            AmqpConnection::Start(Start {
                version_major: 0,
                version_minor: 9,
                server_properties: FieldTable::new(),
                mechanisms: "PLAIN".to_string(),
                locales: "en_US".to_string(),
            }),
        );
        match self.expect_method() {
            (0, AMQPClass::Connection(AmqpConnection::StartOk(_))) => (),
            other => panic!("expected StartOk, got {:?}", other),
        }
        self.send(
            0,
            AmqpConnection::Tune(Tune {
                channel_max: 16,
                frame_max: 131_072,
                heartbeat: 0,
            }),
        );
        match self.expect_method() {
            (0, AMQPClass::Connection(AmqpConnection::TuneOk(_))) => (),
            other => panic!("expected TuneOk, got {:?}", other),
        }
        match self.expect_method() {
            (0, AMQPClass::Connection(AmqpConnection::Open(_))) => (),
            other => panic!("expected Open, got {:?}", other),
        }
        self.send(
            0,
            AmqpConnection::OpenOk(OpenOk {
                known_hosts: String::new(),
            }),
        );
    }

    fn drain_until_eof(&mut self) -> Vec<AMQPFrame> {
        let mut frames = Vec::new();
        while let Some(frame) = self.read_frame() {
            frames.push(frame);
        }
        frames
    }
}

/// Connect a real `Connection` to a scripted server; `script` runs after the AMQP handshake.
fn connect<T, F>(script: F) -> (Connection, thread::JoinHandle<T>)
where
    T: Send + 'static,
    F: FnOnce(&mut Server) -> T + Send + 'static,
{
    let listener = TcpListener::bind("127.0.0.1:0").unwrap();
    let addr = listener.local_addr().unwrap();
    let server = thread::spawn(move || {
        let (stream, _) = listener.accept().unwrap();
        // watchdog: a server that waits for something that never comes fails instead of hanging
        stream.set_read_timeout(Some(WATCHDOG)).unwrap();
        let mut server = Server {
            stream,
            buf: Vec::new(),
        };
        server.handshake();
        script(&mut server)
    });
    let stream = StdTcpStream::connect(addr).unwrap();
    stream.set_nonblocking(true).unwrap();
    stream.set_nodelay(true).unwrap();
    let stream = mio::net::TcpStream::from_stream(stream).unwrap();
    let connection = Connection::insecure_open_stream(
        stream,
        ConnectionOptions::<crate::Auth>::default(),
        ConnectionTuning::default(),
    )
    .unwrap();
    (connection, server)
}

/// Run Connection::close under a watchdog: a hang is reported as a failure.
fn close_with_watchdog(connection: Connection) -> Result<()> {
    let (tx, rx) = mpsc::channel();
    thread::spawn(move || {
        let _ = tx.send(connection.close());
    });
    rx.recv_timeout(WATCHDOG)
        .expect("Connection::close did not return")
}

/// CONTROL (passes with and without the change): the server closes first; the client's later
/// Connection::close reports the server's close.
#[test]
fn e2e_server_close_then_client_close() {
    let (connection, server) = connect(|server| {
        server.send(0, AmqpConnection::Close(server_close()));
        server.drain_until_eof()
    });
    // the client only asks to close once the server has seen the answer to its own Close, i.e.
    // once the I/O thread has handled the server's close
    let frames = server.join().unwrap_or_else(|_| panic!("scripted server failed"));
    assert!(matches!(
        frames.as_slice(),
        [AMQPFrame::Method(0, AMQPClass::Connection(AmqpConnection::CloseOk(_)))]
    ));
    match close_with_watchdog(connection) {
        Err(Error::ServerClosedConnection { code: 320, .. }) => (),
        other => panic!("Connection::close does not report the server's close: {:?}", other),
    }
}

/// CONTROL (passes with and without the change): an ordinary client close.
#[test]
fn e2e_client_close_answered_by_close_ok() {
    let (connection, server) = connect(|server| {
        match server.expect_method() {
            (0, AMQPClass::Connection(AmqpConnection::Close(_))) => (),
            other => panic!("expected Close, got {:?}", other),
        }
        server.send(0, AmqpConnection::CloseOk(CloseOk {}));
    });
    close_with_watchdog(connection).unwrap();
    server.join().unwrap_or_else(|_| panic!("scripted server failed"));
}

/// Crossing closes: the server has decided to close and sends its Close when the client's Close
/// reaches it, instead of a CloseOk. A channel is open on the side; its owner must learn about the
/// server's close as well.
#[test]
fn e2e_client_close_crossing_server_close() {
    let (mut connection, server) = connect(|server| {
        match server.expect_method() {
            (1, AMQPClass::Channel(AmqpChannel::Open(_))) => (),
            other => panic!("expected Channel.Open, got {:?}", other),
        }
        server.send(1, AmqpChannel::OpenOk(ChannelOpenOk {
            channel_id: String::new(),
        }));
        match server.expect_method() {
            (0, AMQPClass::Connection(AmqpConnection::Close(_))) => (),
            other => panic!("expected Close, got {:?}", other),
        }
        server.send(0, AmqpConnection::Close(server_close()));
        server.drain_until_eof();
    });
    let channel = connection.open_channel(Some(1)).unwrap();

    let close_result = close_with_watchdog(connection);
    match close_result {
        Err(Error::ServerClosedConnection { code: 320, .. }) => (),
        other => panic!("Connection::close does not report the server's close: {:?}", other),
    }
    match channel.qos(0, 1, false) {
        Err(Error::ServerClosedConnection { code: 320, .. }) => (),
        other => panic!("channel does not see the server's close: {:?}", other),
    }
    // the connection is gone; closing the channel cannot talk to anybody
    std::mem::forget(channel);
    server.join().unwrap_or_else(|_| panic!("scripted server failed"));
}
