//@host src/io_loop/mod.rs
// witness scenario from seeded change C20-a (independent sub-agent demonstration); passes on the unchanged tree
//! C20 demonstration: a server-initiated connection close and client channel-0 requests become
//! visible to the I/O thread in the same wake-up (one batch of mio events). The I/O thread must
//! not panic, every request must resolve as "before the close" or "fails because of the close",
//! and the I/O loop must still end in the ServerClosing state (which `run_connection` maps to
//! `Error::ServerClosedConnection`, i.e. what `Connection::close` reports).
//!
//! There is no broker, so the test drives `IoLoop::handle_steady_event` / `is_connection_done`
//! directly, exactly as `run_io_loop` does for one batch of events, with an in-memory stream.

use super::*;
use amq_protocol::protocol::connection::AMQPMethod as AmqpConnection;
use amq_protocol::protocol::connection::Close as ConnectionClose;
use std::io::{Read, Write};

/// In-memory non-blocking "socket": hands out `incoming` once, then WouldBlock; swallows writes.
struct MockStream {
    incoming: Vec<u8>,
    written: Vec<u8>,
}

impl Read for MockStream {
    fn read(&mut self, buf: &mut [u8]) -> io::Result<usize> {
        if self.incoming.is_empty() {
            return Err(io::Error::new(io::ErrorKind::WouldBlock, "no more data"));
        }
        let n = usize::min(buf.len(), self.incoming.len());
        buf[..n].copy_from_slice(&self.incoming[..n]);
        self.incoming.drain(..n);
        Ok(n)
    }
}

impl Write for MockStream {
    fn write(&mut self, buf: &[u8]) -> io::Result<usize> {
        self.written.extend_from_slice(buf);
        Ok(buf.len())
    }
    fn flush(&mut self) -> io::Result<()> {
        Ok(())
    }
}

impl Evented for MockStream {
    fn register(&self, _: &Poll, _: Token, _: Ready, _: PollOpt) -> io::Result<()> {
        Ok(())
    }
    fn reregister(&self, _: &Poll, _: Token, _: Ready, _: PollOpt) -> io::Result<()> {
        Ok(())
    }
    fn deregister(&self, _: &Poll) -> io::Result<()> {
        Ok(())
    }
}

impl IoStream for MockStream {}

fn server_connection_close_bytes() -> Vec<u8> {
    let mut buf = OutputBuffer::empty();
    buf.push_method(
        0,
        AmqpConnection::Close(ConnectionClose {
            reply_code: 320,
            reply_text: "CONNECTION_FORCED - broker shutting down".to_string(),
            class_id: 0,
            method_id: 0,
        }),
    );
    buf[0..].to_vec()
}

#[derive(Clone, Copy, Debug)]
enum ClientReq {
    ListenForBlocked, // Connection::listen_for_connection_blocked -> SET_BLOCKED_TX wake-up
    OpenChannel,      // Connection::open_channel                  -> ALLOC_CHANNEL wake-up
    Close,            // Connection::close                         -> Token(0) wake-up
}

/// One wake-up of the I/O thread in which the server's Connection.Close (STREAM readable) and one
/// client channel-0 request are both pending. `close_first` selects the order inside the batch.
fn one_batch(req: ClientReq, close_first: bool) {
    let mut io_loop = IoLoop::new(ConnectionTuning::default()).unwrap();
    io_loop.inner.chan_slots.set_channel_max(8);
    // Same wiring as Channel0Slot::new, but the test keeps the raw client-side ends so that it
    // can enqueue requests without blocking on their replies.
    let (ch0_tx, ch0_rx) = mio_sync_channel::<IoLoopMessage>(16);
    let (reply_tx, reply_rx) = crossbeam_channel::bounded::<Result<ChannelMessage>>(2);
    let (alloc_req_tx, alloc_chan_req_rx) = mio_sync_channel::<Option<u16>>(1);
    let (set_blocked_tx, set_blocked_rx) = mio_sync_channel(1);
    let (alloc_chan_rep_tx, alloc_rep_rx) = crossbeam_channel::bounded::<Result<IoLoopHandle>>(1);
    let ch0_slot = Channel0Slot {
        common: ChannelSlot {
            rx: ch0_rx,
            tx: reply_tx,
            collector: ContentCollector::new(0),
            consumers: HashMap::new(),
            return_handler: None,
            pub_confirm_handler: None,
        },
        set_blocked_rx,
        blocked_tx: None,
        alloc_chan_req_rx,
        alloc_chan_rep_tx,
    };
    let mut state = ConnectionState::Steady(ch0_slot);
    let mut stream = MockStream {
        incoming: server_connection_close_bytes(),
        written: Vec::new(),
    };

    // Client side: enqueue the request towards the I/O thread (the client thread would now block
    // waiting for the reply).
    let (blocked_tx, _blocked_rx) = crossbeam_channel::unbounded();
    let token = match req {
        ClientReq::ListenForBlocked => {
            set_blocked_tx.send(blocked_tx).unwrap();
            SET_BLOCKED_TX
        }
        ClientReq::OpenChannel => {
            alloc_req_tx.send(None).unwrap();
            ALLOC_CHANNEL
        }
        ClientReq::Close => {
            let mut buf = OutputBuffer::empty();
            buf.push_method(
                0,
                AmqpConnection::Close(ConnectionClose {
                    reply_code: 200,
                    reply_text: "goodbye".to_string(),
                    class_id: 0,
                    method_id: 0,
                }),
            );
            ch0_tx.send(IoLoopMessage::ConnectionClose(buf)).unwrap();
            Token(0)
        }
    };

    let stream_event = Event::new(Ready::readable(), STREAM);
    let req_event = Event::new(Ready::readable(), token);
    let batch = if close_first {
        [stream_event, req_event]
    } else {
        [req_event, stream_event]
    };

    // What run_io_loop does with one batch of events.
    for event in batch.iter() {
        io_loop
            .handle_steady_event(&mut stream, &mut state, *event)
            .unwrap_or_else(|err| panic!("{:?} close_first={}: {}", req, close_first, err));
    }
    let mut done = io_loop.is_connection_done(&state);

    // Flush the Close-Ok on the next (writable) wake-up, as the real loop would.
    if !done {
        let writable = Event::new(Ready::writable(), STREAM);
        io_loop
            .handle_steady_event(&mut stream, &mut state, writable)
            .unwrap();
        done = io_loop.is_connection_done(&state);
    }
    assert!(done, "{:?} close_first={}: loop not done", req, close_first);

    // run_connection maps ServerClosing to Error::ServerClosedConnection, which is what
    // Connection::close reports after joining the I/O thread.
    match state {
        ConnectionState::ServerClosing(close) => assert_eq!(close.reply_code, 320),
        _ => panic!("{:?} close_first={}: not ServerClosing", req, close_first),
    }

    // Client side: the I/O loop's ends of channel 0 are gone, so a blocked client wakes up (and
    // Connection::close then picks the real error up from the I/O thread's result).
    assert!(reply_rx.recv().is_err());
    match (req, close_first) {
        // took effect before the close
        (ClientReq::OpenChannel, false) => assert!(alloc_rep_rx.recv().unwrap().is_ok()),
        // lost the race: fails because of the close
        (ClientReq::OpenChannel, true) => assert!(alloc_rep_rx.recv().is_err()),
        _ => {}
    }
}

#[test]
fn server_close_then_open_channel_in_same_batch() {
    one_batch(ClientReq::OpenChannel, true);
}

#[test]
fn open_channel_then_server_close_in_same_batch() {
    one_batch(ClientReq::OpenChannel, false);
}

#[test]
fn server_close_then_connection_close_in_same_batch() {
    one_batch(ClientReq::Close, true);
}

#[test]
fn connection_close_then_server_close_in_same_batch() {
    one_batch(ClientReq::Close, false);
}

#[test]
fn listen_for_blocked_then_server_close_in_same_batch() {
    one_batch(ClientReq::ListenForBlocked, false);
}

#[test]
fn server_close_then_listen_for_blocked_in_same_batch() {
    one_batch(ClientReq::ListenForBlocked, true);
}
