//@host src/io_loop/mod.rs
// witness scenario from seeded change C20-b (independent sub-agent demonstration); passes on the unchanged tree
// Demonstration for seed C20b. Wire with `#[cfg(test)] mod c20b_demo;` in src/io_loop/mod.rs.
//
// Drives the real I/O-loop pieces (IoLoop::handle_steady_event, ConnectionState, Inner, the
// channel-0 slot/handle pair) with a mock socket and synthesized mio events; the test thread plays
// the role of the I/O thread, a helper thread plays the client calling Connection::close.
use super::*;
use amq_protocol::protocol::channel::AMQPMethod as AmqpChannel;
use amq_protocol::protocol::channel::Close as ChannelClose;
use amq_protocol::protocol::channel::CloseOk as ChannelCloseOk;
use amq_protocol::protocol::connection::AMQPMethod as AmqpConnection;
use amq_protocol::protocol::connection::Close as ConnectionClose;
use amq_protocol::protocol::connection::CloseOk as ConnectionCloseOk;
use std::io::{Read, Write};
use std::panic::{catch_unwind, AssertUnwindSafe};
use std::thread;

struct MockStream {
    incoming: Vec<u8>,
    pos: usize,
    written: Vec<u8>,
}

impl MockStream {
    fn new() -> MockStream {
        MockStream {
            incoming: Vec::new(),
            pos: 0,
            written: Vec::new(),
        }
    }

    // Queue a method frame "sent by the server".
    fn server_sends<M: IntoAmqpClass>(&mut self, channel_id: u16, method: M) {
        let mut buf = OutputBuffer::empty();
        buf.push_method(channel_id, method);
        self.incoming.extend_from_slice(&buf[0..]);
    }
}

impl Read for MockStream {
    fn read(&mut self, buf: &mut [u8]) -> io::Result<usize> {
        let rest = &self.incoming[self.pos..];
        if rest.is_empty() {
            return Err(io::Error::new(io::ErrorKind::WouldBlock, "no more data"));
        }
        let n = usize::min(rest.len(), buf.len());
        buf[..n].copy_from_slice(&rest[..n]);
        self.pos += n;
        Ok(n)
    }
}

impl Write for MockStream {
    fn write(&mut self, buf: &[u8]) -> io::Result<usize> {
        self.written.extend_from_slice(buf);
        Ok(buf.len())
    }

    fn flush(&mut self) -> io::Result<()> {
        Ok(())
    }
}

impl Evented for MockStream {
    fn register(&self, _: &Poll, _: Token, _: Ready, _: PollOpt) -> io::Result<()> {
        Ok(())
    }

    fn reregister(&self, _: &Poll, _: Token, _: Ready, _: PollOpt) -> io::Result<()> {
        Ok(())
    }

    fn deregister(&self, _: &Poll) -> io::Result<()> {
        Ok(())
    }
}

impl IoStream for MockStream {}

fn readable(token: Token) -> Event {
    Event::new(Ready::readable(), token)
}

fn client_close() -> ConnectionClose {
    ConnectionClose {
        reply_code: 200,
        reply_text: "goodbye".to_string(),
        class_id: 0,
        method_id: 0,
    }
}

fn server_connection_close() -> ConnectionClose {
    ConnectionClose {
        reply_code: 320,
        reply_text: "CONNECTION_FORCED - broker forced connection closure".to_string(),
        class_id: 0,
        method_id: 0,
    }
}

struct Fixture {
    io_loop: IoLoop,
    stream: MockStream,
    state: ConnectionState,
}

fn fixture() -> (Fixture, IoLoopHandle0) {
    let mut io_loop = IoLoop::new(ConnectionTuning::default()).unwrap();
    io_loop.inner.chan_slots.set_channel_max(8);
    // the handshake wrote the protocol header etc. long ago
    io_loop.inner.outbuf.clear();
    let (ch0_slot, ch0_handle) = Channel0Slot::new(io_loop.inner.mio_channel_bound);
    let fixture = Fixture {
        io_loop,
        stream: MockStream::new(),
        state: ConnectionState::Steady(ch0_slot),
    };
    (fixture, ch0_handle)
}

impl Fixture {
    fn handle(&mut self, event: Event) -> Result<()> {
        self.io_loop
            .handle_steady_event(&mut self.stream, &mut self.state, event)
    }

    // The client's Connection::close runs on another thread; handle channel-0 wake-ups until its
    // request has been taken off the queue (it seals the output buffer).
    fn handle_client_connection_close(&mut self) {
        for _ in 0..5000 {
            self.handle(readable(Token(0))).unwrap();
            if self.io_loop.inner.are_writes_sealed() {
                return;
            }
            thread::sleep(Duration::from_millis(1));
        }
        panic!("client's Connection.Close never became visible");
    }
}

fn spawn_client_close(
    mut ch0_handle: IoLoopHandle0,
) -> thread::JoinHandle<Result<ConnectionCloseOk>> {
    thread::spawn(move || ch0_handle.call_connection_close(client_close()))
}

// {client channel-0 request = Connection::close, server connection close}, client request handled
// first, server's Connection.Close read later in the same batch of events.
#[test]
fn client_close_then_server_connection_close_in_one_batch() {
    let (mut fx, ch0_handle) = fixture();
    let client = spawn_client_close(ch0_handle);

    let outcome = catch_unwind(AssertUnwindSafe(|| {
        fx.handle_client_connection_close();
        fx.stream
            .server_sends(0, AmqpConnection::Close(server_connection_close()));
        fx.handle(readable(STREAM))?;
        // next wake-up: socket writable, our Close goes out; then the loop must be done
        assert!(!fx.io_loop.is_connection_done(&fx.state));
        fx.handle(Event::new(Ready::writable(), STREAM))?;
        assert!(fx.io_loop.is_connection_done(&fx.state));
        Ok::<(), Error>(())
    }));

    // what run_connection would report (and Connection::close through the join handle)
    let reported = match &fx.state {
        ConnectionState::ServerClosing(close) => Some(close.reply_code),
        _ => None,
    };
    drop(fx); // releases the client thread whatever happened above
    let client_result = client.join().unwrap();

    assert!(outcome.is_ok(), "I/O thread panicked");
    outcome.unwrap().unwrap();
    assert_eq!(reported, Some(320), "server's close must be reported");
    assert!(client_result.is_err());
}

// {client channel-0 request = Connection::close, server channel close, client request on the closed
// channel}, in that order inside one batch.
#[test]
fn client_close_then_server_channel_close_in_one_batch() {
    let (mut fx, ch0_handle) = fixture();
    let mut chan1 = fx
        .io_loop
        .inner
        .chan_slots
        .insert(Some(1), |id| Ok(ChannelSlot::new(16, id)))
        .unwrap();
    let client = spawn_client_close(ch0_handle);

    let outcome = catch_unwind(AssertUnwindSafe(|| {
        fx.handle_client_connection_close();
        fx.stream.server_sends(
            1,
            AmqpChannel::Close(ChannelClose {
                reply_code: 404,
                reply_text: "NOT_FOUND - no exchange 'nope'".to_string(),
                class_id: 60,
                method_id: 40,
            }),
        );
        fx.handle(readable(STREAM))?;
        // stale wake-up for the channel the server just closed
        fx.handle(readable(Token(1)))?;
        assert!(fx.io_loop.inner.chan_slots.get(1).is_none());
        assert!(!fx.io_loop.is_connection_done(&fx.state));

        // later the server acknowledges our Connection.Close
        fx.handle(Event::new(Ready::writable(), STREAM))?;
        fx.stream
            .server_sends(0, AmqpConnection::CloseOk(ConnectionCloseOk {}));
        fx.handle(readable(STREAM))?;
        assert!(fx.io_loop.is_connection_done(&fx.state));
        Ok::<(), Error>(())
    }));

    let client_closed = match &fx.state {
        ConnectionState::ClientClosed => true,
        _ => false,
    };
    drop(fx);
    let client_result = client.join().unwrap();

    assert!(outcome.is_ok(), "I/O thread panicked");
    outcome.unwrap().unwrap();
    assert!(client_closed);
    assert!(client_result.is_ok(), "Connection::close should succeed");
    // a request on the closed channel fails with the channel close's error
    let close = AmqpChannel::Close(ChannelClose {
        reply_code: 0,
        reply_text: String::new(),
        class_id: 0,
        method_id: 0,
    });
    match chan1.call::<_, ChannelCloseOk>(close) {
        Err(Error::ServerClosedChannel {
            channel_id: 1,
            code: 404,
            ..
        }) => (),
        other => panic!("unexpected result {:?}", other),
    }
}

// Control: the other order (server's close seen first, channel-0 wake-up is stale).
#[test]
fn server_connection_close_then_client_close_in_one_batch() {
    let (mut fx, ch0_handle) = fixture();
    fx.stream
        .server_sends(0, AmqpConnection::Close(server_connection_close()));
    fx.handle(readable(STREAM)).unwrap();
    let client = spawn_client_close(ch0_handle);
    fx.handle(readable(Token(0))).unwrap();
    fx.handle(readable(ALLOC_CHANNEL)).unwrap();
    fx.handle(readable(SET_BLOCKED_TX)).unwrap();
    assert!(!fx.io_loop.is_connection_done(&fx.state));
    fx.handle(Event::new(Ready::writable(), STREAM)).unwrap();
    assert!(fx.io_loop.is_connection_done(&fx.state));
    match &fx.state {
        ConnectionState::ServerClosing(close) => assert_eq!(close.reply_code, 320),
        _ => panic!("server's close must be reported"),
    }
    assert!(client.join().unwrap().is_err());
}
