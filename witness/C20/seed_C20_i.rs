//@host src/lib.rs
// witness scenario from seeded change C20-i (independent sub-agent demonstration); passes on the unchanged tree
//! Demonstration for property C20 ("simultaneous closes and requests resolve as some serial
//! order; Connection::close still reports the server's close").
//!
//! The real I/O thread is driven over an in-memory `IoStream` whose other end is a scripted AMQP
//! server living on the test thread. The stream can *park* the I/O thread at the very end of a
//! wake-up (in the `read` that reports `WouldBlock`), so that the test can decide which events
//! are pending, and in which order, when the I/O thread polls the next time: everything the I/O
//! thread polls here (the stream, the channel-0 request queue) is a user-space mio registration,
//! and those are reported in the order in which they became ready.
//!
//! No sockets; the only wall-clock dependence is a short settle delay in the two same-wake-up
//! tests (it lets the thread that calls `Connection::close` enqueue its request while the I/O
//! thread is parked) and the watchdog timeouts that turn a hang into a failure.

use crate::frame_buffer::FrameBuffer;
use crate::serialize::OutputBuffer;
use crate::{Auth, Channel, Connection, ConnectionOptions, ConnectionTuning, Error, IoStream};
use amq_protocol::frame::AMQPFrame;
use amq_protocol::protocol::channel::AMQPMethod as AmqpChannel;
use amq_protocol::protocol::channel::OpenOk as ChannelOpenOk;
use amq_protocol::protocol::connection::AMQPMethod as AmqpConnection;
use amq_protocol::protocol::connection::{Close, CloseOk, OpenOk, Start, Tune};
use amq_protocol::protocol::AMQPClass;
use amq_protocol::types::FieldTable;
use mio::{Evented, Poll, PollOpt, Ready, Registration, SetReadiness, Token};
use std::collections::VecDeque;
use std::io::{self, Read, Write};
use std::sync::mpsc;
use std::sync::{Arc, Condvar, Mutex};
use std::thread;
use std::time::{Duration, Instant};

const WATCHDOG: Duration = Duration::from_secs(10);
const SETTLE: Duration = Duration::from_millis(300);
const SERVER_CLOSE_CODE: u16 = 320;

#[derive(Default)]
struct Wire {
    to_client: VecDeque<u8>,
    from_client: Vec<u8>,
    // park the I/O thread the next time it has read everything we sent
    park_requested: bool,
    parked: bool,
}

struct Shared {
    wire: Mutex<Wire>,
    changed: Condvar,
    readiness: SetReadiness,
}

/// Client end: what the I/O thread reads from, writes to and polls.
struct MockStream {
    shared: Arc<Shared>,
    registration: Registration,
}

impl Read for MockStream {
    fn read(&mut self, buf: &mut [u8]) -> io::Result<usize> {
        let mut wire = self.shared.wire.lock().unwrap();
        if !wire.to_client.is_empty() {
            let n = usize::min(buf.len(), wire.to_client.len());
            for (dst, src) in buf.iter_mut().zip(wire.to_client.drain(..n)) {
                *dst = src;
            }
            return Ok(n);
        }
        if wire.park_requested {
            // Last read of this wake-up: hold the I/O thread here until the test has lined up
            // the events of the next wake-up. Whatever arrives meanwhile is NOT handed out now.
            wire.parked = true;
            self.shared.changed.notify_all();
            let deadline = Instant::now() + WATCHDOG;
            while wire.park_requested && Instant::now() < deadline {
                wire = self
                    .shared
                    .changed
                    .wait_timeout(wire, Duration::from_millis(50))
                    .unwrap()
                    .0;
            }
            wire.park_requested = false;
            wire.parked = false;
        }
        if wire.to_client.is_empty() {
            // edge-triggered: nothing left, drop the readable bit (still under the lock, so a
            // concurrent Server::send cannot be lost)
            self.shared.readiness.set_readiness(Ready::writable())?;
        }
        Err(io::ErrorKind::WouldBlock.into())
    }
}

impl Write for MockStream {
    fn write(&mut self, buf: &[u8]) -> io::Result<usize> {
        let mut wire = self.shared.wire.lock().unwrap();
        wire.from_client.extend_from_slice(buf);
        self.shared.changed.notify_all();
        Ok(buf.len())
    }

    fn flush(&mut self) -> io::Result<()> {
        Ok(())
    }
}

impl Evented for MockStream {
    fn register(
        &self,
        poll: &Poll,
        token: Token,
        interest: Ready,
        opts: PollOpt,
    ) -> io::Result<()> {
        self.registration.register(poll, token, interest, opts)
    }

    fn reregister(
        &self,
        poll: &Poll,
        token: Token,
        interest: Ready,
        opts: PollOpt,
    ) -> io::Result<()> {
        self.registration.reregister(poll, token, interest, opts)
    }

    fn deregister(&self, poll: &Poll) -> io::Result<()> {
        poll.deregister(&self.registration)
    }
}

impl IoStream for MockStream {}

/// Reader handing a chunk of bytes to FrameBuffer, then WouldBlock.
struct Chunk(Vec<u8>, usize);

impl Read for Chunk {
    fn read(&mut self, buf: &mut [u8]) -> io::Result<usize> {
        let rest = &self.0[self.1..];
        if rest.is_empty() {
            return Err(io::ErrorKind::WouldBlock.into());
        }
        let n = usize::min(buf.len(), rest.len());
        buf[..n].copy_from_slice(&rest[..n]);
        self.1 += n;
        Ok(n)
    }
}

/// Server end, used from the test thread.
struct Server {
    shared: Arc<Shared>,
    parser: FrameBuffer,
    header_seen: bool,
    pending: Vec<u8>,
    frames: VecDeque<AMQPFrame>,
}

fn mock_pair() -> (MockStream, Server) {
    let (registration, readiness) = Registration::new2();
    // always writable
    readiness.set_readiness(Ready::writable()).unwrap();
    let shared = Arc::new(Shared {
        wire: Mutex::new(Wire::default()),
        changed: Condvar::new(),
        readiness,
    });
    let stream = MockStream {
        shared: Arc::clone(&shared),
        registration,
    };
    let server = Server {
        shared,
        parser: FrameBuffer::new(),
        header_seen: false,
        pending: Vec::new(),
        frames: VecDeque::new(),
    };
    (stream, server)
}

impl Server {
    fn send_bytes(&self, bytes: &[u8]) {
        let mut wire = self.shared.wire.lock().unwrap();
        wire.to_client.extend(bytes.iter().copied());
        self.shared
            .readiness
            .set_readiness(Ready::readable() | Ready::writable())
            .unwrap();
        drop(wire);
    }

    fn send_connection(&self, method: AmqpConnection) {
        let mut buf = OutputBuffer::empty();
        buf.push_method(0, method);
        self.send_bytes(&buf[0..]);
    }

    fn send_channel(&self, channel_id: u16, method: AmqpChannel) {
        let mut buf = OutputBuffer::empty();
        buf.push_method(channel_id, method);
        self.send_bytes(&buf[0..]);
    }

    fn send_server_close(&self) {
        self.send_connection(AmqpConnection::Close(Close {
            reply_code: SERVER_CLOSE_CODE,
            reply_text: "CONNECTION_FORCED - demo".to_string(),
            class_id: 0,
            method_id: 0,
        }));
    }

    /// Next frame written by the client; panics (= test failure) if none shows up in time.
    fn recv_frame(&mut self) -> AMQPFrame {
        let deadline = Instant::now() + WATCHDOG;
        loop {
            if let Some(frame) = self.frames.pop_front() {
                return frame;
            }
            let mut wire = self.shared.wire.lock().unwrap();
            while wire.from_client.is_empty() {
                assert!(
                    Instant::now() < deadline,
                    "mock server: timed out waiting for a frame from the client"
                );
                wire = self
                    .shared
                    .changed
                    .wait_timeout(wire, Duration::from_millis(50))
                    .unwrap()
                    .0;
            }
            self.pending.append(&mut wire.from_client);
            drop(wire);

            if !self.header_seen {
                if self.pending.len() < 8 {
                    continue;
                }
                assert_eq!(&self.pending[..8], b"AMQP\x00\x00\x09\x01");
                self.pending.drain(..8);
                self.header_seen = true;
            }
            let mut chunk = Chunk(std::mem::take(&mut self.pending), 0);
            let frames = &mut self.frames;
            self.parser
                .read_from(&mut chunk, |frame| {
                    frames.push_back(frame);
                    Ok(())
                })
                .expect("mock server: could not parse what the client sent");
        }
    }

    fn expect_connection_method(&mut self) -> AmqpConnection {
        match self.recv_frame() {
            AMQPFrame::Method(0, AMQPClass::Connection(method)) => method,
            other => panic!("mock server: expected a connection method, got {:?}", other),
        }
    }

    fn handshake(&mut self) {
        self.send_connection(AmqpConnection::Start(Start {
            version_major: 0,
            version_minor: 9,
            server_properties: FieldTable::new(),
            mechanisms: "PLAIN".to_string(),
            locales: "en_US".to_string(),
        }));
        match self.expect_connection_method() {
            AmqpConnection::StartOk(_) => (),
            other => panic!("expected StartOk, got {:?}", other),
        }
        self.send_connection(AmqpConnection::Tune(Tune {
            channel_max: 8,
            frame_max: 1 << 17,
            heartbeat: 0,
        }));
        match self.expect_connection_method() {
            AmqpConnection::TuneOk(_) => (),
            other => panic!("expected TuneOk, got {:?}", other),
        }
        match self.expect_connection_method() {
            AmqpConnection::Open(_) => (),
            other => panic!("expected Open, got {:?}", other),
        }
        self.send_connection(AmqpConnection::OpenOk(OpenOk {
            known_hosts: String::new(),
        }));
    }

    /// Answer the client's Channel.Open.
    fn serve_channel_open(&mut self) -> u16 {
        match self.recv_frame() {
            AMQPFrame::Method(n, AMQPClass::Channel(AmqpChannel::Open(_))) => {
                self.send_channel(
                    n,
                    AmqpChannel::OpenOk(ChannelOpenOk {
                        channel_id: String::new(),
                    }),
                );
                n
            }
            other => panic!("mock server: expected Channel.Open, got {:?}", other),
        }
    }

    /// Park the I/O thread at the end of its current wake-up; returns once it is parked.
    fn park_io_thread(&self) {
        // Request the parking and, under the same lock, give the I/O thread something to read:
        // it wakes up (or carries on reading), consumes the heartbeat and parks in the read
        // that follows it.
        let mut heartbeat = OutputBuffer::empty();
        heartbeat.push_heartbeat();
        let mut wire = self.shared.wire.lock().unwrap();
        wire.park_requested = true;
        wire.to_client.extend(heartbeat[0..].iter().copied());
        self.shared
            .readiness
            .set_readiness(Ready::readable() | Ready::writable())
            .unwrap();
        let deadline = Instant::now() + WATCHDOG;
        while !wire.parked {
            assert!(Instant::now() < deadline, "I/O thread did not park");
            wire = self
                .shared
                .changed
                .wait_timeout(wire, Duration::from_millis(50))
                .unwrap()
                .0;
        }
    }

    fn resume_io_thread(&self) {
        self.shared.wire.lock().unwrap().park_requested = false;
        self.shared.changed.notify_all();
    }
}

/// Run a blocking client call on its own thread; `wait` turns a hang into a failure.
fn spawn_op<T, F>(f: F) -> mpsc::Receiver<T>
where
    T: Send + 'static,
    F: FnOnce() -> T + Send + 'static,
{
    let (tx, rx) = mpsc::channel();
    thread::spawn(move || {
        let _ = tx.send(f());
    });
    rx
}

/// Call Connection::close on its own thread. Returns once that thread is about to make the
/// call and has been given time to enqueue its request (the call itself cannot return before
/// the I/O thread, which the caller has parked, gets to it).
fn spawn_close_and_settle(connection: Connection) -> mpsc::Receiver<crate::Result<()>> {
    let (started_tx, started_rx) = mpsc::channel();
    let closing = spawn_op(move || {
        let _ = started_tx.send(());
        connection.close()
    });
    wait(started_rx, "start of the closing thread");
    thread::sleep(SETTLE);
    closing
}

fn wait<T>(rx: mpsc::Receiver<T>, what: &str) -> T {
    match rx.recv_timeout(WATCHDOG) {
        Ok(value) => value,
        Err(_) => panic!("{} did not finish within {:?}", what, WATCHDOG),
    }
}

fn open() -> (Connection, Server) {
    let (stream, mut server) = mock_pair();
    let opening = spawn_op(move || {
        Connection::insecure_open_stream(
            stream,
            ConnectionOptions::<Auth>::default(),
            ConnectionTuning::default(),
        )
    });
    server.handshake();
    let connection = wait(opening, "Connection::insecure_open_stream").expect("handshake failed");
    (connection, server)
}

fn open_with_channel() -> (Connection, Channel, Server) {
    let (mut connection, mut server) = open();
    let opening = spawn_op(move || {
        let channel = connection.open_channel(None);
        (connection, channel)
    });
    server.serve_channel_open();
    let (connection, channel) = wait(opening, "Connection::open_channel");
    (connection, channel.expect("open_channel failed"), server)
}

fn assert_reports_server_close(result: crate::Result<()>, what: &str) {
    match result {
        Err(Error::ServerClosedConnection { code, .. }) if code == SERVER_CLOSE_CODE => (),
        other => panic!(
            "{} must report the server's close (code {}), but returned {:?}",
            what, SERVER_CLOSE_CODE, other
        ),
    }
}

// ---------------------------------------------------------------------------------------------
// The demonstrations: Connection::close is handled by the I/O thread BEFORE the server's Close.
// Serial order "request, then close": the close request took effect (our Close is queued), the
// server's Close follows, and Connection::close still has to report the server's close.
// ---------------------------------------------------------------------------------------------

/// Both events are pending in the same wake-up of the I/O thread: first the channel-0 request
/// of Connection::close, then the stream with the server's Close.
#[test]
fn close_request_then_server_close_in_one_wakeup() {
    let (connection, channel, server) = open_with_channel();

    server.park_io_thread();
    let closing = spawn_close_and_settle(connection); // the request is now queued on channel 0
    server.send_server_close(); // ... and the stream becomes readable after it
    server.resume_io_thread();

    let result = wait(closing, "Connection::close");
    assert_reports_server_close(result, "Connection::close");

    // a request on another channel fails with the close's error, too
    match channel.qos(0, 1, false) {
        Err(Error::ServerClosedConnection { code, .. }) if code == SERVER_CLOSE_CODE => (),
        other => panic!("request on channel 1 returned {:?}", other),
    }
    std::mem::forget(channel);
}

/// Same race without any dependence on timing: the server sends its Close only after it has
/// seen the client's Close on the wire (the two Close frames cross).
#[test]
fn server_close_crossing_client_close() {
    let (connection, mut server) = open();

    let closing = spawn_op(move || connection.close());
    match server.expect_connection_method() {
        AmqpConnection::Close(_) => (),
        other => panic!("expected the client's Close, got {:?}", other),
    }
    server.send_server_close();

    let result = wait(closing, "Connection::close");
    assert_reports_server_close(result, "Connection::close");
}

// ---------------------------------------------------------------------------------------------
// Controls: pass with and without the change.
// ---------------------------------------------------------------------------------------------

/// Same wake-up, other order: the stream (server's Close) first, then the channel-0 request.
#[test]
fn control_server_close_then_close_request_in_one_wakeup() {
    let (connection, channel, server) = open_with_channel();

    server.park_io_thread();
    server.send_server_close();
    let closing = spawn_close_and_settle(connection);
    server.resume_io_thread();

    let result = wait(closing, "Connection::close");
    assert_reports_server_close(result, "Connection::close");
    match channel.qos(0, 1, false) {
        Err(Error::ServerClosedConnection { code, .. }) if code == SERVER_CLOSE_CODE => (),
        other => panic!("request on channel 1 returned {:?}", other),
    }
    std::mem::forget(channel);
}

/// The server closes an idle connection; Connection::close is called afterwards.
#[test]
fn control_server_close_before_close_is_called() {
    let (connection, mut server) = open();
    server.send_server_close();
    match server.expect_connection_method() {
        AmqpConnection::CloseOk(_) => (),
        other => panic!("expected CloseOk, got {:?}", other),
    }
    let closing = spawn_op(move || connection.close());
    let result = wait(closing, "Connection::close");
    assert_reports_server_close(result, "Connection::close");
}

/// Ordinary client-initiated close.
#[test]
fn control_client_close_handshake() {
    let (connection, mut server) = open();
    let closing = spawn_op(move || connection.close());
    match server.expect_connection_method() {
        AmqpConnection::Close(_) => (),
        other => panic!("expected the client's Close, got {:?}", other),
    }
    server.send_connection(AmqpConnection::CloseOk(CloseOk {}));
    let result = wait(closing, "Connection::close");
    assert!(result.is_ok(), "clean close returned {:?}", result);
}
