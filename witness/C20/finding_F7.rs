//@host src/io_loop/mod.rs
// F7 (C20): a server Connection.Close and a client channel-0 request become visible in the same wake-up:
// batch [STREAM readable carrying Connection.Close, Token(0) readable].  After the first event the state is
// ServerClosing (the channel-0 slot was dropped with the Steady state); the second event of the same batch must be
// ignored like a stale wake-up of any other channel - instead the I/O thread hits unreachable!().
use super::*;
use amq_protocol::protocol::connection::AMQPMethod as AmqpConnection;
use amq_protocol::protocol::connection::Close as ConnectionClose;
use std::io::{Read, Write};

struct NullStream;
impl Read for NullStream {
    fn read(&mut self, _buf: &mut [u8]) -> io::Result<usize> {
        Err(io::Error::new(io::ErrorKind::WouldBlock, "would block"))
    }
}
impl Write for NullStream {
    fn write(&mut self, buf: &[u8]) -> io::Result<usize> {
        Ok(buf.len())
    }
    fn flush(&mut self) -> io::Result<()> {
        Ok(())
    }
}
impl Evented for NullStream {
    fn register(&self, _: &Poll, _: Token, _: Ready, _: PollOpt) -> io::Result<()> {
        Ok(())
    }
    fn reregister(&self, _: &Poll, _: Token, _: Ready, _: PollOpt) -> io::Result<()> {
        Ok(())
    }
    fn deregister(&self, _: &Poll) -> io::Result<()> {
        Ok(())
    }
}
impl IoStream for NullStream {}

fn server_close_then(tok: Token) -> Result<()> {
    let mut io_loop = IoLoop::new(ConnectionTuning::default()).unwrap();
    let (ch0_slot, _ch0_handle) = Channel0Slot::new(16);
    let mut state = ConnectionState::Steady(ch0_slot);
    let mut stream = NullStream;
    // first event of the batch: the server's Connection.Close is processed
    let close = ConnectionClose { reply_code: 320, reply_text: "CONNECTION_FORCED".to_string(), class_id: 0, method_id: 0 };
    state
        .process(&mut io_loop.inner, AMQPFrame::Method(0, AMQPClass::Connection(AmqpConnection::Close(close))))
        .unwrap();
    // second event of the same batch: a pending wake-up of a channel-0 source
    io_loop.handle_steady_event(&mut stream, &mut state, Event::new(Ready::readable(), tok))
}

#[test]
fn verif_demo_f7_ch0_request_after_server_close_in_same_batch() {
    assert!(server_close_then(Token(0)).is_ok());
}
#[test]
fn verif_demo_f7_open_channel_after_server_close_in_same_batch() {
    assert!(server_close_then(ALLOC_CHANNEL).is_ok());
}
#[test]
fn verif_demo_f7_blocked_listener_after_server_close_in_same_batch() {
    assert!(server_close_then(SET_BLOCKED_TX).is_ok());
}
