//@host src/io_loop/mod.rs
// witness scenario from seeded change C20-e (independent sub-agent demonstration); passes on the unchanged tree
//! Demonstration for C20 (simultaneous closes and requests never panic; they resolve as some
//! serial order).
//!
//! The scenario: a publish on an ordinary channel and a server-initiated `connection.close` are
//! pending for the I/O thread in the same wake-up, the publish first. The publish takes effect
//! (its frames are buffered for writing), the close is answered with `close-ok` behind it, and
//! once everything has been written the I/O thread must end with the server's close as its
//! result - that is what `Connection::close` reports. It must never panic.
//!
//! Everything below drives the real `IoLoop::run_connection` / `run_io_loop` / `handle_steady_event`
//! code on a thread of its own, with the real mio poll. The socket is an in-memory `IoStream`
//! whose readiness is a `mio::Registration`; the order of the events inside the first batch is the
//! order in which the test arms the sources (mio's readiness queue is FIFO), and each test checks
//! through the number of bytes that reached the "socket" that the intended order really happened.
//! No wall-clock dependence except for the watchdog that turns a hang into a failure.

use super::*;
use amq_protocol::protocol::basic::AMQPMethod as AmqpBasic;
use amq_protocol::protocol::basic::Publish as AmqpPublish;
use amq_protocol::protocol::connection::AMQPMethod as AmqpConnection;
use amq_protocol::protocol::connection::Close as ConnectionClose;
use mio::{Registration, SetReadiness};
use std::io::{Read, Write};
use std::sync::atomic::{AtomicUsize, Ordering};
use std::sync::mpsc::RecvTimeoutError;
use std::sync::{Arc, Mutex};
use std::thread;

const WATCHDOG: Duration = Duration::from_secs(20);
const BODY_FRAME: usize = 128 * 1024;

/// In-memory socket. Reads hand out whatever the "server" has queued, writes always succeed and
/// are only counted.
struct MemStream {
    inbound: Arc<Mutex<Vec<u8>>>,
    written: Arc<AtomicUsize>,
    registration: Registration,
}

impl Read for MemStream {
    fn read(&mut self, buf: &mut [u8]) -> io::Result<usize> {
        let mut inbound = self.inbound.lock().unwrap();
        if inbound.is_empty() {
            return Err(io::ErrorKind::WouldBlock.into());
        }
        let n = usize::min(buf.len(), inbound.len());
        buf[..n].copy_from_slice(&inbound[..n]);
        inbound.drain(..n);
        Ok(n)
    }
}

impl Write for MemStream {
    fn write(&mut self, buf: &[u8]) -> io::Result<usize> {
        self.written.fetch_add(buf.len(), Ordering::SeqCst);
        Ok(buf.len())
    }

    fn flush(&mut self) -> io::Result<()> {
        Ok(())
    }
}

impl Evented for MemStream {
    fn register(&self, poll: &Poll, token: Token, interest: Ready, opts: PollOpt) -> io::Result<()> {
        self.registration.register(poll, token, interest, opts)
    }

    fn reregister(
        &self,
        poll: &Poll,
        token: Token,
        interest: Ready,
        opts: PollOpt,
    ) -> io::Result<()> {
        self.registration.reregister(poll, token, interest, opts)
    }

    fn deregister(&self, poll: &Poll) -> io::Result<()> {
        Evented::deregister(&self.registration, poll)
    }
}

impl IoStream for MemStream {}

/// The server side of the in-memory socket.
struct Server {
    inbound: Arc<Mutex<Vec<u8>>>,
    written: Arc<AtomicUsize>,
    readiness: SetReadiness,
}

impl Server {
    /// Queue a `connection.close` for the client and make the socket readable (and writable; the
    /// I/O loop only sees the part it is registered for).
    fn send_connection_close(&self) {
        let mut buf = OutputBuffer::empty();
        buf.push_method(
            0,
            AmqpConnection::Close(ConnectionClose {
                reply_code: 320,
                reply_text: "CONNECTION_FORCED - demo".to_string(),
                class_id: 0,
                method_id: 0,
            }),
        );
        self.inbound.lock().unwrap().extend_from_slice(&buf[0..]);
        self.socket_ready();
    }

    fn socket_ready(&self) {
        self.readiness
            .set_readiness(Ready::readable() | Ready::writable())
            .unwrap();
    }

    fn bytes_received(&self) -> usize {
        self.written.load(Ordering::SeqCst)
    }
}

/// A connection just after the AMQP handshake, with channel 1 open, not yet running.
struct Rig {
    io_loop: IoLoop,
    stream: MemStream,
    ch0_slot: Channel0Slot,
    // Client-side handles. They have to stay alive while the I/O loop runs (a dropped handle wakes
    // the loop up with "client dropped"); dropping them afterwards is harmless, they are not the
    // public wrappers and do not talk to the server.
    _ch0_handle: IoLoopHandle0,
    ch1: IoLoopHandle,
    server: Server,
}

fn rig() -> Rig {
    let mut io_loop = IoLoop::new(ConnectionTuning::default()).unwrap();
    // pretend the handshake is over: protocol header gone, channel_max negotiated
    io_loop.inner.outbuf.clear();
    io_loop.inner.chan_slots.set_channel_max(8);

    // channel 0, registered the way thread_main does it
    let (ch0_slot, ch0_handle) = Channel0Slot::new(io_loop.inner.mio_channel_bound);
    let edge = PollOpt::edge();
    io_loop
        .poll
        .register(&ch0_slot.common.rx, Token(0), Ready::readable(), edge)
        .unwrap();
    io_loop
        .poll
        .register(&ch0_slot.set_blocked_rx, SET_BLOCKED_TX, Ready::readable(), edge)
        .unwrap();
    io_loop
        .poll
        .register(&ch0_slot.alloc_chan_req_rx, ALLOC_CHANNEL, Ready::readable(), edge)
        .unwrap();

    // channel 1, registered the way Inner::allocate_channel does it
    let bound = io_loop.inner.mio_channel_bound;
    let poll = &io_loop.poll;
    let ch1 = io_loop
        .inner
        .chan_slots
        .insert(Some(1), |id| {
            let (slot, handle) = ChannelSlot::new(bound, id);
            poll.register(&slot.rx, Token(id as usize), Ready::readable(), edge)
                .unwrap();
            Ok((slot, handle))
        })
        .unwrap();

    // the socket: nothing to write, so the loop is registered for readable only
    let (registration, readiness) = Registration::new2();
    let inbound = Arc::new(Mutex::new(Vec::new()));
    let written = Arc::new(AtomicUsize::new(0));
    let stream = MemStream {
        inbound: Arc::clone(&inbound),
        written: Arc::clone(&written),
        registration,
    };
    io_loop
        .poll
        .register(&stream, STREAM, Ready::readable(), edge)
        .unwrap();

    Rig {
        io_loop,
        stream,
        ch0_slot,
        _ch0_handle: ch0_handle,
        ch1,
        server: Server {
            inbound,
            written,
            readiness,
        },
    }
}

/// What `Channel::basic_publish` does, on the bare handle: method, content header, body frames.
fn publish(ch: &mut IoLoopHandle, body_len: usize) {
    let body = vec![0x5a_u8; body_len];
    ch.call_nowait(AmqpBasic::Publish(AmqpPublish {
        ticket: 0,
        exchange: String::new(),
        routing_key: "demo".to_string(),
        mandatory: false,
        immediate: false,
    }))
    .unwrap();
    ch.send_content_header(60, body.len(), &crate::AmqpProperties::default())
        .unwrap();
    for chunk in body.chunks(BODY_FRAME) {
        ch.send_content_body(chunk).unwrap();
    }
}

enum Outcome {
    Finished(Result<()>),
    Panicked,
    Hung,
}

/// Run the steady-state loop on its own thread, as `IoLoop::start` does.
fn spawn_io_thread(
    mut io_loop: IoLoop,
    mut stream: MemStream,
    ch0_slot: Channel0Slot,
) -> impl FnOnce() -> Outcome {
    let (done_tx, done_rx) = std::sync::mpsc::channel();
    let join_handle = Builder::new()
        .name("amiquip-io".to_string())
        .spawn(move || {
            let result = io_loop.run_connection(&mut stream, ch0_slot);
            let _ = done_tx.send(());
            result
        })
        .unwrap();
    move || match done_rx.recv_timeout(WATCHDOG) {
        // the same mapping Connection::close applies to the join result
        Ok(()) | Err(RecvTimeoutError::Disconnected) => match join_handle.join() {
            Ok(result) => Outcome::Finished(result),
            Err(_) => Outcome::Panicked,
        },
        Err(RecvTimeoutError::Timeout) => Outcome::Hung,
    }
}

fn assert_reports_server_close(outcome: Outcome) {
    match outcome {
        Outcome::Finished(Err(Error::ServerClosedConnection { code, message })) => {
            assert_eq!(code, 320);
            assert_eq!(message, "CONNECTION_FORCED - demo");
        }
        Outcome::Finished(other) => panic!(
            "I/O thread must end with the server's close, ended with {:?}",
            other
        ),
        Outcome::Panicked => panic!(
            "I/O thread panicked (Connection::close would report IoThreadPanic instead of the \
             server's close)"
        ),
        Outcome::Hung => panic!("I/O thread did not finish"),
    }
}

/// Publish first, server close second, both pending in the same wake-up.
fn publish_then_close_in_one_batch(body_len: usize) -> (Outcome, usize) {
    let Rig {
        io_loop,
        stream,
        ch0_slot,
        _ch0_handle,
        mut ch1,
        server,
    } = rig();

    // arm the sources in the order they are to appear in the batch
    publish(&mut ch1, body_len);
    server.send_connection_close();

    let wait = spawn_io_thread(io_loop, stream, ch0_slot);
    let outcome = wait();
    (outcome, server.bytes_received())
}

/// The property, for a publish whose frames add up to a bit more than a megabyte.
#[test]
fn large_publish_and_server_close_in_one_wakeup() {
    let body_len = 10 * BODY_FRAME;
    let (outcome, bytes_received) = publish_then_close_in_one_batch(body_len);
    assert_reports_server_close(outcome);
    // the publish was handled before the close: it took effect, all of it reached the socket
    assert!(
        bytes_received > body_len,
        "publish should have been written out ahead of close-ok, server got {} bytes",
        bytes_received
    );
}

/// Control: the same two events, the same order, an ordinary message size.
#[test]
fn control_small_publish_and_server_close_in_one_wakeup() {
    let body_len = 4 * 1024;
    let (outcome, bytes_received) = publish_then_close_in_one_batch(body_len);
    assert_reports_server_close(outcome);
    assert!(bytes_received > body_len);
}

/// Control: the same two events in the other order. The close is seen first, the channel's slot is
/// gone when its wake-up is handled, the publish is lost with the channel (and a later call on
/// the channel reports the server's close).
#[test]
fn control_server_close_then_large_publish_in_one_wakeup() {
    let Rig {
        io_loop,
        stream,
        ch0_slot,
        _ch0_handle,
        mut ch1,
        server,
    } = rig();

    let body_len = 10 * BODY_FRAME;
    server.send_connection_close();
    publish(&mut ch1, body_len);

    let wait = spawn_io_thread(io_loop, stream, ch0_slot);
    assert_reports_server_close(wait());
    assert!(
        server.bytes_received() < 1024,
        "only close-ok should have been written, server got {} bytes",
        server.bytes_received()
    );
    match ch1.call_nowait(AmqpBasic::RecoverAsync(
        amq_protocol::protocol::basic::RecoverAsync { requeue: false },
    )) {
        Err(Error::ServerClosedConnection { code: 320, .. }) => (),
        other => panic!("expected the server's close, got {:?}", other),
    }
}

/// Control: the serial execution the batch has to be equivalent to - the large publish is handled
/// and written out in wake-ups of its own, the close arrives afterwards.
#[test]
fn control_large_publish_flushed_before_server_close() {
    let Rig {
        io_loop,
        stream,
        ch0_slot,
        _ch0_handle,
        mut ch1,
        server,
    } = rig();

    let body_len = 10 * BODY_FRAME;
    publish(&mut ch1, body_len);
    // socket ready but nothing to read yet: the loop registers for writable once it has the
    // publish buffered and flushes it
    server.socket_ready();
    let wait = spawn_io_thread(io_loop, stream, ch0_slot);

    let deadline = Instant::now() + WATCHDOG;
    while server.bytes_received() <= body_len {
        assert!(Instant::now() < deadline, "publish was never written out");
        thread::yield_now();
    }
    let flushed = server.bytes_received();

    server.send_connection_close();
    assert_reports_server_close(wait());
    assert!(server.bytes_received() > flushed, "close-ok should follow");
}
