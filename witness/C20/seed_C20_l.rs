//@host src/lib.rs
// witness scenario from seeded change C20-l (independent sub-agent demonstration); passes on the unchanged tree
//! Demonstration for property C20 (simultaneous closes and requests resolve as some serial order).
//!
//! Drives the REAL library - Connection, Channel, the I/O thread and its poll loop - against a
//! scripted AMQP peer on a loopback socket. The peer plays the documented close race on one
//! channel: the client's Channel.Close crosses a server-initiated Channel.Close of the same
//! channel, so that the I/O thread sees
//!
//!     Channel.Close(n)      (server-initiated; removes the slot, fails the pending close())
//!     Channel.CloseOk(n)    (the server's answer to the client's crossing Close)
//!
//! The second frame names a channel that is gone already. That must be harmless whatever the
//! channel's id is and however the id was chosen: the racing `Channel::close` fails with the
//! server's close, every other channel keeps working, and `Connection::close` succeeds.
//!
//! No wall-clock dependence except the watchdog that turns a hang into a failure.

use crate::errors::*;
use crate::frame_buffer::FrameBuffer;
use crate::serialize::{IntoAmqpClass, OutputBuffer};
use crate::{Auth, Connection, ConnectionOptions, ConnectionTuning, FieldTable};
use amq_protocol::frame::AMQPFrame;
use amq_protocol::protocol::basic::AMQPMethod as AmqpBasic;
use amq_protocol::protocol::basic::QosOk;
use amq_protocol::protocol::channel::AMQPMethod as AmqpChannel;
use amq_protocol::protocol::channel::Close as ChannelClose;
use amq_protocol::protocol::channel::CloseOk as ChannelCloseOk;
use amq_protocol::protocol::channel::OpenOk as ChannelOpenOk;
use amq_protocol::protocol::connection::AMQPMethod as AmqpConnection;
use amq_protocol::protocol::connection::CloseOk as ConnectionCloseOk;
use amq_protocol::protocol::connection::{OpenOk, Start, Tune};
use amq_protocol::protocol::AMQPClass;
use std::collections::HashSet;
use std::io::{Read, Write};
use std::net::{SocketAddr, TcpListener, TcpStream};
use std::sync::{mpsc, Arc, Mutex};
use std::thread;
use std::time::Duration;

const WATCHDOG: Duration = Duration::from_secs(30);
const SERVER_CLOSE_CODE: u16 = 406;
const SERVER_CLOSE_TEXT: &str = "PRECONDITION_FAILED - demo";

fn frame<M: IntoAmqpClass>(channel_id: u16, method: M) -> Vec<u8> {
    let mut buf = OutputBuffer::empty();
    buf.push_method(channel_id, method);
    buf[0..].to_vec()
}

/// Channels on which the peer plays the race: when it receives the client's Channel.Close for one
/// of them it behaves like a server whose own Channel.Close was already on its way.
type Crossing = Arc<Mutex<HashSet<u16>>>;

/// A minimal AMQP 0-9-1 peer: handshake, then answers exactly what the scenarios below need.
fn serve(listener: TcpListener, crossing: Crossing) {
    let (mut stream, _) = listener.accept().unwrap();
    stream.set_read_timeout(Some(WATCHDOG)).unwrap();
    let mut out: TcpStream = stream.try_clone().unwrap();

    let mut header = [0u8; 8];
    stream.read_exact(&mut header).unwrap();
    assert_eq!(&header, b"AMQP\x00\x00\x09\x01");
    out.write_all(&frame(
        0,
        AmqpConnection::Start(Start {
            version_major: 0,
            version_minor: 9,
            server_properties: FieldTable::new(),
            mechanisms: "PLAIN".to_string(),
            locales: "en_US".to_string(),
        }),
    ))
    .unwrap();

    let mut frames = FrameBuffer::new();
    // runs until the client goes away (EOF), the read times out, or the connection is closed
    let _ = frames.read_from(&mut stream, |incoming| {
        let reply: Vec<u8> = match incoming {
            AMQPFrame::Method(0, AMQPClass::Connection(method)) => match method {
                AmqpConnection::StartOk(_) => frame(
                    0,
                    AmqpConnection::Tune(Tune {
                        channel_max: 0,
                        frame_max: 131_072,
                        heartbeat: 0,
                    }),
                ),
                AmqpConnection::TuneOk(_) => Vec::new(),
                AmqpConnection::Open(_) => frame(
                    0,
                    AmqpConnection::OpenOk(OpenOk {
                        known_hosts: String::new(),
                    }),
                ),
                AmqpConnection::Close(_) => {
                    let bytes = frame(0, AmqpConnection::CloseOk(ConnectionCloseOk {}));
                    let _ = out.write_all(&bytes);
                    return UnexpectedSocketCloseSnafu.fail(); // done: stop serving
                }
                other => panic!("peer: unexpected connection method {:?}", other),
            },
            AMQPFrame::Method(n, AMQPClass::Channel(AmqpChannel::Open(_))) => frame(
                n,
                AmqpChannel::OpenOk(ChannelOpenOk {
                    channel_id: String::new(),
                }),
            ),
            AMQPFrame::Method(n, AMQPClass::Channel(AmqpChannel::Close(_))) => {
                let close_ok = frame(n, AmqpChannel::CloseOk(ChannelCloseOk {}));
                if crossing.lock().unwrap().contains(&n) {
                    // our own Close "was sent first"; the client's Close is then answered with
                    // CloseOk, as the specification demands of a peer that is closing already
                    let mut bytes = frame(
                        n,
                        AmqpChannel::Close(ChannelClose {
                            reply_code: SERVER_CLOSE_CODE,
                            reply_text: SERVER_CLOSE_TEXT.to_string(),
                            class_id: 0,
                            method_id: 0,
                        }),
                    );
                    bytes.extend_from_slice(&close_ok);
                    bytes
                } else {
                    close_ok
                }
            }
            // the client's answer to our Close
            AMQPFrame::Method(_, AMQPClass::Channel(AmqpChannel::CloseOk(_))) => Vec::new(),
            AMQPFrame::Method(n, AMQPClass::Basic(AmqpBasic::Qos(_))) => {
                frame(n, AmqpBasic::QosOk(QosOk {}))
            }
            other => panic!("peer: unexpected frame {:?}", other),
        };
        let _ = out.write_all(&reply);
        Ok(())
    });
}

fn start_peer() -> (SocketAddr, Crossing) {
    let listener = TcpListener::bind("127.0.0.1:0").unwrap();
    let addr = listener.local_addr().unwrap();
    let crossing = Crossing::default();
    let for_peer = crossing.clone();
    thread::Builder::new()
        .name("c20-demo-peer".to_string())
        .spawn(move || serve(listener, for_peer))
        .unwrap();
    (addr, crossing)
}

fn connect(addr: SocketAddr) -> Connection {
    let stream = mio::net::TcpStream::connect(&addr).unwrap();
    Connection::insecure_open_stream(
        stream,
        ConnectionOptions::<Auth>::default(),
        ConnectionTuning::default(),
    )
    .unwrap()
}

/// What the client observed.
#[derive(Debug)]
struct Outcome {
    victim_id: u16,
    /// `Channel::close` on the channel whose close crossed the server's
    racing_close: Result<()>,
    /// an RPC on another channel, made after the race
    other_channel_call: Result<()>,
    other_channel_close: Result<()>,
    connection_close: Result<()>,
}

/// How the channel that will be closed from both sides gets its id.
#[derive(Clone, Copy, Debug)]
enum Victim {
    /// `open_channel(None)`
    Auto,
    /// `open_channel(Some(id))` with an id the library has not reached by itself
    Explicit(u16),
    /// `open_channel(Some(id))` with an id that the library handed out (and got back) before
    ExplicitRecycled,
}

fn scenario(victim: Victim) -> Outcome {
    let (addr, crossing) = start_peer();
    let mut conn = connect(addr);

    let other = conn.open_channel(None).unwrap();
    let victim = match victim {
        Victim::Auto => conn.open_channel(None).unwrap(),
        Victim::Explicit(id) => conn.open_channel(Some(id)).unwrap(),
        Victim::ExplicitRecycled => {
            let first = conn.open_channel(None).unwrap();
            let id = first.channel_id();
            first.close().unwrap(); // ordinary close: no race here
            conn.open_channel(Some(id)).unwrap()
        }
    };
    let victim_id = victim.channel_id();
    assert_ne!(victim_id, other.channel_id());

    // from now on the peer answers a Close of this channel with [Close, CloseOk]
    crossing.lock().unwrap().insert(victim_id);
    let racing_close = victim.close();

    // The peer answers in order, so by the time this call returns the I/O thread has handled the
    // CloseOk for the channel that is gone.
    let other_channel_call = other.qos(0, 1, false);
    let other_channel_close = other.close();
    let connection_close = conn.close();

    Outcome {
        victim_id,
        racing_close,
        other_channel_call,
        other_channel_close,
        connection_close,
    }
}

/// Runs the scenario under a watchdog: a hang is a failure, not a stuck test run.
fn scenario_with_watchdog(victim: Victim) -> Outcome {
    let (tx, rx) = mpsc::channel();
    thread::Builder::new()
        .name(format!("c20-demo-client-{:?}", victim))
        .spawn(move || {
            let _ = tx.send(scenario(victim));
        })
        .unwrap();
    match rx.recv_timeout(WATCHDOG) {
        Ok(outcome) => outcome,
        Err(err) => panic!("scenario {:?} did not finish: {}", victim, err),
    }
}

fn assert_serial_outcome(outcome: &Outcome) {
    eprintln!("observed: {:?}", outcome);
    // the racing request fails with the server's close of that channel
    match &outcome.racing_close {
        Err(Error::ServerClosedChannel {
            channel_id,
            code,
            message,
        }) => {
            assert_eq!(*channel_id, outcome.victim_id);
            assert_eq!(*code, SERVER_CLOSE_CODE);
            assert_eq!(message, SERVER_CLOSE_TEXT);
        }
        other => panic!("racing Channel::close: unexpected result {:?}", other),
    }
    // nothing else is affected by the close of one channel
    assert!(
        outcome.other_channel_call.is_ok(),
        "call on another channel after the race: {:?}",
        outcome.other_channel_call
    );
    assert!(
        outcome.other_channel_close.is_ok(),
        "close of another channel after the race: {:?}",
        outcome.other_channel_close
    );
    // and the I/O thread ended cleanly (no panic, no error)
    assert!(
        outcome.connection_close.is_ok(),
        "Connection::close after the race: {:?}",
        outcome.connection_close
    );
}

/// Control: the race on a channel whose id the library chose. Passes with and without the change.
#[test]
fn control_crossing_close_on_auto_numbered_channel() {
    let outcome = scenario_with_watchdog(Victim::Auto);
    assert_eq!(outcome.victim_id, 2);
    assert_serial_outcome(&outcome);
}

/// Control: the race on an explicitly requested id that the library had handed out by itself
/// before. Passes with and without the change.
#[test]
fn control_crossing_close_on_explicit_recycled_id() {
    let outcome = scenario_with_watchdog(Victim::ExplicitRecycled);
    assert_eq!(outcome.victim_id, 2);
    assert_serial_outcome(&outcome);
}

/// The same race on a channel opened with an explicit id above the ones handed out so far.
#[test]
fn crossing_close_on_explicitly_numbered_channel() {
    let outcome = scenario_with_watchdog(Victim::Explicit(7));
    assert_eq!(outcome.victim_id, 7);
    assert_serial_outcome(&outcome);
}

/// ... and at the top of the id range.
#[test]
fn crossing_close_on_highest_channel_id() {
    let outcome = scenario_with_watchdog(Victim::Explicit(u16::max_value()));
    assert_eq!(outcome.victim_id, u16::max_value());
    assert_serial_outcome(&outcome);
}
