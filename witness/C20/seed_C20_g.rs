//@host src/io_loop/mod.rs
// witness scenario from seeded change C20-g (independent sub-agent demonstration); passes on the unchanged tree
//! Demonstration for property C20 (simultaneous closes and requests resolve as some serial
//! order, never a panic).
//!
//! The schedule exercised here: a client `Connection::close` request and the server's
//! `connection.close` are pending for the I/O thread at the same time.
//!
//! * `batch_*` tests drive the real `IoLoop::handle_steady_event` with the events of one batch in
//!   a chosen order (the client's request is really pending: we wait for the real poll to report
//!   it), over an in-memory stream.
//! * `e2e_*` tests run a whole `Connection` against a scripted server on a loopback socket.
//!
//! Expected (serial order semantics): no panic on the I/O side, the I/O loop ends in
//! `ServerClosing` carrying the server's close, and `Connection::close` reports
//! `Error::ServerClosedConnection` with the server's code.

use super::*;
use crate::{Auth, Connection};
use amq_protocol::protocol::connection::AMQPMethod as AmqpConnection;
use amq_protocol::protocol::connection::{Close, CloseOk, OpenOk, Start, Tune};
use mio::{Registration, SetReadiness};
use std::collections::VecDeque;
use std::io::{Read, Write};
use std::net::{TcpListener, TcpStream as StdTcpStream};
use std::panic::{catch_unwind, AssertUnwindSafe};
use std::sync::mpsc;
use std::thread;

const SERVER_CODE: u16 = 320;
const SERVER_TEXT: &str = "CONNECTION_FORCED - demo";
const WATCHDOG: Duration = Duration::from_secs(10);

fn frame_bytes<M: IntoAmqpClass>(channel_id: u16, method: M) -> Vec<u8> {
    let mut buf = OutputBuffer::empty();
    buf.push_method(channel_id, method);
    buf[0..].to_vec()
}

fn server_close_bytes() -> Vec<u8> {
    frame_bytes(
        0,
        AmqpConnection::Close(Close {
            reply_code: SERVER_CODE,
            reply_text: SERVER_TEXT.to_string(),
            class_id: 0,
            method_id: 0,
        }),
    )
}

// ---------------------------------------------------------------------------------------------
// In-memory stream
// ---------------------------------------------------------------------------------------------

struct MemStream {
    registration: Registration,
    _set_readiness: SetReadiness,
    input: VecDeque<u8>,
    output: Vec<u8>,
}

impl MemStream {
    fn new() -> MemStream {
        let (registration, set_readiness) = Registration::new2();
        MemStream {
            registration,
            _set_readiness: set_readiness,
            input: VecDeque::new(),
            output: Vec::new(),
        }
    }
}

impl Read for MemStream {
    fn read(&mut self, buf: &mut [u8]) -> io::Result<usize> {
        if self.input.is_empty() {
            return Err(io::ErrorKind::WouldBlock.into());
        }
        let n = usize::min(buf.len(), self.input.len());
        for b in buf.iter_mut().take(n) {
            *b = self.input.pop_front().unwrap();
        }
        Ok(n)
    }
}

impl Write for MemStream {
    fn write(&mut self, buf: &[u8]) -> io::Result<usize> {
        self.output.extend_from_slice(buf);
        Ok(buf.len())
    }
    fn flush(&mut self) -> io::Result<()> {
        Ok(())
    }
}

impl Evented for MemStream {
    fn register(&self, poll: &Poll, t: Token, i: Ready, o: PollOpt) -> io::Result<()> {
        self.registration.register(poll, t, i, o)
    }
    fn reregister(&self, poll: &Poll, t: Token, i: Ready, o: PollOpt) -> io::Result<()> {
        self.registration.reregister(poll, t, i, o)
    }
    fn deregister(&self, poll: &Poll) -> io::Result<()> {
        poll.deregister(&self.registration)
    }
}

impl IoStream for MemStream {}

// ---------------------------------------------------------------------------------------------
// One batch, driven by hand
// ---------------------------------------------------------------------------------------------

#[derive(Clone, Copy, Debug)]
enum Pending {
    ClientClose, // Token(0): the Connection::close request
    ServerClose, // STREAM readable: the server's connection.close frame
}

struct BatchOutcome {
    panicked: bool,
    final_state: &'static str,
    server_code: Option<u16>,
    sealed: bool,
    client_result: Option<Result<()>>,
}

/// A steady-state I/O loop (handshake already done, nothing left to write) with a client
/// `Connection::close` request really pending on channel 0 and the server's close really pending
/// on the stream; the two wake-ups are then handled in `order`, the way `run_io_loop` iterates
/// over the events of one poll.
fn run_batch(order: &[Pending]) -> BatchOutcome {
    let mut io_loop = IoLoop::new(ConnectionTuning::default()).unwrap();
    io_loop.inner.outbuf.clear(); // the protocol header went out during the handshake
    io_loop.inner.chan_slots.set_channel_max(16);

    let (ch0_slot, ch0_handle) = Channel0Slot::new(io_loop.inner.mio_channel_bound);
    io_loop
        .poll
        .register(
            &ch0_slot.common.rx,
            Token(0),
            Ready::readable(),
            PollOpt::edge(),
        )
        .unwrap();
    let mut state = ConnectionState::Steady(ch0_slot);

    let mut stream = MemStream::new();
    stream.input.extend(server_close_bytes());

    // the client: Connection::close boils down to Channel0Handle::close_connection
    let (result_tx, result_rx) = mpsc::channel();
    thread::spawn(move || {
        let mut handle = Channel0Handle::new(ch0_handle, 0);
        let _ = result_tx.send(handle.close_connection());
    });

    // wait until the real poll reports the client's request
    let deadline = Instant::now() + WATCHDOG;
    let mut events = Events::with_capacity(16);
    'wait: loop {
        io_loop
            .poll
            .poll(&mut events, Some(Duration::from_millis(50)))
            .unwrap();
        for event in events.iter() {
            if event.token() == Token(0) {
                break 'wait;
            }
        }
        assert!(Instant::now() < deadline, "client request never showed up");
    }

    // now both are pending: handle them like one batch of events, then flush what is to write
    let panicked = catch_unwind(AssertUnwindSafe(|| {
        for pending in order {
            let event = match pending {
                Pending::ClientClose => Event::new(Ready::readable(), Token(0)),
                Pending::ServerClose => Event::new(Ready::readable(), STREAM),
            };
            io_loop
                .handle_steady_event(&mut stream, &mut state, event)
                .unwrap();
        }
        let mut rounds = 0;
        while !io_loop.is_connection_done(&state) {
            let event = Event::new(Ready::writable(), STREAM);
            io_loop
                .handle_steady_event(&mut stream, &mut state, event)
                .unwrap();
            rounds += 1;
            assert!(rounds < 4, "I/O loop does not come to an end");
        }
    }))
    .is_err();

    let (final_state, server_code) = match &state {
        ConnectionState::Steady(_) => ("Steady", None),
        ConnectionState::ServerClosing(close) => ("ServerClosing", Some(close.reply_code)),
        ConnectionState::ClientException => ("ClientException", None),
        ConnectionState::ClientClosed => ("ClientClosed", None),
    };
    let sealed = io_loop.inner.are_writes_sealed();
    // the I/O thread would end here, dropping everything it owns
    drop(state);
    drop(io_loop);
    let client_result = result_rx.recv_timeout(WATCHDOG).ok();

    BatchOutcome {
        panicked,
        final_state,
        server_code,
        sealed,
        client_result,
    }
}

fn check_batch(order: &[Pending]) {
    let outcome = run_batch(order);
    assert!(
        !outcome.panicked,
        "I/O loop code panicked handling {:?} (state left: {})",
        order, outcome.final_state
    );
    assert_eq!(outcome.final_state, "ServerClosing", "order {:?}", order);
    assert_eq!(outcome.server_code, Some(SERVER_CODE), "order {:?}", order);
    assert!(outcome.sealed);
    // the racing request fails with the close's error (channel 0 learns of it by the loop going
    // away; Connection::close then picks the server's close from the I/O thread's result)
    match outcome.client_result {
        Some(Err(Error::EventLoopDropped)) => (),
        other => panic!("unexpected result of the racing close request: {:?}", other),
    }
}

/// Control: the server's close is handled first, the client's request is a stale wake-up.
#[test]
fn batch_server_close_then_client_close() {
    check_batch(&[Pending::ServerClose, Pending::ClientClose]);
}

/// The other order of the same batch: the client's request is taken first (its Close is
/// enqueued and the writes are sealed), then the server's close is seen.
#[test]
fn batch_client_close_then_server_close() {
    check_batch(&[Pending::ClientClose, Pending::ServerClose]);
}

/// Control: the server's close alone.
#[test]
fn batch_server_close_alone_control() {
    check_batch(&[Pending::ServerClose]);
}

// ---------------------------------------------------------------------------------------------
// Whole connection against a scripted server on a loopback socket
// ---------------------------------------------------------------------------------------------

fn read_frame(sock: &mut StdTcpStream) -> io::Result<(u8, u16, Vec<u8>)> {
    let mut header = [0u8; 7];
    sock.read_exact(&mut header)?;
    let size = u32::from_be_bytes([header[3], header[4], header[5], header[6]]) as usize;
    let mut rest = vec![0u8; size + 1];
    sock.read_exact(&mut rest)?;
    rest.pop();
    Ok((header[0], u16::from_be_bytes([header[1], header[2]]), rest))
}

fn class_and_method(payload: &[u8]) -> (u16, u16) {
    (
        u16::from_be_bytes([payload[0], payload[1]]),
        u16::from_be_bytes([payload[2], payload[3]]),
    )
}

/// What the server answers to the client's connection.close.
#[derive(Clone, Copy)]
enum Answer {
    CloseOk,
    CrossingClose,
}

fn scripted_server(listener: TcpListener, answer: Answer) -> io::Result<()> {
    let (mut sock, _) = listener.accept()?;
    sock.set_read_timeout(Some(WATCHDOG))?;
    sock.set_nodelay(true)?;

    let mut protocol_header = [0u8; 8];
    sock.read_exact(&mut protocol_header)?;
    sock.write_all(&frame_bytes(
        0,
        AmqpConnection::Start(Start {
            version_major: 0,
            version_minor: 9,
            server_properties: FieldTable::new(),
            mechanisms: "PLAIN".to_string(),
            locales: "en_US".to_string(),
        }),
    ))?;
    read_frame(&mut sock)?; // start-ok
    sock.write_all(&frame_bytes(
        0,
        AmqpConnection::Tune(Tune {
            channel_max: 16,
            frame_max: 1 << 17,
            heartbeat: 0,
        }),
    ))?;
    read_frame(&mut sock)?; // tune-ok
    read_frame(&mut sock)?; // open
    sock.write_all(&frame_bytes(
        0,
        AmqpConnection::OpenOk(OpenOk {
            known_hosts: String::new(),
        }),
    ))?;

    // steady state: wait for the client's connection.close (class 10, method 50)
    loop {
        let (_, channel, payload) = read_frame(&mut sock)?;
        if channel == 0 && class_and_method(&payload) == (10, 50) {
            break;
        }
    }
    match answer {
        Answer::CloseOk => sock.write_all(&frame_bytes(0, AmqpConnection::CloseOk(CloseOk {})))?,
        // The server had decided to close the connection before it saw the client's Close:
        // the two Close methods cross on the wire.
        Answer::CrossingClose => sock.write_all(&server_close_bytes())?,
    }
    // let the client go away first (EOF, reset or timeout all end the script)
    let mut sink = [0u8; 256];
    while let Ok(n) = sock.read(&mut sink) {
        if n == 0 {
            break;
        }
    }
    Ok(())
}

fn close_against_server(answer: Answer) -> Result<()> {
    let listener = TcpListener::bind("127.0.0.1:0").unwrap();
    let addr = listener.local_addr().unwrap();
    thread::spawn(move || scripted_server(listener, answer));

    let (result_tx, result_rx) = mpsc::channel();
    thread::spawn(move || {
        let stream = mio::net::TcpStream::connect(&addr).unwrap();
        let result = Connection::insecure_open_stream(
            stream,
            ConnectionOptions::<Auth>::default(),
            ConnectionTuning::default(),
        )
        .and_then(|connection| connection.close());
        let _ = result_tx.send(result);
    });
    result_rx
        .recv_timeout(WATCHDOG)
        .expect("Connection::close did not return in time")
}

/// Control: an ordinary close handshake.
#[test]
fn e2e_plain_close_control() {
    match close_against_server(Answer::CloseOk) {
        Ok(()) => (),
        Err(err) => panic!("plain close failed: {:?}", err),
    }
}

/// The client's Close and the server's Close cross: Connection::close reports the server's close.
#[test]
fn e2e_crossing_closes_report_the_servers_close() {
    match close_against_server(Answer::CrossingClose) {
        Err(Error::ServerClosedConnection { code, ref message })
            if code == SERVER_CODE && message == SERVER_TEXT => {}
        other => panic!(
            "Connection::close should report the server's close, got {:?}",
            other
        ),
    }
}
