// Shared by the end-to-end sweeps (textually included): an in-memory transport that plays an AMQP broker for the real I/O thread.
// It auto-answers the handshake and every synchronous request it knows (unless the test asked to withhold that answer), records every
// frame the client writes (raw bytes + parsed form), and lets the test thread inject server-initiated frames or end the stream at any time.
use crate::serialize::OutputBuffer;
use crate::{FieldTable, IoStream};
use amq_protocol::frame::{parse_frame, AMQPFrame};
use amq_protocol::protocol::basic as basic;
use amq_protocol::protocol::basic::AMQPMethod as B;
use amq_protocol::protocol::channel as channel_;
use amq_protocol::protocol::channel::AMQPMethod as AmqpChannel;
use amq_protocol::protocol::confirm as confirm;
use amq_protocol::protocol::confirm::AMQPMethod as Cf;
use amq_protocol::protocol::connection as connection_;
use amq_protocol::protocol::connection::AMQPMethod as AmqpConnection;
use amq_protocol::protocol::exchange as exchange;
use amq_protocol::protocol::exchange::AMQPMethod as X;
use amq_protocol::protocol::queue as queue;
use amq_protocol::protocol::queue::AMQPMethod as Q;
use amq_protocol::protocol::AMQPClass;
use mio::{Evented, Poll, PollOpt, Ready, Registration, SetReadiness, Token};
use std::collections::VecDeque;
use std::io::{self, Read, Write};
use std::sync::{Arc, Condvar, Mutex};
use std::time::{Duration, Instant};

/// run one scenario on its own thread; a scenario that does not finish (a call on the real code that never returns) is a failure.
/// A scenario that panics is reported at once, from the panic hook: unwinding its thread drops Connections / Channels, which may block for as
/// long as the watchdog allows when the broker side is gone.
pub fn with_watchdog<F: FnOnce() + Send + 'static>(what: String, secs: u64, f: F) {
    use std::sync::atomic::{AtomicUsize, Ordering as AtOrd};
    static HOOK: std::sync::Once = std::sync::Once::new();
    static COUNTER: AtomicUsize = AtomicUsize::new(0);
    static PANICS: Mutex<Vec<(String, String)>> = Mutex::new(Vec::new());
    HOOK.call_once(|| {
        let previous = std::panic::take_hook();
        std::panic::set_hook(Box::new(move |info| {
            if let Some(name) = std::thread::current().name() {
                // (this file is included by several scenario modules of one test binary: each has its own registry and its own thread names)
                if name.starts_with(concat!("verif-scenario-", module_path!(), "-")) {
                    let msg = info.payload().downcast_ref::<String>().cloned().or_else(|| info.payload().downcast_ref::<&str>().map(|s| s.to_string())).unwrap_or_else(|| "(panic)".to_string());
                    PANICS.lock().unwrap_or_else(|e| e.into_inner()).push((name.to_string(), msg));
                }
            }
            previous(info);
        }));
    });
    let name = format!("verif-scenario-{}-{}", module_path!(), COUNTER.fetch_add(1, AtOrd::SeqCst));
    let (tx, rx) = std::sync::mpsc::channel();
    let h = std::thread::Builder::new()
        .name(name.clone())
        .spawn(move || {
            f();
            let _ = tx.send(());
        })
        .unwrap();
    let start = Instant::now();
    loop {
        match rx.recv_timeout(Duration::from_millis(20)) {
            Ok(()) => {
                let _ = h.join();
                return;
            }
            Err(std::sync::mpsc::RecvTimeoutError::Disconnected) => {
                // the scenario panicked and has finished unwinding: propagate its message
                match h.join() {
                    Err(e) => std::panic::resume_unwind(e),
                    Ok(()) => return,
                }
            }
            Err(std::sync::mpsc::RecvTimeoutError::Timeout) => {}
        }
        let panicked = PANICS.lock().unwrap_or_else(|e| e.into_inner()).iter().find(|(n, _)| *n == name).map(|(_, m)| m.clone());
        if let Some(msg) = panicked {
            panic!("{}", msg);
        }
        if start.elapsed() > Duration::from_secs(secs) {
            panic!("{}: the scenario did not finish within {} s (some call on the real code never returns)", what, secs);
        }
    }
}

pub fn method_bytes<M: crate::serialize::IntoAmqpClass>(channel: u16, m: M) -> Vec<u8> {
    let mut buf = OutputBuffer::empty();
    buf.push_method(channel, m);
    buf[0..].to_vec()
}

pub fn content_bytes(channel: u16, body: &[u8]) -> Vec<u8> {
    let mut buf = OutputBuffer::empty();
    buf.push_content_header(channel, 60, body.len(), &crate::AmqpProperties::default());
    if !body.is_empty() {
        buf.push_content_body(channel, body);
    }
    buf[0..].to_vec()
}

#[derive(Default)]
pub struct Ctl {
    pub seen: Vec<(u16, AMQPFrame)>,
    pub inject: VecDeque<u8>,
    pub eof: bool,
    /// (channel, class id, method id) of requests whose answer is withheld (the caller stays in flight)
    pub withhold: Vec<(u16, u16, u16)>,
    pub tune: Option<connection_::Tune>,
    /// bytes the transport still accepts (None: no limit); at 0 every write would block
    pub budget: Option<usize>,
    /// at most this many bytes are accepted per write call (None: everything offered)
    pub chunk: Option<usize>,
    /// total bytes accepted from the client so far
    pub accepted: usize,
    /// at most this many bytes are handed out per read call (None: as many as the caller has room for)
    pub read_chunk: Option<usize>,
    /// the next read / write fails with an I/O error (connection reset / broken pipe)
    pub read_error: bool,
    pub write_error: bool,
    readiness: Option<SetReadiness>,
}

#[derive(Clone)]
pub struct Handle(pub Arc<(Mutex<Ctl>, Condvar)>);

impl Handle {
    pub fn new() -> Handle {
        Handle(Arc::new((Mutex::new(Ctl::default()), Condvar::new())))
    }
    fn wake(ctl: &Ctl) {
        if let Some(r) = &ctl.readiness {
            let w = if ctl.budget == Some(0) { Ready::empty() } else { Ready::writable() };
            let rd = if ctl.inject.is_empty() && !ctl.eof { Ready::empty() } else { Ready::readable() };
            let _ = r.set_readiness(w | rd);
        }
    }
    /// server-initiated bytes
    pub fn inject(&self, bytes: Vec<u8>) {
        let mut c = (self.0).0.lock().unwrap();
        c.inject.extend(bytes);
        Handle::wake(&c);
    }
    /// last bytes and end of stream become visible together
    pub fn inject_then_close_socket(&self, bytes: Vec<u8>) {
        let mut c = (self.0).0.lock().unwrap();
        c.inject.extend(bytes);
        c.eof = true;
        Handle::wake(&c);
    }
    pub fn fail_reads(&self) {
        let mut c = (self.0).0.lock().unwrap();
        c.read_error = true;
        c.eof = true; // makes the stream report readable
        Handle::wake(&c);
    }
    pub fn fail_writes(&self) {
        let mut c = (self.0).0.lock().unwrap();
        c.write_error = true;
        Handle::wake(&c);
    }
    pub fn close_socket(&self) {
        let mut c = (self.0).0.lock().unwrap();
        c.eof = true;
        Handle::wake(&c);
    }
    pub fn set_budget(&self, budget: Option<usize>) {
        let mut c = (self.0).0.lock().unwrap();
        c.budget = budget;
        Handle::wake(&c);
    }
    pub fn set_read_chunk(&self, chunk: Option<usize>) {
        (self.0).0.lock().unwrap().read_chunk = chunk;
    }
    pub fn set_chunk(&self, chunk: Option<usize>) {
        (self.0).0.lock().unwrap().chunk = chunk;
    }
    pub fn accepted(&self) -> usize {
        (self.0).0.lock().unwrap().accepted
    }
    pub fn withhold(&self, channel: u16, class_id: u16, method_id: u16) {
        (self.0).0.lock().unwrap().withhold.push((channel, class_id, method_id));
    }
    pub fn take_seen(&self) -> Vec<(u16, AMQPFrame)> {
        std::mem::replace(&mut (self.0).0.lock().unwrap().seen, Vec::new())
    }
    /// wait until the client has written a frame satisfying `pred` (it stays in `seen`); false on timeout
    pub fn wait_for<F: Fn(&(u16, AMQPFrame)) -> bool>(&self, pred: F, timeout: Duration) -> bool {
        let deadline = Instant::now() + timeout;
        let mut c = (self.0).0.lock().unwrap();
        loop {
            if c.seen.iter().any(|f| pred(f)) {
                return true;
            }
            let now = Instant::now();
            if now >= deadline {
                return false;
            }
            c = (self.0).1.wait_timeout(c, deadline - now).unwrap().0;
        }
    }
}

pub struct LiveBroker {
    registration: Registration,
    readiness: SetReadiness,
    greeted: bool,
    inbox: VecDeque<u8>,
    pending: Vec<u8>,
    delivery_tag: u64,
    ctl: Handle,
}

impl LiveBroker {
    pub fn new(ctl: Handle) -> LiveBroker {
        let (registration, readiness) = Registration::new2();
        readiness.set_readiness(Ready::writable()).unwrap();
        (ctl.0).0.lock().unwrap().readiness = Some(readiness.clone());
        LiveBroker { registration, readiness, greeted: false, inbox: VecDeque::new(), pending: Vec::new(), delivery_tag: 0, ctl }
    }
    fn pull_injected(&mut self) -> bool {
        let mut c = (self.ctl.0).0.lock().unwrap();
        let bytes: Vec<u8> = c.inject.drain(..).collect();
        self.inbox.extend(bytes);
        c.eof
    }
    fn now(&mut self) -> Ready {
        let eof = self.pull_injected();
        let w = if (self.ctl.0).0.lock().unwrap().budget == Some(0) { Ready::empty() } else { Ready::writable() };
        if self.inbox.is_empty() && !eof { w } else { Ready::readable() | w }
    }
    fn reply<M: crate::serialize::IntoAmqpClass>(&mut self, n: u16, m: M) {
        self.inbox.extend(method_bytes(n, m));
    }
    fn answer(&mut self, raw: &[u8], frame: &AMQPFrame) {
        let (n, class) = match frame {
            AMQPFrame::Method(n, class) => (*n, class),
            _ => return,
        };
        {
            let mut c = (self.ctl.0).0.lock().unwrap();
            let key = (n, u16::from_be_bytes([raw[7], raw[8]]), u16::from_be_bytes([raw[9], raw[10]]));
            if let Some(pos) = c.withhold.iter().position(|w| *w == key) {
                c.withhold.remove(pos);
                return;
            }
        }
        match class {
            AMQPClass::Connection(AmqpConnection::StartOk(_)) => {
                let t = (self.ctl.0).0.lock().unwrap().tune.take().unwrap_or(connection_::Tune { channel_max: 16, frame_max: 131_072, heartbeat: 0 });
                self.reply(0, AmqpConnection::Tune(t));
            }
            AMQPClass::Connection(AmqpConnection::Open(_)) => self.reply(0, AmqpConnection::OpenOk(connection_::OpenOk { known_hosts: String::new() })),
            AMQPClass::Connection(AmqpConnection::Close(_)) => self.reply(0, AmqpConnection::CloseOk(connection_::CloseOk {})),
            AMQPClass::Channel(AmqpChannel::Open(_)) => self.reply(n, AmqpChannel::OpenOk(channel_::OpenOk { channel_id: String::new() })),
            AMQPClass::Channel(AmqpChannel::Close(_)) => self.reply(n, AmqpChannel::CloseOk(channel_::CloseOk {})),
            AMQPClass::Basic(B::Qos(_)) => self.reply(n, B::QosOk(basic::QosOk {})),
            AMQPClass::Basic(B::Recover(_)) => self.reply(n, B::RecoverOk(basic::RecoverOk {})),
            AMQPClass::Basic(B::Consume(c)) => {
                let tag = if c.consumer_tag.is_empty() { format!("ctag-{}-{}", n, self.delivery_tag) } else { c.consumer_tag.clone() };
                self.delivery_tag += 1;
                self.reply(n, B::ConsumeOk(basic::ConsumeOk { consumer_tag: tag }));
            }
            AMQPClass::Basic(B::Cancel(c)) if !c.nowait => self.reply(n, B::CancelOk(basic::CancelOk { consumer_tag: c.consumer_tag.clone() })),
            AMQPClass::Basic(B::Get(_)) => self.reply(n, B::GetEmpty(basic::GetEmpty { cluster_id: String::new() })),
            AMQPClass::Confirm(Cf::Select(s)) if !s.nowait => self.reply(n, Cf::SelectOk(confirm::SelectOk {})),
            AMQPClass::Queue(Q::Declare(d)) if !d.nowait => self.reply(n, Q::DeclareOk(queue::DeclareOk { queue: d.queue.clone(), message_count: n as u32, consumer_count: 0 })),
            AMQPClass::Queue(Q::Bind(b)) if !b.nowait => self.reply(n, Q::BindOk(queue::BindOk {})),
            AMQPClass::Queue(Q::Unbind(_)) => self.reply(n, Q::UnbindOk(queue::UnbindOk {})),
            AMQPClass::Queue(Q::Purge(p)) if !p.nowait => self.reply(n, Q::PurgeOk(queue::PurgeOk { message_count: 1000 + n as u32 })),
            AMQPClass::Queue(Q::Delete(d)) if !d.nowait => self.reply(n, Q::DeleteOk(queue::DeleteOk { message_count: 2000 + n as u32 })),
            AMQPClass::Exchange(X::Declare(d)) if !d.nowait => self.reply(n, X::DeclareOk(exchange::DeclareOk {})),
            AMQPClass::Exchange(X::Bind(b)) if !b.nowait => self.reply(n, X::BindOk(exchange::BindOk {})),
            AMQPClass::Exchange(X::Unbind(u)) if !u.nowait => self.reply(n, X::UnbindOk(exchange::UnbindOk {})),
            AMQPClass::Exchange(X::Delete(d)) if !d.nowait => self.reply(n, X::DeleteOk(exchange::DeleteOk {})),
            _ => {}
        }
    }
}

impl Read for LiveBroker {
    fn read(&mut self, buf: &mut [u8]) -> io::Result<usize> {
        if (self.ctl.0).0.lock().unwrap().read_error {
            return Err(io::ErrorKind::ConnectionReset.into());
        }
        let eof = self.pull_injected();
        if self.inbox.is_empty() {
            return if eof { Ok(0) } else { Err(io::ErrorKind::WouldBlock.into()) };
        }
        let cap = (self.ctl.0).0.lock().unwrap().read_chunk.unwrap_or(usize::max_value()).max(1);
        let n = buf.len().min(self.inbox.len()).min(cap);
        for b in buf[..n].iter_mut() {
            *b = self.inbox.pop_front().unwrap();
        }
        Ok(n)
    }
}

impl Write for LiveBroker {
    fn write(&mut self, buf: &[u8]) -> io::Result<usize> {
        let take = {
            let mut c = (self.ctl.0).0.lock().unwrap();
            if c.write_error {
                return Err(io::ErrorKind::BrokenPipe.into());
            }
            let mut n = buf.len();
            if let Some(b) = c.budget {
                if b == 0 {
                    return Err(io::ErrorKind::WouldBlock.into());
                }
                n = n.min(b);
            }
            if let Some(k) = c.chunk {
                n = n.min(k.max(1));
            }
            if let Some(b) = c.budget {
                c.budget = Some(b - n);
            }
            c.accepted += n;
            n
        };
        let buf = &buf[..take];
        let mut data = std::mem::replace(&mut self.pending, Vec::new());
        data.extend_from_slice(buf);
        let mut rest: &[u8] = &data;
        if !self.greeted && rest.len() >= 8 {
            rest = &rest[8..];
            self.greeted = true;
            self.reply(
                0,
                AmqpConnection::Start(connection_::Start { version_major: 0, version_minor: 9, server_properties: FieldTable::new(), mechanisms: "PLAIN".to_string(), locales: "en_US".to_string() }),
            );
        }
        while rest.len() >= 8 {
            let total = u32::from_be_bytes([rest[3], rest[4], rest[5], rest[6]]) as usize + 8;
            if rest.len() < total {
                break;
            }
            let (_, frame) = parse_frame(&rest[..total]).expect("client wrote a malformed frame");
            self.answer(&rest[..total], &frame);
            let ch = match &frame { AMQPFrame::Method(n, _) | AMQPFrame::Header(n, _, _) | AMQPFrame::Body(n, _) | AMQPFrame::Heartbeat(n) => *n, _ => 0 };
            {
                let mut c = (self.ctl.0).0.lock().unwrap();
                c.seen.push((ch, frame));
            }
            (self.ctl.0).1.notify_all();
            rest = &rest[total..];
        }
        self.pending = rest.to_vec();
        let r = self.now();
        self.readiness.set_readiness(r).unwrap();
        Ok(buf.len())
    }
    fn flush(&mut self) -> io::Result<()> {
        Ok(())
    }
}

impl Evented for LiveBroker {
    fn register(&self, poll: &Poll, token: Token, interest: Ready, opts: PollOpt) -> io::Result<()> {
        self.registration.register(poll, token, interest, opts)
    }
    fn reregister(&self, poll: &Poll, token: Token, interest: Ready, opts: PollOpt) -> io::Result<()> {
        let r = self.registration.reregister(poll, token, interest, opts);
        let c = (self.ctl.0).0.lock().unwrap();
        let w = if c.budget == Some(0) { Ready::empty() } else { Ready::writable() };
        let ready = if self.inbox.is_empty() && c.inject.is_empty() && !c.eof { w } else { Ready::readable() | w };
        self.readiness.set_readiness(ready).unwrap();
        r
    }
    fn deregister(&self, poll: &Poll) -> io::Result<()> {
        Evented::deregister(&self.registration, poll)
    }
}

impl IoStream for LiveBroker {}
