//@host src/lib.rs
//@quick (no sleeps order the events, every wait has a deadline; the assertions are C10's own text: a free id requested while the connection is throttled yields a channel with exactly that id; runs in the quick tier, labelled bounded)
// C10 bounded scenario (from the independent demonstration of seeded change C10-l): open_channel(Some(id)) / open_channel(None) while the I/O thread
// is throttled by back-pressure (real Connection on a loopback socket, scripted broker, gated IoStream), then the throttle ends.
//! Demonstration for property C10 (channel ids): `Connection::open_channel(None)` has to yield an
//! id that is not currently open whenever one exists - also when the call happens to be made
//! while the I/O thread is throttled, i.e. while it holds more than `buffered_writes_high_water`
//! bytes it could not write yet and therefore polls no channel but channel 0.
//!
//! Everything here drives the real code: a `Connection` is opened on a loopback TCP socket, the
//! other end of which is served by a scripted broker thread (handshake, Channel.OpenOk,
//! Channel.CloseOk, Connection.CloseOk). The client's end of the socket is wrapped in a stream
//! whose `write` can be made to report `WouldBlock` ("the peer does not read"), which is the only
//! way to keep data sitting in the I/O thread's write buffer for as long as the test needs.
//!
//! No sleeps are used to order events:
//!  * "the I/O thread is throttled" is derived from the write attempts the stream sees (see
//!    `Gate::wait_until_throttled`),
//!  * "the I/O thread has answered the allocation request" is derived from the `debug!` line that
//!    `Channel0Handle::open_channel` logs on the caller's thread right after the answer arrived
//!    (see `Spy`).
//! Every wait has a deadline, so a broken library makes the tests fail, not hang.

use crate::frame_buffer::FrameBuffer;
use crate::serialize::OutputBuffer;
use crate::{Auth, Connection, ConnectionOptions, ConnectionTuning, FieldTable, IoStream, Publish};
use amq_protocol::frame::AMQPFrame;
use amq_protocol::protocol::channel::AMQPMethod as AmqpChannel;
use amq_protocol::protocol::channel::CloseOk as ChannelCloseOk;
use amq_protocol::protocol::channel::OpenOk as ChannelOpenOk;
use amq_protocol::protocol::connection::AMQPMethod as AmqpConnection;
use amq_protocol::protocol::connection::CloseOk as ConnectionCloseOk;
use amq_protocol::protocol::connection::OpenOk as ConnectionOpenOk;
use amq_protocol::protocol::connection::{Start, Tune};
use amq_protocol::protocol::AMQPClass;
use crossbeam_channel::{Receiver, Sender};
use mio::net::TcpStream;
use mio::{Evented, Poll, PollOpt, Ready, Token};
use std::cell::RefCell;
use std::io::{self, Read, Write};
use std::net::{TcpListener, TcpStream as StdTcpStream};
use std::sync::atomic::{AtomicBool, AtomicUsize, Ordering};
use std::sync::{Arc, Mutex, Once};
use std::thread;
use std::time::{Duration, Instant};

const HIGH_WATER: usize = 256;
const DEADLINE: Duration = Duration::from_secs(20);

// ---------------------------------------------------------------------------------------------
// the client's end of the socket, with a gate on `write`
// ---------------------------------------------------------------------------------------------

struct Gate {
    closed: AtomicBool,
    // write attempts refused while the I/O thread had more than HIGH_WATER bytes to write
    refused_above_high_water: AtomicUsize,
}

impl Gate {
    fn close(&self) {
        self.refused_above_high_water.store(0, Ordering::SeqCst);
        self.closed.store(true, Ordering::SeqCst);
    }

    fn open(&self) {
        self.closed.store(false, Ordering::SeqCst);
    }

    // The I/O thread makes at most one write attempt per batch of poll events, and it compares
    // the size of its write buffer with the high-water mark at the end of every batch. The
    // buffer only shrinks through successful writes, so: once a refused attempt has seen more
    // than HIGH_WATER bytes, the end of that batch (at the latest) stops the polling of the
    // non-0 channels, and any later attempt belongs to a later batch. Three attempts leave a
    // margin of one batch.
    fn wait_until_throttled(&self) -> Result<(), String> {
        let start = Instant::now();
        while self.refused_above_high_water.load(Ordering::SeqCst) < 3 {
            if start.elapsed() > DEADLINE {
                return Err("the I/O thread never tried to write more than HIGH_WATER bytes".into());
            }
            thread::yield_now();
        }
        Ok(())
    }
}

struct GatedStream {
    tcp: TcpStream,
    gate: Arc<Gate>,
}

impl Read for GatedStream {
    fn read(&mut self, buf: &mut [u8]) -> io::Result<usize> {
        self.tcp.read(buf)
    }
}

impl Write for GatedStream {
    fn write(&mut self, buf: &[u8]) -> io::Result<usize> {
        if self.gate.closed.load(Ordering::SeqCst) {
            if buf.len() > HIGH_WATER {
                self.gate.refused_above_high_water.fetch_add(1, Ordering::SeqCst);
            }
            return Err(io::ErrorKind::WouldBlock.into());
        }
        self.tcp.write(buf)
    }

    fn flush(&mut self) -> io::Result<()> {
        self.tcp.flush()
    }
}

impl Evented for GatedStream {
    fn register(&self, poll: &Poll, token: Token, interest: Ready, opts: PollOpt) -> io::Result<()> {
        self.tcp.register(poll, token, interest, opts)
    }

    fn reregister(
        &self,
        poll: &Poll,
        token: Token,
        interest: Ready,
        opts: PollOpt,
    ) -> io::Result<()> {
        self.tcp.reregister(poll, token, interest, opts)
    }

    fn deregister(&self, poll: &Poll) -> io::Result<()> {
        self.tcp.deregister(poll)
    }
}

impl IoStream for GatedStream {}

// ---------------------------------------------------------------------------------------------
// scripted broker
// ---------------------------------------------------------------------------------------------

fn reply<M: crate::serialize::IntoAmqpClass>(stream: &mut StdTcpStream, channel_id: u16, method: M) {
    let mut buf = OutputBuffer::empty();
    buf.push_method(channel_id, method);
    // the client may be gone already when a test is over; nothing to report then
    let _ = stream.write_all(&buf[0..]);
}

// Serves one connection; records the channel ids of the Channel.Open frames it answers.
fn broker(listener: TcpListener, opened: Arc<Mutex<Vec<u16>>>) {
    let (mut rd, _) = match listener.accept() {
        Ok(conn) => conn,
        Err(_) => return,
    };
    let mut wr = match rd.try_clone() {
        Ok(wr) => wr,
        Err(_) => return,
    };
    let mut header = [0u8; 8];
    if rd.read_exact(&mut header).is_err() || &header != b"AMQP\x00\x00\x09\x01" {
        return;
    }
    reply(
        &mut wr,
        0,
        AmqpConnection::Start(Start {
            version_major: 0,
            version_minor: 9,
            server_properties: FieldTable::new(),
            mechanisms: "PLAIN".to_string(),
            locales: "en_US".to_string(),
        }),
    );
    let mut frames = FrameBuffer::new();
    // returns with an error when the client's socket is closed (or the process ends)
    let _ = frames.read_from(&mut rd, |frame| {
        match frame {
            AMQPFrame::Method(0, AMQPClass::Connection(AmqpConnection::StartOk(_))) => reply(
                &mut wr,
                0,
                AmqpConnection::Tune(Tune {
                    channel_max: 8,
                    frame_max: 131_072,
                    heartbeat: 0,
                }),
            ),
            AMQPFrame::Method(0, AMQPClass::Connection(AmqpConnection::Open(_))) => reply(
                &mut wr,
                0,
                AmqpConnection::OpenOk(ConnectionOpenOk {
                    known_hosts: String::new(),
                }),
            ),
            AMQPFrame::Method(0, AMQPClass::Connection(AmqpConnection::Close(_))) => {
                reply(&mut wr, 0, AmqpConnection::CloseOk(ConnectionCloseOk {}))
            }
            AMQPFrame::Method(n, AMQPClass::Channel(AmqpChannel::Open(_))) => {
                opened.lock().unwrap().push(n);
                reply(
                    &mut wr,
                    n,
                    AmqpChannel::OpenOk(ChannelOpenOk {
                        channel_id: String::new(),
                    }),
                )
            }
            AMQPFrame::Method(n, AMQPClass::Channel(AmqpChannel::Close(_))) => {
                reply(&mut wr, n, AmqpChannel::CloseOk(ChannelCloseOk {}))
            }
            // TuneOk, Basic.Publish and its content frames: nothing to answer
            _ => (),
        }
        Ok(())
    });
}

// ---------------------------------------------------------------------------------------------
// "the allocation request has been answered"
// ---------------------------------------------------------------------------------------------

thread_local! {
    static ALLOCATED: RefCell<Option<Sender<()>>> = RefCell::new(None);
}

// Channel0Handle::open_channel logs "opening channel <id>" at debug level, on the caller's
// thread, as soon as the I/O thread has answered the allocation request and before it sends
// Channel.Open. A thread that wants to be told puts a sender in ALLOCATED.
struct Spy;

impl log::Log for Spy {
    fn enabled(&self, metadata: &log::Metadata) -> bool {
        metadata.level() <= log::Level::Debug
    }

    fn log(&self, record: &log::Record) {
        if record.level() == log::Level::Debug
            && record.target().ends_with("channel_handle")
            && record.args().to_string().starts_with("opening channel")
        {
            ALLOCATED.with(|tx| {
                if let Some(tx) = &*tx.borrow() {
                    let _ = tx.send(());
                }
            });
        }
    }

    fn flush(&self) {}
}

static SPY: Spy = Spy;
static INSTALL_SPY: Once = Once::new();

fn install_spy() {
    INSTALL_SPY.call_once(|| {
        log::set_logger(&SPY).expect("no other logger is installed in the unit tests");
        log::set_max_level(log::LevelFilter::Debug);
    });
}

// ---------------------------------------------------------------------------------------------
// the scenario
// ---------------------------------------------------------------------------------------------

#[derive(Clone, Copy, PartialEq)]
enum Open {
    // nothing is buffered when the second channel is opened
    Idle,
    // more than HIGH_WATER bytes were stuck for a while, but have been written by the time the
    // second channel is opened
    AfterThrottling,
    // more than HIGH_WATER bytes are stuck when the second channel is opened, and get written
    // only after the I/O thread has answered the allocation request
    WhileThrottled,
}

struct Outcome {
    // what the second open_channel(None) returned: the id of the channel, or the error
    second: Result<u16, String>,
    // ids of the Channel.Open frames seen by the broker
    opened_at_broker: Vec<u16>,
}

fn run(mode: Open) -> Result<Outcome, String> {
    install_spy();

    let listener = TcpListener::bind("127.0.0.1:0").map_err(|e| e.to_string())?;
    let addr = listener.local_addr().map_err(|e| e.to_string())?;
    let opened = Arc::new(Mutex::new(Vec::new()));
    {
        let opened = Arc::clone(&opened);
        thread::spawn(move || broker(listener, opened));
    }

    let gate = Arc::new(Gate {
        closed: AtomicBool::new(false),
        refused_above_high_water: AtomicUsize::new(0),
    });
    let stream = GatedStream {
        tcp: TcpStream::connect(&addr).map_err(|e| e.to_string())?,
        gate: Arc::clone(&gate),
    };
    let tuning = ConnectionTuning::default()
        .buffered_writes_high_water(HIGH_WATER)
        .buffered_writes_low_water(0);
    let mut connection =
        Connection::insecure_open_stream(stream, ConnectionOptions::<Auth>::default(), tuning)
            .map_err(|e| format!("handshake: {}", e))?;

    let first = connection
        .open_channel(None)
        .map_err(|e| format!("first open_channel: {}", e))?;
    if first.channel_id() != 1 {
        return Err(format!("first channel got id {}", first.channel_id()));
    }

    if mode != Open::Idle {
        // "the broker stops reading": 4 KiB published on channel 1 stay in the write buffer
        gate.close();
        first
            .basic_publish("", Publish::new(&[0x55; 4096], "nowhere"))
            .map_err(|e| format!("publish: {}", e))?;
        gate.wait_until_throttled()?;
    }
    if mode == Open::AfterThrottling {
        // "the broker reads again": wait until the publish has gone through, i.e. until an
        // RPC on channel 1 (which the I/O thread only picks up after it resumed polling the
        // channels) has been answered.
        gate.open();
        let (done_tx, done_rx) = crossbeam_channel::bounded(1);
        let helper = thread::spawn(move || {
            let result = first.close();
            let _ = done_tx.send(result.map_err(|e| e.to_string()));
        });
        match done_rx.recv_timeout(DEADLINE) {
            Ok(Ok(())) => (),
            Ok(Err(err)) => return Err(format!("close of channel 1: {}", err)),
            Err(_) => return Err("close of channel 1 not answered".into()),
        }
        let _ = helper.join();
    } else {
        // closing a channel talks to the broker; not wanted here
        std::mem::forget(first);
    }

    // second open_channel(None), on a thread of its own so that a hang becomes a failure
    let (allocated_tx, allocated_rx): (Sender<()>, Receiver<()>) = crossbeam_channel::bounded(1);
    let (result_tx, result_rx) = crossbeam_channel::bounded(1);
    thread::spawn(move || {
        ALLOCATED.with(|tx| *tx.borrow_mut() = Some(allocated_tx));
        let result = connection.open_channel(None);
        let _ = result_tx.send(match &result {
            Ok(channel) => Ok(channel.channel_id()),
            Err(err) => Err(err.to_string()),
        });
        // neither close the channel nor the connection
        std::mem::forget(result);
        std::mem::forget(connection);
    });

    if mode == Open::WhileThrottled {
        // the I/O thread has created the slot and handed it over...
        allocated_rx
            .recv_timeout(DEADLINE)
            .map_err(|_| "allocation request not answered".to_string())?;
        // ... and only now "the broker reads again"
        gate.open();
    }

    let second = result_rx
        .recv_timeout(DEADLINE)
        .map_err(|_| "second open_channel(None) did not return".to_string())?;
    let opened_at_broker = opened.lock().unwrap().clone();
    Ok(Outcome {
        second,
        opened_at_broker,
    })
}

// control: passes with and without the change
#[test]
fn open_channel_on_an_idle_connection() {
    let outcome = run(Open::Idle).unwrap();
    assert_eq!(outcome.second, Ok(2));
    assert_eq!(outcome.opened_at_broker, vec![1, 2]);
}

// control: passes with and without the change (throttling as such is not the problem)
#[test]
fn open_channel_after_throttling_ended() {
    let outcome = run(Open::AfterThrottling).unwrap();
    // channel 1 was closed, 2 has never been used
    assert_eq!(outcome.second, Ok(2));
    assert_eq!(outcome.opened_at_broker, vec![1, 2]);
}

// C10: ids 2..=8 are not open, so open_channel(None) has to yield one of them
#[test]
fn open_channel_while_throttled() {
    let outcome = run(Open::WhileThrottled).unwrap();
    assert_eq!(outcome.second, Ok(2));
    assert_eq!(outcome.opened_at_broker, vec![1, 2]);
}
