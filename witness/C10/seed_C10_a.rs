//@host src/io_loop/mod.rs
// witness scenario from seeded change C10-a (independent sub-agent demonstration); passes on the unchanged tree
// Demonstration for property C10 (channel ids unique / in range / reusable / no I/O thread panic).
//
// Wire with (in src/io_loop/mod.rs, next to the other `mod` lines):
//     #[cfg(test)]
//     mod channel_slots_c10_demo;
//
// Drives ChannelSlots (the allocator the I/O thread consults in Inner::allocate_channel and
// releases in ConnectionState::process on Channel.Close / Channel.CloseOk) directly.

use super::channel_slots::ChannelSlots;
use crate::errors::*;
use std::collections::BTreeSet;

fn mk(id: u16) -> Result<(u16, u16)> {
    Ok((id, id))
}

fn open_ids(cs: &ChannelSlots<u16>) -> BTreeSet<u16> {
    cs.iter().map(|(id, _)| *id).collect()
}

/// open(Some(5)); close(5); open(Some(5)); then open(None) until the ids run out.
/// Every open(None) must either return a fresh in-range id or ExhaustedChannelIds - never panic.
#[test]
fn explicit_reopen_above_counter_then_exhaust() {
    const MAX: u16 = 5;
    let mut cs = ChannelSlots::new();
    cs.set_channel_max(MAX);

    // explicitly open an id the "never used" counter has not reached, close it, reopen it
    assert_eq!(cs.insert(Some(5), mk).unwrap(), 5);
    assert_eq!(cs.remove(5), Some(5));
    assert_eq!(cs.insert(Some(5), mk).unwrap(), 5);

    let mut open: BTreeSet<u16> = BTreeSet::new();
    open.insert(5);

    // four more automatic opens: must yield the four remaining ids, all distinct
    for _ in 0..4 {
        let id = cs.insert(None, mk).unwrap();
        assert!(id >= 1 && id <= MAX, "id {} out of range", id);
        assert!(open.insert(id), "id {} handed out twice", id);
        assert_eq!(open_ids(&cs), open);
    }
    assert_eq!(open.len(), usize::from(MAX));

    // everything is open now: the only acceptable answer is ExhaustedChannelIds
    match cs.insert(None, mk) {
        Err(Error::ExhaustedChannelIds) => (),
        Err(err) => panic!("unexpected error {}", err),
        Ok(id) => panic!("handed out id {} although all ids are open", id),
    }

    // and the allocator is still usable: closing one id makes exactly that id available again
    assert_eq!(cs.remove(2), Some(2));
    assert_eq!(cs.insert(None, mk).unwrap(), 2);
    assert_eq!(open_ids(&cs), open);
}

/// Same shape, but the stale entry is hidden behind a legitimately freed id, so the first
/// fallback allocation works and only the one after it goes wrong.
#[test]
fn explicit_reopen_above_counter_then_close_other_then_exhaust() {
    const MAX: u16 = 4;
    let mut cs = ChannelSlots::new();
    cs.set_channel_max(MAX);

    assert_eq!(cs.insert(Some(4), mk).unwrap(), 4);
    assert_eq!(cs.remove(4), Some(4));
    assert_eq!(cs.insert(Some(4), mk).unwrap(), 4);
    for expect in 1..=3 {
        assert_eq!(cs.insert(None, mk).unwrap(), expect);
    }
    // server closes channel 2; it must be reusable
    assert_eq!(cs.remove(2), Some(2));
    assert_eq!(cs.insert(None, mk).unwrap(), 2);
    // all of 1..=4 open again
    assert_eq!(open_ids(&cs), (1..=MAX).collect::<BTreeSet<u16>>());
    match cs.insert(None, mk) {
        Err(Error::ExhaustedChannelIds) => (),
        Err(err) => panic!("unexpected error {}", err),
        Ok(id) => panic!("handed out id {} although all ids are open", id),
    }
}
