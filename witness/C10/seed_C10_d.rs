//@host src/lib.rs
// witness scenario from seeded change C10-d (independent sub-agent demonstration); passes on the unchanged tree
//! Demonstration for seed C10d (property C10: channel ids).
//!
//! Drives the real `Connection` / I/O thread over a loopback TCP socket against a tiny scripted
//! broker that lives in this file. The broker performs the AMQP handshake with a chosen
//! `channel_max`, answers `Channel.Open` / `Channel.Close` / `Connection.Close`, and reports the
//! channel id of every `Channel.Open` frame it sees.
//!
//! * `control_*` passes with and without the seeded change.
//! * `explicit_id_zero_*` pass on the unmodified library and fail with the seeded change.
//!
//! Every test body runs under a watchdog so that a misbehaving library makes the test FAIL
//! rather than hang.

use crate::frame_buffer::FrameBuffer;
use crate::serialize::OutputBuffer;
use crate::{Auth, Channel, Connection, ConnectionOptions, ConnectionTuning, Error, FieldTable};
use amq_protocol::frame::AMQPFrame;
use amq_protocol::protocol::channel::AMQPMethod as AmqpChannel;
use amq_protocol::protocol::channel::{CloseOk as ChannelCloseOk, OpenOk as ChannelOpenOk};
use amq_protocol::protocol::connection::AMQPMethod as AmqpConnection;
use amq_protocol::protocol::connection::{CloseOk as ConnectionCloseOk, OpenOk, Start, Tune};
use amq_protocol::protocol::AMQPClass;
use std::io::{Read, Write};
use std::net::{SocketAddr, TcpListener, TcpStream};
use std::sync::mpsc;
use std::thread;
use std::time::Duration;

const WATCHDOG: Duration = Duration::from_secs(30);

/// Run `f` on its own thread; fail (instead of hanging) if it does not finish in time, and
/// propagate its panic if it panics.
fn with_watchdog<F: FnOnce() + Send + 'static>(f: F) {
    let (done_tx, done_rx) = mpsc::channel();
    let worker = thread::spawn(move || {
        f();
        let _ = done_tx.send(());
    });
    match done_rx.recv_timeout(WATCHDOG) {
        Ok(()) => worker.join().unwrap(),
        // sender dropped without sending: the body panicked
        Err(mpsc::RecvTimeoutError::Disconnected) => {
            if let Err(panic) = worker.join() {
                std::panic::resume_unwind(panic);
            }
        }
        Err(mpsc::RecvTimeoutError::Timeout) => panic!("watchdog: test body did not finish"),
    }
}

fn write_method(out: &mut TcpStream, channel_id: u16, class: AMQPClass) {
    struct Raw(AMQPClass);
    impl crate::serialize::IntoAmqpClass for Raw {
        fn into_class(self) -> AMQPClass {
            self.0
        }
    }
    let mut buf = OutputBuffer::empty();
    buf.push_method(channel_id, Raw(class));
    out.write_all(&buf[0..]).unwrap();
}

/// Scripted broker: one connection, handshake with the given channel_max, then answers opens and
/// closes until the client goes away. Sends the id of each Channel.Open it receives to `opened`.
fn spawn_broker(channel_max: u16) -> (SocketAddr, mpsc::Receiver<u16>) {
    let listener = TcpListener::bind("127.0.0.1:0").unwrap();
    let addr = listener.local_addr().unwrap();
    let (opened_tx, opened_rx) = mpsc::channel();
    thread::spawn(move || {
        let (mut sock, _) = listener.accept().unwrap();
        // never outlive the watchdog by much, whatever the client does
        sock.set_read_timeout(Some(WATCHDOG)).unwrap();
        let mut out = sock.try_clone().unwrap();

        let mut header = [0u8; 8];
        sock.read_exact(&mut header).unwrap();
        assert_eq!(&header, b"AMQP\x00\x00\x09\x01");
        write_method(
            &mut out,
            0,
            AMQPClass::Connection(AmqpConnection::Start(Start {
                version_major: 0,
                version_minor: 9,
                server_properties: FieldTable::new(),
                mechanisms: "PLAIN".to_string(),
                locales: "en_US".to_string(),
            })),
        );

        let mut frames = FrameBuffer::new();
        // returns when the client closes the socket (or the read timeout fires)
        let _ = frames.read_from(&mut sock, |frame| {
            match frame {
                AMQPFrame::Method(0, AMQPClass::Connection(AmqpConnection::StartOk(_))) => {
                    write_method(
                        &mut out,
                        0,
                        AMQPClass::Connection(AmqpConnection::Tune(Tune {
                            channel_max,
                            frame_max: 131_072,
                            heartbeat: 0,
                        })),
                    );
                }
                AMQPFrame::Method(0, AMQPClass::Connection(AmqpConnection::TuneOk(tune_ok))) => {
                    assert_eq!(tune_ok.channel_max, channel_max);
                }
                AMQPFrame::Method(0, AMQPClass::Connection(AmqpConnection::Open(_))) => {
                    write_method(
                        &mut out,
                        0,
                        AMQPClass::Connection(AmqpConnection::OpenOk(OpenOk {
                            known_hosts: String::new(),
                        })),
                    );
                }
                AMQPFrame::Method(0, AMQPClass::Connection(AmqpConnection::Close(_))) => {
                    write_method(
                        &mut out,
                        0,
                        AMQPClass::Connection(AmqpConnection::CloseOk(ConnectionCloseOk {})),
                    );
                }
                AMQPFrame::Method(n, AMQPClass::Channel(AmqpChannel::Open(_))) => {
                    let _ = opened_tx.send(n);
                    write_method(
                        &mut out,
                        n,
                        AMQPClass::Channel(AmqpChannel::OpenOk(ChannelOpenOk {
                            channel_id: String::new(),
                        })),
                    );
                }
                AMQPFrame::Method(n, AMQPClass::Channel(AmqpChannel::Close(_))) => {
                    write_method(
                        &mut out,
                        n,
                        AMQPClass::Channel(AmqpChannel::CloseOk(ChannelCloseOk {})),
                    );
                }
                other => panic!("scripted broker: unexpected frame {:?}", other),
            }
            Ok(())
        });
    });
    (addr, opened_rx)
}

fn connect(addr: SocketAddr) -> Connection {
    let stream = mio::net::TcpStream::connect(&addr).unwrap();
    Connection::insecure_open_stream(
        stream,
        ConnectionOptions::<Auth>::default(),
        ConnectionTuning::default(),
    )
    .unwrap()
}

fn expect_unavailable(res: Result<Channel, Error>, id: u16) {
    match res {
        Err(Error::UnavailableChannelId { channel_id }) if channel_id == id => (),
        Err(err) => panic!(
            "open_channel(Some({})): expected UnavailableChannelId({}), got error {:?}",
            id, id, err
        ),
        Ok(ch) => {
            let got = ch.channel_id();
            panic!(
                "open_channel(Some({})): expected UnavailableChannelId({}), got a channel with id {}",
                id, id, got
            )
        }
    }
}

fn opened_so_far(opened: &mpsc::Receiver<u16>) -> Vec<u16> {
    opened.try_iter().collect()
}

/// Control: explicit ids in and out of range, taken ids, automatic ids and reuse after close.
/// Independent of the seeded change.
#[test]
fn control_explicit_and_automatic_ids() {
    with_watchdog(|| {
        let (addr, opened) = spawn_broker(4);
        let mut conn = connect(addr);

        let c2 = conn.open_channel(Some(2)).unwrap();
        assert_eq!(c2.channel_id(), 2);
        expect_unavailable(conn.open_channel(Some(2)), 2);
        expect_unavailable(conn.open_channel(Some(5)), 5);

        let c1 = conn.open_channel(None).unwrap();
        assert_eq!(c1.channel_id(), 1);
        let c3 = conn.open_channel(None).unwrap();
        assert_eq!(c3.channel_id(), 3);
        let c4 = conn.open_channel(Some(4)).unwrap();
        assert_eq!(c4.channel_id(), 4);
        match conn.open_channel(None) {
            Err(Error::ExhaustedChannelIds) => (),
            other => panic!("expected ExhaustedChannelIds, got {:?}", other.map(|c| c.channel_id())),
        }

        c3.close().unwrap();
        let again = conn.open_channel(None).unwrap();
        assert_eq!(again.channel_id(), 3);

        assert_eq!(opened_so_far(&opened), vec![2, 1, 3, 4, 3]);

        for ch in vec![c1, c2, c4, again] {
            ch.close().unwrap();
        }
        conn.close().unwrap();
    });
}

/// open_channel(Some(0)) must be refused with UnavailableChannelId(0): no channel is handed out
/// and nothing is opened at the broker; the id an automatic open would have got is still there.
#[test]
fn explicit_id_zero_is_refused() {
    with_watchdog(|| {
        let (addr, opened) = spawn_broker(8);
        let mut conn = connect(addr);

        expect_unavailable(conn.open_channel(Some(0)), 0);
        assert_eq!(
            opened_so_far(&opened),
            Vec::<u16>::new(),
            "a refused open must not reach the broker"
        );

        // the refused request consumed nothing
        let c = conn.open_channel(None).unwrap();
        assert_eq!(c.channel_id(), 1);
        assert_eq!(opened_so_far(&opened), vec![1]);

        // and still refused with channels open
        expect_unavailable(conn.open_channel(Some(0)), 0);

        c.close().unwrap();
        conn.close().unwrap();
    });
}

/// With every id open, Some(0) is still "that id is unavailable", not "ids exhausted".
#[test]
fn explicit_id_zero_on_full_table_is_unavailable() {
    with_watchdog(|| {
        let (addr, opened) = spawn_broker(2);
        let mut conn = connect(addr);

        let a = conn.open_channel(None).unwrap();
        let b = conn.open_channel(None).unwrap();
        assert_eq!((a.channel_id(), b.channel_id()), (1, 2));

        expect_unavailable(conn.open_channel(Some(0)), 0);
        expect_unavailable(conn.open_channel(Some(1)), 1);
        assert_eq!(opened_so_far(&opened), vec![1, 2]);

        a.close().unwrap();
        b.close().unwrap();
        conn.close().unwrap();
    });
}
