//@host src/io_loop/mod.rs
//@quick (generic sweep without wall-clock dependence: also runs in the quick tier, labelled bounded)
// C10 bounded stand-in, end to end through the public API (real I/O thread, in-memory broker): random sequences of open_channel(Some(id))
// for id in 0..=max+2, open_channel(None) and Channel::close against a model, for channel_max in {1, 2, 5}.
// Oracle = the property: an explicit id is honoured exactly when it is in 1..=channel_max and not open (else UnavailableChannelId with that
// id - 0 included); an automatic id is some id in 1..=channel_max that is not open, or ExhaustedChannelIds exactly when all are open; a
// closed channel's id is available again; the Channel handed back carries the id that went out in Channel.Open.
// Bound: 3 tables x 400 operations (VERIF_SEED varies the sequence), plus the corners of the full id range (channel_max 65535 / 0 = no limit).
include!("/verif/witness/_common/live_broker.rs");
use crate::{Auth, Channel, Connection, ConnectionOptions, ConnectionTuning, Error};
use std::collections::BTreeMap;

fn lcg(s: &mut u64) -> u64 {
    *s = s.wrapping_mul(6364136223846793005).wrapping_add(1442695040888963407);
    *s >> 33
}

fn run(max: u16, seed: u64) {
    let ctl = Handle::new();
    (ctl.0).0.lock().unwrap().tune = Some(connection_::Tune { channel_max: max, frame_max: 131_072, heartbeat: 0 });
    let mut connection = Connection::insecure_open_stream(LiveBroker::new(ctl.clone()), ConnectionOptions::<Auth>::default().heartbeat(0), ConnectionTuning::default()).expect("handshake");
    let mut open: BTreeMap<u16, Channel> = BTreeMap::new();
    let mut s = seed;
    for step in 0..400 {
        let what = format!("channel_max={} seed={} step={}", max, seed, step);
        match lcg(&mut s) % 3 {
            0 => {
                let id = (lcg(&mut s) % (max as u64 + 3)) as u16;
                let legal = id >= 1 && id <= max && !open.contains_key(&id);
                ctl.take_seen();
                match connection.open_channel(Some(id)) {
                    Ok(ch) => {
                        assert!(legal, "{}: open_channel(Some({})) succeeded although the id is not available", what, id);
                        assert_eq!(ch.channel_id(), id, "{}", what);
                        let seen = ctl.take_seen();
                        assert!(seen.iter().any(|(n, f)| *n == id && matches!(f, AMQPFrame::Method(_, AMQPClass::Channel(AmqpChannel::Open(_))))), "{}: Channel.Open did not go out on {}", what, id);
                        open.insert(id, ch);
                    }
                    Err(Error::UnavailableChannelId { channel_id }) => {
                        assert!(!legal, "{}: open_channel(Some({})) refused although available", what, id);
                        assert_eq!(channel_id, id, "{}", what);
                    }
                    Err(e) => panic!("{}: open_channel(Some({})): unexpected error {}", what, id, e),
                }
            }
            1 => {
                ctl.take_seen();
                match connection.open_channel(None) {
                    Ok(ch) => {
                        let id = ch.channel_id();
                        assert!(id >= 1 && id <= max && !open.contains_key(&id), "{}: automatic id {} is out of range or already open", what, id);
                        let seen = ctl.take_seen();
                        assert!(seen.iter().any(|(n, f)| *n == id && matches!(f, AMQPFrame::Method(_, AMQPClass::Channel(AmqpChannel::Open(_))))), "{}: Channel.Open did not go out on {}", what, id);
                        open.insert(id, ch);
                    }
                    Err(Error::ExhaustedChannelIds) => assert_eq!(open.len(), max as usize, "{}: ExhaustedChannelIds although {} of {} ids are open", what, open.len(), max),
                    Err(e) => panic!("{}: open_channel(None): unexpected error {}", what, e),
                }
            }
            _ => {
                if !open.is_empty() {
                    let k = (lcg(&mut s) as usize) % open.len();
                    let id = *open.keys().nth(k).unwrap();
                    let ch = open.remove(&id).unwrap();
                    ch.close().unwrap_or_else(|e| panic!("{}: close of {}: {}", what, id, e));
                }
            }
        }
    }
    for (_, ch) in open {
        std::mem::forget(ch);
    }
    connection.close().unwrap();
}

// the full id range: negotiated channel_max 65535 (announced as 65535 or as 0 = no limit); the ids at the corners of the range and at byte
// boundaries are opened by number, used, closed and opened again; 0 is refused
fn run_full_range(server_max: u16) {
    let what = format!("server channel_max={}", server_max);
    let ctl = Handle::new();
    (ctl.0).0.lock().unwrap().tune = Some(connection_::Tune { channel_max: server_max, frame_max: 131_072, heartbeat: 0 });
    let mut connection = Connection::insecure_open_stream(LiveBroker::new(ctl.clone()), ConnectionOptions::<Auth>::default().heartbeat(0), ConnectionTuning::default()).expect("handshake");
    match connection.open_channel(Some(0)) {
        Err(Error::UnavailableChannelId { channel_id: 0 }) => {}
        other => panic!("{}: open_channel(Some(0)): {:?}", what, other.map(|c| c.channel_id()).map_err(|e| e.to_string())),
    }
    for round in 0..2 {
        let mut open = Vec::new();
        for &id in &[65535u16, 65534, 32768, 32767, 256, 255, 1] {
            let ch = connection.open_channel(Some(id)).unwrap_or_else(|e| panic!("{}: round {}: open_channel(Some({})): {}", what, round, id, e));
            assert_eq!(ch.channel_id(), id, "{}", what);
            ch.qos(0, 1, false).unwrap_or_else(|e| panic!("{}: round {}: channel {} unusable: {}", what, round, id, e));
            open.push(ch);
        }
        let auto = connection.open_channel(None).unwrap_or_else(|e| panic!("{}: open_channel(None): {}", what, e));
        assert!(![65535u16, 65534, 32768, 32767, 256, 255, 1].contains(&auto.channel_id()) && auto.channel_id() != 0, "{}: automatic id {} is open already", what, auto.channel_id());
        auto.qos(0, 1, false).unwrap_or_else(|e| panic!("{}: automatic channel {} unusable: {}", what, auto.channel_id(), e));
        auto.close().unwrap_or_else(|e| panic!("{}: close: {}", what, e));
        for ch in open {
            let id = ch.channel_id();
            ch.close().unwrap_or_else(|e| panic!("{}: round {}: closing channel {}: {}", what, round, id, e));
        }
    }
    connection.close().unwrap_or_else(|e| panic!("{}: closing the connection: {}", what, e));
}

#[test]
fn verif_sweep_c10_corners_of_the_full_id_range() {
    for &server_max in &[65535u16, 0] {
        with_watchdog(format!("full id range, server channel_max={}", server_max), 20, move || run_full_range(server_max));
    }
}

#[test]
fn verif_sweep_c10_ids_through_the_public_api() {
    let seed0: u64 = std::env::var("VERIF_SEED").ok().and_then(|v| v.parse().ok()).unwrap_or(1);
    for (k, max) in [1u16, 2, 5].iter().enumerate() {
        let (m, sd) = (*max, seed0.wrapping_add(k as u64 * 7919));
        with_watchdog(format!("channel_max={} seed={}", m, sd), 60, move || run(m, sd));
    }
}
