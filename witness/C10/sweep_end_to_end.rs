//@host src/io_loop/mod.rs
//@quick (generic sweep without wall-clock dependence: also runs in the quick tier, labelled bounded)
// C10 bounded stand-in, end to end through the public API (real I/O thread, in-memory broker): random sequences of open_channel(Some(id))
// for id in 0..=max+2, open_channel(None) and Channel::close against a model, for channel_max in {1, 2, 5}.
// Oracle = the property: an explicit id is honoured exactly when it is in 1..=channel_max and not open (else UnavailableChannelId with that
// id - 0 included); an automatic id is some id in 1..=channel_max that is not open, or ExhaustedChannelIds exactly when all are open; a
// closed channel's id is available again; the Channel handed back carries the id that went out in Channel.Open.
// Bound: 3 tables x 400 operations (VERIF_SEED varies the sequence).
include!("/verif/witness/_common/live_broker.rs");
use crate::{Auth, Channel, Connection, ConnectionOptions, ConnectionTuning, Error};
use std::collections::BTreeMap;

fn lcg(s: &mut u64) -> u64 {
    *s = s.wrapping_mul(6364136223846793005).wrapping_add(1442695040888963407);
    *s >> 33
}

fn run(max: u16, seed: u64) {
    let ctl = Handle::new();
    (ctl.0).0.lock().unwrap().tune = Some(connection_::Tune { channel_max: max, frame_max: 131_072, heartbeat: 0 });
    let mut connection = Connection::insecure_open_stream(LiveBroker::new(ctl.clone()), ConnectionOptions::<Auth>::default().heartbeat(0), ConnectionTuning::default()).expect("handshake");
    let mut open: BTreeMap<u16, Channel> = BTreeMap::new();
    let mut s = seed;
    for step in 0..400 {
        let what = format!("channel_max={} seed={} step={}", max, seed, step);
        match lcg(&mut s) % 3 {
            0 => {
                let id = (lcg(&mut s) % (max as u64 + 3)) as u16;
                let legal = id >= 1 && id <= max && !open.contains_key(&id);
                ctl.take_seen();
                match connection.open_channel(Some(id)) {
                    Ok(ch) => {
                        assert!(legal, "{}: open_channel(Some({})) succeeded although the id is not available", what, id);
                        assert_eq!(ch.channel_id(), id, "{}", what);
                        let seen = ctl.take_seen();
                        assert!(seen.iter().any(|(n, f)| *n == id && matches!(f, AMQPFrame::Method(_, AMQPClass::Channel(AmqpChannel::Open(_))))), "{}: Channel.Open did not go out on {}", what, id);
                        open.insert(id, ch);
                    }
                    Err(Error::UnavailableChannelId { channel_id }) => {
                        assert!(!legal, "{}: open_channel(Some({})) refused although available", what, id);
                        assert_eq!(channel_id, id, "{}", what);
                    }
                    Err(e) => panic!("{}: open_channel(Some({})): unexpected error {}", what, id, e),
                }
            }
            1 => {
                ctl.take_seen();
                match connection.open_channel(None) {
                    Ok(ch) => {
                        let id = ch.channel_id();
                        assert!(id >= 1 && id <= max && !open.contains_key(&id), "{}: automatic id {} is out of range or already open", what, id);
                        let seen = ctl.take_seen();
                        assert!(seen.iter().any(|(n, f)| *n == id && matches!(f, AMQPFrame::Method(_, AMQPClass::Channel(AmqpChannel::Open(_))))), "{}: Channel.Open did not go out on {}", what, id);
                        open.insert(id, ch);
                    }
                    Err(Error::ExhaustedChannelIds) => assert_eq!(open.len(), max as usize, "{}: ExhaustedChannelIds although {} of {} ids are open", what, open.len(), max),
                    Err(e) => panic!("{}: open_channel(None): unexpected error {}", what, e),
                }
            }
            _ => {
                if !open.is_empty() {
                    let k = (lcg(&mut s) as usize) % open.len();
                    let id = *open.keys().nth(k).unwrap();
                    let ch = open.remove(&id).unwrap();
                    ch.close().unwrap_or_else(|e| panic!("{}: close of {}: {}", what, id, e));
                }
            }
        }
    }
    for (_, ch) in open {
        std::mem::forget(ch);
    }
    connection.close().unwrap();
}

#[test]
fn verif_sweep_c10_ids_through_the_public_api() {
    let seed0: u64 = std::env::var("VERIF_SEED").ok().and_then(|v| v.parse().ok()).unwrap_or(1);
    for (k, max) in [1u16, 2, 5].iter().enumerate() {
        let (m, sd) = (*max, seed0.wrapping_add(k as u64 * 7919));
        with_watchdog(format!("channel_max={} seed={}", m, sd), 60, move || run(m, sd));
    }
}
