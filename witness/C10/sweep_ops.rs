//@host src/io_loop/channel_slots.rs
//@quick (generic sweep without wall-clock dependence: also runs in the quick tier, labelled bounded)
// C10 bounded stand-in: pseudo-random open(Some)/open(None)/close sequences against a reference model, for several channel_max.
// Bound: 4 tables x 6000 operations, ids 0..=max+2. A panic (unreachable!, overflow) fails the test as well.
use super::ChannelSlots;
use crate::errors::*;
use std::collections::BTreeSet;

fn lcg(s: &mut u64) -> u64 {
    *s = s.wrapping_mul(6364136223846793005).wrapping_add(1442695040888963407);
    *s >> 33
}

#[test]
fn verif_sweep_c10_random_operations_against_model() {
    let seed0: u64 = std::env::var("VERIF_SEED").ok().and_then(|v| v.parse().ok()).unwrap_or(1);
    for (k, max) in [1u16, 2, 3, 7].iter().enumerate() {
        let max = *max;
        let mut s = seed0.wrapping_add(k as u64 * 7919);
        let mut cs: ChannelSlots<u16> = ChannelSlots::new();
        cs.set_channel_max(max);
        let mut open: BTreeSet<u16> = BTreeSet::new();
        for step in 0..6000 {
            match lcg(&mut s) % 3 {
                0 => {
                    let id = (lcg(&mut s) % (max as u64 + 3)) as u16;
                    let legal = id >= 1 && id <= max && !open.contains(&id);
                    match cs.insert(Some(id), |i| Ok((i, i))) {
                        Ok(got) => {
                            assert!(legal, "max={} step={}: open(Some({})) succeeded although not available", max, step, id);
                            assert_eq!(got, id);
                            open.insert(id);
                        }
                        Err(Error::UnavailableChannelId { channel_id }) => {
                            assert!(!legal && channel_id == id, "max={} step={}: open(Some({})) refused although available", max, step, id);
                        }
                        Err(e) => panic!("max={} step={}: unexpected error {}", max, step, e),
                    }
                }
                1 => match cs.insert(None, |i| Ok((i, i))) {
                    Ok(id) => {
                        assert!(id >= 1 && id <= max, "max={} step={}: open(None) handed out id {}", max, step, id);
                        assert!(open.insert(id), "max={} step={}: open(None) handed out id {} which is already open", max, step, id);
                    }
                    Err(Error::ExhaustedChannelIds) => {
                        assert_eq!(open.len(), max as usize, "max={} step={}: ExhaustedChannelIds although an id is free", max, step);
                    }
                    Err(e) => panic!("max={} step={}: unexpected error {}", max, step, e),
                },
                _ => {
                    let id = (lcg(&mut s) % (max as u64 + 2)) as u16;
                    let was = open.remove(&id);
                    assert_eq!(cs.remove(id).is_some(), was, "max={} step={}: close({})", max, step, id);
                }
            }
            for id in 0..=max + 1 {
                assert_eq!(cs.get(id).is_some(), open.contains(&id));
            }
        }
    }
}
