//@host src/io_loop/channel_slots.rs
// F2 (C10): id 0 is the connection's own channel; an explicit request for it must fail with UnavailableChannelId.
use crate::errors::*;
use super::ChannelSlots;

#[test]
fn verif_demo_f2_explicit_zero_is_unavailable() {
    let mut cs: ChannelSlots<u16> = ChannelSlots::new();
    cs.set_channel_max(4);
    match cs.insert(Some(0), |id| Ok((id, ()))) {
        Err(Error::UnavailableChannelId { channel_id: 0 }) => (),
        Ok(()) => panic!("channel id 0 was handed out"),
        Err(e) => panic!("unexpected error {}", e),
    }
    assert!(cs.get(0).is_none());
}
