//@host src/lib.rs
// witness scenario from seeded change C10-e (independent sub-agent demonstration); passes on the unchanged tree
//! Demonstration for seed C10e: channel id 0 requested explicitly through the public API.
//!
//! A scripted, well-behaved broker runs on a loopback socket; the real `Connection`, handle layer
//! and I/O thread are driven through `Connection::open_channel`. Every blocking step of the client
//! runs under a watchdog, so a wrong behaviour fails the test instead of hanging it.

use crate::serialize::OutputBuffer;
use crate::{Auth, Channel, Connection, ConnectionOptions, ConnectionTuning, Error, FieldTable};
use amq_protocol::frame::{parse_frame, AMQPFrame};
use amq_protocol::protocol::channel::AMQPMethod as AmqpChannel;
use amq_protocol::protocol::channel::{CloseOk as ChannelCloseOk, OpenOk as ChannelOpenOk};
use amq_protocol::protocol::connection::AMQPMethod as AmqpConnection;
use amq_protocol::protocol::connection::{CloseOk, OpenOk, Start, Tune};
use amq_protocol::protocol::AMQPClass;
use std::io::{Read, Write};
use std::net::{TcpListener, TcpStream};
use std::sync::mpsc;
use std::sync::{Arc, Mutex};
use std::thread;
use std::time::Duration;

const WATCHDOG: Duration = Duration::from_secs(10);

/// What the broker saw: the channel id of every Channel.Open frame, in order.
type OpenLog = Arc<Mutex<Vec<u16>>>;

fn read_frame(stream: &mut TcpStream) -> Option<AMQPFrame> {
    let mut header = [0u8; 7];
    stream.read_exact(&mut header).ok()?;
    let size = u32::from_be_bytes([header[3], header[4], header[5], header[6]]) as usize;
    let mut buf = header.to_vec();
    buf.resize(7 + size + 1, 0);
    stream.read_exact(&mut buf[7..]).ok()?;
    match parse_frame(&buf) {
        Ok((rest, frame)) if rest.is_empty() => Some(frame),
        _ => None,
    }
}

fn write_method<M: crate::serialize::IntoAmqpClass>(stream: &mut TcpStream, channel: u16, m: M) {
    let mut buf = OutputBuffer::empty();
    buf.push_method(channel, m);
    let _ = stream.write_all(&buf[0..]);
}

/// A broker that follows the protocol to the letter: handshake with the given channel_max, then
/// Channel.Open -> OpenOk, Channel.Close -> CloseOk, Connection.Close -> CloseOk.
fn broker(mut stream: TcpStream, channel_max: u16, opens: OpenLog) {
    let _ = stream.set_read_timeout(Some(Duration::from_secs(30)));
    let mut protocol_header = [0u8; 8];
    if stream.read_exact(&mut protocol_header).is_err() {
        return;
    }
    write_method(
        &mut stream,
        0,
        AmqpConnection::Start(Start {
            version_major: 0,
            version_minor: 9,
            server_properties: FieldTable::new(),
            mechanisms: "PLAIN".to_string(),
            locales: "en_US".to_string(),
        }),
    );
    while let Some(frame) = read_frame(&mut stream) {
        match frame {
            AMQPFrame::Method(0, AMQPClass::Connection(AmqpConnection::StartOk(_))) => {
                write_method(
                    &mut stream,
                    0,
                    AmqpConnection::Tune(Tune {
                        channel_max,
                        frame_max: 131_072,
                        heartbeat: 0,
                    }),
                );
            }
            AMQPFrame::Method(0, AMQPClass::Connection(AmqpConnection::TuneOk(_))) => {}
            AMQPFrame::Method(0, AMQPClass::Connection(AmqpConnection::Open(_))) => {
                write_method(
                    &mut stream,
                    0,
                    AmqpConnection::OpenOk(OpenOk {
                        known_hosts: String::new(),
                    }),
                );
            }
            AMQPFrame::Method(0, AMQPClass::Connection(AmqpConnection::Close(_))) => {
                write_method(&mut stream, 0, AmqpConnection::CloseOk(CloseOk {}));
                return;
            }
            AMQPFrame::Method(n, AMQPClass::Channel(AmqpChannel::Open(_))) => {
                opens.lock().unwrap().push(n);
                write_method(
                    &mut stream,
                    n,
                    AmqpChannel::OpenOk(ChannelOpenOk {
                        channel_id: String::new(),
                    }),
                );
            }
            AMQPFrame::Method(n, AMQPClass::Channel(AmqpChannel::Close(_))) => {
                write_method(&mut stream, n, AmqpChannel::CloseOk(ChannelCloseOk {}));
            }
            _ => {}
        }
    }
}

/// Runs `f` on its own thread and fails (instead of hanging) if it does not finish in time.
fn watchdog<T: Send + 'static, F: FnOnce() -> T + Send + 'static>(what: &str, f: F) -> T {
    let (tx, rx) = mpsc::channel();
    thread::spawn(move || {
        let _ = tx.send(f());
    });
    match rx.recv_timeout(WATCHDOG) {
        Ok(v) => v,
        Err(_) => panic!("watchdog: {} did not finish", what),
    }
}

fn connect(channel_max: u16) -> (Connection, OpenLog) {
    let listener = TcpListener::bind("127.0.0.1:0").unwrap();
    let addr = listener.local_addr().unwrap();
    let opens: OpenLog = Arc::new(Mutex::new(Vec::new()));
    let broker_opens = Arc::clone(&opens);
    thread::spawn(move || {
        if let Ok((stream, _)) = listener.accept() {
            broker(stream, channel_max, broker_opens);
        }
    });
    let conn = watchdog("connect", move || {
        let stream = mio::net::TcpStream::connect(&addr).unwrap();
        Connection::insecure_open_stream(
            stream,
            ConnectionOptions::<Auth>::default(),
            ConnectionTuning::default(),
        )
        .unwrap()
    });
    (conn, opens)
}

/// open_channel under the watchdog; the connection travels into the worker thread and back.
fn open(conn: Connection, id: Option<u16>) -> (Connection, crate::Result<Channel>) {
    watchdog("open_channel", move || {
        let mut conn = conn;
        let res = conn.open_channel(id);
        (conn, res)
    })
}

fn finish(conn: Connection, channels: Vec<Channel>) {
    // Nothing of what is checked here depends on the shutdown; do not risk blocking in it.
    for ch in channels {
        std::mem::forget(ch);
    }
    std::mem::forget(conn);
}

fn assert_unavailable(res: &crate::Result<Channel>, want: u16) {
    match res {
        Err(Error::UnavailableChannelId { channel_id }) if *channel_id == want => {}
        Err(err) => panic!("expected UnavailableChannelId({}), got error {}", want, err),
        Ok(ch) => panic!(
            "expected UnavailableChannelId({}), got an open channel with id {}",
            want,
            ch.channel_id()
        ),
    }
}

/// Control: everything except id 0. Passes with and without the change.
#[test]
fn control_explicit_and_automatic_ids() {
    let (conn, opens) = connect(3);
    let (conn, a) = open(conn, Some(2));
    let a = a.unwrap();
    assert_eq!(a.channel_id(), 2);
    let (conn, b) = open(conn, None);
    let b = b.unwrap();
    assert_eq!(b.channel_id(), 1);
    let (conn, dup) = open(conn, Some(2));
    assert_unavailable(&dup, 2);
    let (conn, above) = open(conn, Some(4));
    assert_unavailable(&above, 4);
    let (conn, c) = open(conn, None);
    let c = c.unwrap();
    assert_eq!(c.channel_id(), 3);
    let (conn, full) = open(conn, None);
    match full {
        Err(Error::ExhaustedChannelIds) => {}
        Err(err) => panic!("expected ExhaustedChannelIds, got {}", err),
        Ok(ch) => panic!("expected ExhaustedChannelIds, got channel {}", ch.channel_id()),
    }
    assert_eq!(*opens.lock().unwrap(), vec![2, 1, 3]);
    finish(conn, vec![a, b, c]);
}

/// Id 0 on a fresh connection: must be refused, and nothing must be opened at the broker.
#[test]
fn id_zero_is_refused_on_a_fresh_connection() {
    let (conn, opens) = connect(8);
    let (conn, zero) = open(conn, Some(0));
    assert_unavailable(&zero, 0);
    // The refused request must not have consumed an id either: the next automatic id is 1.
    let (conn, first) = open(conn, None);
    let first = first.unwrap();
    assert_eq!(first.channel_id(), 1);
    assert_eq!(*opens.lock().unwrap(), vec![1]);
    let mut keep = vec![first];
    if let Ok(ch) = zero {
        keep.push(ch);
    }
    finish(conn, keep);
}

/// Id 0 while every id is open: the answer is still UnavailableChannelId(0), not
/// ExhaustedChannelIds (which is reserved for automatic allocation).
#[test]
fn id_zero_is_refused_when_all_ids_are_open() {
    let (conn, opens) = connect(2);
    let (conn, a) = open(conn, None);
    let (conn, b) = open(conn, None);
    let (a, b) = (a.unwrap(), b.unwrap());
    assert_eq!((a.channel_id(), b.channel_id()), (1, 2));
    let (conn, zero) = open(conn, Some(0));
    assert_unavailable(&zero, 0);
    assert_eq!(*opens.lock().unwrap(), vec![1, 2]);
    finish(conn, vec![a, b]);
}
