//@host src/lib.rs
// witness scenario from seeded change C10-i (independent sub-agent demonstration); passes on the unchanged tree
//! Demonstration for property C10 (channel ids): every id in 1..=channel_max can be opened,
//! used and reused - including the very last one when the negotiated channel_max is 65535.
//!
//! The tests drive the real client (Connection::insecure_open_stream, Connection::open_channel,
//! Channel::close, Connection::close) against a scripted broker on a loopback socket. The broker
//! performs the AMQP handshake with a chosen channel_max in Connection.Tune, records the channel
//! id of every Channel.Open frame it sees and answers Open / Close on whatever channel they
//! arrive.
//!
//! Every scenario runs in its own thread under a watchdog, so a broken library makes the tests
//! FAIL, not hang.

use crate::serialize::{IntoAmqpClass, OutputBuffer};
use crate::{Auth, Connection, ConnectionOptions, ConnectionTuning, Error};
use amq_protocol::frame::{parse_frame, AMQPFrame};
use amq_protocol::protocol::channel::AMQPMethod as AmqpChannel;
use amq_protocol::protocol::channel::CloseOk as ChannelCloseOk;
use amq_protocol::protocol::channel::OpenOk as ChannelOpenOk;
use amq_protocol::protocol::connection::AMQPMethod as AmqpConnection;
use amq_protocol::protocol::connection::{CloseOk, OpenOk, Start, Tune};
use amq_protocol::protocol::AMQPClass;
use amq_protocol::types::FieldTable;
use std::io::{Read, Write};
use std::net::{SocketAddr, TcpListener, TcpStream};
use std::sync::mpsc;
use std::sync::{Arc, Mutex};
use std::thread;
use std::time::Duration;

const WATCHDOG: Duration = Duration::from_secs(30);

/// Channel ids of the Channel.Open frames the broker has seen, in order of arrival.
type OpensSeen = Arc<Mutex<Vec<u16>>>;

struct BrokerConn {
    stream: TcpStream,
    buf: Vec<u8>,
}

impl BrokerConn {
    fn fill(&mut self) -> bool {
        let mut chunk = [0u8; 4096];
        match self.stream.read(&mut chunk) {
            Ok(0) | Err(_) => false,
            Ok(n) => {
                self.buf.extend_from_slice(&chunk[..n]);
                true
            }
        }
    }

    fn read_protocol_header(&mut self) -> bool {
        while self.buf.len() < 8 {
            if !self.fill() {
                return false;
            }
        }
        let ok = &self.buf[..8] == b"AMQP\x00\x00\x09\x01";
        self.buf.drain(..8);
        ok
    }

    /// Next frame from the client; None when the client is gone (or silent for too long).
    fn read_frame(&mut self) -> Option<AMQPFrame> {
        loop {
            if self.buf.len() >= 7 {
                let size = u32::from_be_bytes([self.buf[3], self.buf[4], self.buf[5], self.buf[6]])
                    as usize
                    + 8;
                if self.buf.len() >= size {
                    let frame = match parse_frame(&self.buf[..size]) {
                        Ok((_, frame)) => frame,
                        Err(_) => return None,
                    };
                    self.buf.drain(..size);
                    return Some(frame);
                }
            }
            if !self.fill() {
                return None;
            }
        }
    }

    fn send_method<M: IntoAmqpClass>(&mut self, channel_id: u16, method: M) -> bool {
        let mut out = OutputBuffer::empty();
        out.push_method(channel_id, method);
        self.stream.write_all(&out[0..]).is_ok()
    }
}

fn run_broker(stream: TcpStream, tune_channel_max: u16, opens: OpensSeen) {
    let _ = stream.set_nodelay(true);
    // never outlive a broken test run by much
    let _ = stream.set_read_timeout(Some(WATCHDOG));
    let mut conn = BrokerConn {
        stream,
        buf: Vec::new(),
    };
    if !conn.read_protocol_header() {
        return;
    }
    let start = Start {
        version_major: 0,
        version_minor: 9,
        server_properties: FieldTable::new(),
        mechanisms: "PLAIN".to_string(),
        locales: "en_US".to_string(),
    };
    conn.send_method(0, AmqpConnection::Start(start));

    while let Some(frame) = conn.read_frame() {
        match frame {
            AMQPFrame::Method(0, AMQPClass::Connection(AmqpConnection::StartOk(_))) => {
                let tune = Tune {
                    channel_max: tune_channel_max,
                    frame_max: 131_072,
                    heartbeat: 0,
                };
                conn.send_method(0, AmqpConnection::Tune(tune));
            }
            AMQPFrame::Method(0, AMQPClass::Connection(AmqpConnection::TuneOk(_))) => {}
            AMQPFrame::Method(0, AMQPClass::Connection(AmqpConnection::Open(_))) => {
                let open_ok = OpenOk {
                    known_hosts: String::new(),
                };
                conn.send_method(0, AmqpConnection::OpenOk(open_ok));
            }
            AMQPFrame::Method(0, AMQPClass::Connection(AmqpConnection::Close(_))) => {
                conn.send_method(0, AmqpConnection::CloseOk(CloseOk {}));
                return;
            }
            AMQPFrame::Method(n, AMQPClass::Channel(AmqpChannel::Open(_))) => {
                opens.lock().unwrap().push(n);
                let open_ok = ChannelOpenOk {
                    channel_id: String::new(),
                };
                conn.send_method(n, AmqpChannel::OpenOk(open_ok));
            }
            AMQPFrame::Method(n, AMQPClass::Channel(AmqpChannel::Close(_))) => {
                conn.send_method(n, AmqpChannel::CloseOk(ChannelCloseOk {}));
            }
            _ => {}
        }
    }
}

fn spawn_broker(tune_channel_max: u16) -> (SocketAddr, OpensSeen) {
    let listener = TcpListener::bind("127.0.0.1:0").unwrap();
    let addr = listener.local_addr().unwrap();
    let opens: OpensSeen = Arc::new(Mutex::new(Vec::new()));
    let opens_for_broker = Arc::clone(&opens);
    thread::Builder::new()
        .name("demo-broker".to_string())
        .spawn(move || {
            if let Ok((stream, _)) = listener.accept() {
                run_broker(stream, tune_channel_max, opens_for_broker);
            }
        })
        .unwrap();
    (addr, opens)
}

/// One step of a scenario.
#[derive(Debug, Clone, Copy)]
enum Op {
    Open(Option<u16>),
    /// Close the open channel with this id (Channel::close).
    Close(u16),
}

/// What a step produced, in a comparable form.
#[derive(Debug, PartialEq)]
enum Outcome {
    Opened(u16),
    Unavailable(u16),
    Exhausted,
    Closed,
    Failed(String),
}

struct Report {
    outcomes: Vec<Outcome>,
    connection_close: Result<(), String>,
    opens_seen_by_broker: Vec<u16>,
}

/// Runs `ops` on a fresh connection whose server proposes `tune_channel_max` and whose client
/// asks for `client_channel_max`, then closes the connection. Panics if that takes longer than
/// the watchdog allows.
fn run_scenario(tune_channel_max: u16, client_channel_max: u16, ops: Vec<Op>) -> Report {
    let (addr, opens) = spawn_broker(tune_channel_max);
    let (done_tx, done_rx) = mpsc::channel();

    thread::Builder::new()
        .name("demo-client".to_string())
        .spawn(move || {
            let stream = mio::net::TcpStream::connect(&addr).unwrap();
            let options = ConnectionOptions::<Auth>::default().channel_max(client_channel_max);
            let mut conn =
                Connection::insecure_open_stream(stream, options, ConnectionTuning::default())
                    .unwrap();
            let mut open_channels = Vec::new();
            let mut outcomes = Vec::new();
            for op in ops {
                let outcome = match op {
                    Op::Open(request) => match conn.open_channel(request) {
                        Ok(channel) => {
                            let id = channel.channel_id();
                            open_channels.push(channel);
                            Outcome::Opened(id)
                        }
                        Err(Error::UnavailableChannelId { channel_id }) => {
                            Outcome::Unavailable(channel_id)
                        }
                        Err(Error::ExhaustedChannelIds) => Outcome::Exhausted,
                        Err(err) => Outcome::Failed(err.to_string()),
                    },
                    Op::Close(id) => {
                        match open_channels.iter().position(|c| c.channel_id() == id) {
                            Some(pos) => match open_channels.remove(pos).close() {
                                Ok(()) => Outcome::Closed,
                                Err(err) => Outcome::Failed(err.to_string()),
                            },
                            None => Outcome::Failed(format!("channel {} is not open", id)),
                        }
                    }
                };
                outcomes.push(outcome);
            }
            // Channels still open go down with the connection; no need to talk to the broker
            // about each of them.
            for channel in open_channels {
                std::mem::forget(channel);
            }
            let connection_close = conn.close().map_err(|err| err.to_string());
            let _ = done_tx.send((outcomes, connection_close));
        })
        .unwrap();

    let (outcomes, connection_close) = done_rx
        .recv_timeout(WATCHDOG)
        .expect("scenario did not finish: client hung or panicked");
    let opens_seen_by_broker = opens.lock().unwrap().clone();
    Report {
        outcomes,
        connection_close,
        opens_seen_by_broker,
    }
}

// ---------------------------------------------------------------------------------------------
// control tests: pass with and without the change
// ---------------------------------------------------------------------------------------------

#[test]
fn control_small_channel_max_mixed_opens_and_closes() {
    use self::Op::*;
    let report = run_scenario(
        4,
        0,
        vec![
            Open(None),
            Open(Some(4)),
            Open(None),
            Open(Some(0)),
            Open(Some(5)),
            Open(Some(4)),
            Close(4),
            Open(Some(4)),
            Open(None),
            Open(None),
            Close(2),
            Open(None),
        ],
    );
    assert_eq!(
        report.outcomes,
        vec![
            Outcome::Opened(1),
            Outcome::Opened(4),
            Outcome::Opened(2),
            Outcome::Unavailable(0),
            Outcome::Unavailable(5),
            Outcome::Unavailable(4),
            Outcome::Closed,
            Outcome::Opened(4),
            Outcome::Opened(3),
            Outcome::Exhausted,
            Outcome::Closed,
            Outcome::Opened(2),
        ]
    );
    assert_eq!(report.opens_seen_by_broker, vec![1, 4, 2, 4, 3, 2]);
    assert_eq!(report.connection_close, Ok(()));
}

#[test]
fn control_ids_just_below_the_top_of_an_unlimited_connection() {
    use self::Op::*;
    // neither side limits the number of channels: channel_max is negotiated to 65535
    let report = run_scenario(
        0,
        0,
        vec![
            Open(Some(65534)),
            Open(Some(32768)),
            Open(None),
            Close(65534),
            Open(Some(65534)),
        ],
    );
    assert_eq!(
        report.outcomes,
        vec![
            Outcome::Opened(65534),
            Outcome::Opened(32768),
            Outcome::Opened(1),
            Outcome::Closed,
            Outcome::Opened(65534),
        ]
    );
    assert_eq!(report.opens_seen_by_broker, vec![65534, 32768, 1, 65534]);
    assert_eq!(report.connection_close, Ok(()));
}

#[test]
fn control_top_id_is_refused_when_channel_max_is_one_less() {
    use self::Op::*;
    let report = run_scenario(0, 65534, vec![Open(Some(65535)), Open(Some(65534))]);
    assert_eq!(
        report.outcomes,
        vec![Outcome::Unavailable(65535), Outcome::Opened(65534)]
    );
    assert_eq!(report.opens_seen_by_broker, vec![65534]);
    assert_eq!(report.connection_close, Ok(()));
}

// ---------------------------------------------------------------------------------------------
// the property: id channel_max itself is a good id, also when channel_max is 65535
// ---------------------------------------------------------------------------------------------

#[test]
fn top_id_of_an_unlimited_connection_can_be_opened_closed_and_reopened() {
    use self::Op::*;
    let report = run_scenario(
        0,
        0,
        vec![
            Open(Some(65535)),
            Open(None),
            Close(65535),
            Open(Some(65535)),
        ],
    );
    assert_eq!(
        report.outcomes,
        vec![
            Outcome::Opened(65535),
            Outcome::Opened(1),
            Outcome::Closed,
            Outcome::Opened(65535),
        ]
    );
    assert_eq!(report.opens_seen_by_broker, vec![65535, 1, 65535]);
    assert_eq!(report.connection_close, Ok(()));
}

#[test]
fn top_id_when_the_server_names_65535_explicitly() {
    use self::Op::*;
    // same negotiated value, reached through an explicit 65535 from the server and an explicit
    // 65535 from the client; a few channels are already open when the top id is asked for
    let report = run_scenario(
        65535,
        65535,
        vec![Open(None), Open(None), Open(Some(65535)), Open(None)],
    );
    assert_eq!(
        report.outcomes,
        vec![
            Outcome::Opened(1),
            Outcome::Opened(2),
            Outcome::Opened(65535),
            Outcome::Opened(3),
        ]
    );
    assert_eq!(report.opens_seen_by_broker, vec![1, 2, 65535, 3]);
    assert_eq!(report.connection_close, Ok(()));
}
