//@host src/io_loop/mod.rs
// witness scenario from seeded change C10-c (independent sub-agent demonstration); passes on the unchanged tree
//! Demonstration for property C10 (channel ids: unique among open channels, within
//! 1..=channel_max, reusable).
//!
//! Drives the real `ChannelSlots` table (the structure the I/O thread uses to hand out channel
//! ids) through sequences of open(Some(id)) / open(None) / close and compares every answer with
//! the obvious reference model: a set of open ids.

use super::channel_slots::ChannelSlots;
use crate::errors::*;
use std::collections::BTreeSet;
use std::panic::{catch_unwind, AssertUnwindSafe};

#[derive(Clone, Copy, Debug, PartialEq, Eq)]
enum Op {
    Open(Option<u16>),
    Close(u16),
}

struct Checked {
    channel_max: u16,
    real: ChannelSlots<u16>,
    open: BTreeSet<u16>,
}

impl Checked {
    fn new(channel_max: u16) -> Checked {
        let mut real = ChannelSlots::new();
        real.set_channel_max(channel_max);
        Checked {
            channel_max,
            real,
            open: BTreeSet::new(),
        }
    }

    /// Applies one operation to the real table and checks the answer against the statement of the
    /// property. Returns a description of the first deviation.
    fn apply(&mut self, op: Op) -> std::result::Result<(), String> {
        match op {
            Op::Open(Some(want)) => {
                let res = self.real.insert(Some(want), |id| Ok((id, id)));
                let available = want >= 1 && want <= self.channel_max && !self.open.contains(&want);
                match res {
                    Ok(got) if available && got == want => {
                        self.open.insert(got);
                    }
                    Err(Error::UnavailableChannelId { channel_id })
                        if !available && channel_id == want => {}
                    other => {
                        return Err(format!(
                            "open(Some({})) with open ids {:?} answered {:?}",
                            want, self.open, other
                        ));
                    }
                }
            }
            Op::Open(None) => {
                let res = self.real.insert(None, |id| Ok((id, id)));
                let all_open = self.open.len() == usize::from(self.channel_max);
                match res {
                    Ok(got)
                        if got >= 1 && got <= self.channel_max && !self.open.contains(&got) =>
                    {
                        self.open.insert(got);
                    }
                    Err(Error::ExhaustedChannelIds) if all_open => {}
                    other => {
                        return Err(format!(
                            "open(None) with open ids {:?} of 1..={} answered {:?}",
                            self.open, self.channel_max, other
                        ));
                    }
                }
            }
            Op::Close(id) => {
                let was_open = self.open.remove(&id);
                let removed = self.real.remove(id);
                if removed.is_some() != was_open {
                    return Err(format!("close({}) answered {:?}", id, removed));
                }
            }
        }
        // the table and the model agree on what is open
        let mut real_open: Vec<u16> = self.real.iter().map(|(id, _)| *id).collect();
        real_open.sort_unstable();
        let model_open: Vec<u16> = self.open.iter().cloned().collect();
        if real_open != model_open {
            return Err(format!(
                "table holds {:?}, expected {:?}",
                real_open, model_open
            ));
        }
        Ok(())
    }
}

/// Runs a whole sequence; a panic inside the table (which in the library would be a panic of the
/// I/O thread) is reported as a deviation as well.
fn run(channel_max: u16, ops: &[Op]) -> std::result::Result<(), String> {
    let outcome = catch_unwind(AssertUnwindSafe(|| {
        let mut checked = Checked::new(channel_max);
        for (i, op) in ops.iter().enumerate() {
            checked
                .apply(*op)
                .map_err(|e| format!("step {} of {:?}: {}", i, ops, e))?;
        }
        Ok(())
    }));
    match outcome {
        Ok(res) => res,
        Err(_) => Err(format!(
            "channel_max {}: the table panicked during {:?}",
            channel_max, ops
        )),
    }
}

// ---------------------------------------------------------------------------------------------
// controls: pass with and without the change
// ---------------------------------------------------------------------------------------------

#[test]
fn control_fill_close_reuse() {
    use Op::*;
    run(
        3,
        &[
            Open(None),
            Open(None),
            Open(None),
            Open(None), // exhausted
            Close(2),
            Open(None), // 2 again
            Open(Some(2)), // unavailable
            Open(Some(0)), // unavailable
            Open(Some(4)), // unavailable
            Close(1),
            Close(3),
            Open(Some(3)),
            Open(None), // 1
            Open(None), // exhausted
        ],
    )
    .unwrap();
}

#[test]
fn control_explicit_id_ahead_of_counter_freed_then_automatic() {
    // an explicitly requested id well ahead of the counter, closed again before automatic
    // allocation reaches it, then more automatic opens than channel_max
    use Op::*;
    run(
        3,
        &[
            Open(Some(3)),
            Close(3),
            Open(None), // 1
            Open(None), // 2
            Open(None), // 3
            Open(None), // exhausted
            Close(3),
            Open(None), // 3
            Open(None), // exhausted
        ],
    )
    .unwrap();
}

// ---------------------------------------------------------------------------------------------
// the demonstration: pass on the unmodified library, fail with the change
// ---------------------------------------------------------------------------------------------

#[test]
fn explicit_id_at_the_counter_closed_then_all_ids_taken() {
    // Fresh connection, channel_max 2: channel 1 is opened by number and closed again; then three
    // automatic opens. The third has to fail with ExhaustedChannelIds.
    use Op::*;
    run(
        2,
        &[
            Open(Some(1)),
            Close(1),
            Open(None), // 1
            Open(None), // 2
            Open(None), // exhausted
        ],
    )
    .unwrap();
}

#[test]
fn explicit_id_at_the_counter_closed_then_reuse_of_another_free_id() {
    // channel_max 3: automatic open (1) and close; explicit open of the id the counter stands on
    // (2) and close; automatic opens take 2 and 3; the next one has to come back with 1, the only
    // free id.
    use Op::*;
    run(
        3,
        &[
            Open(None), // 1
            Close(1),
            Open(Some(2)),
            Close(2),
            Open(None), // 2
            Open(None), // 3
            Open(None), // 1
            Open(None), // exhausted
        ],
    )
    .unwrap();
}

#[test]
fn all_short_sequences_agree_with_the_model() {
    // every sequence of up to 6 operations for channel_max 1..=3
    for channel_max in 1..=3u16 {
        let mut alphabet = vec![Op::Open(None)];
        for id in 0..=channel_max + 1 {
            alphabet.push(Op::Open(Some(id)));
        }
        for id in 1..=channel_max {
            alphabet.push(Op::Close(id));
        }
        let len = if channel_max == 3 { 5 } else { 6 };
        let mut idx = vec![0usize; len];
        'sequences: loop {
            let ops: Vec<Op> = idx.iter().map(|i| alphabet[*i]).collect();
            if let Err(e) = run(channel_max, &ops) {
                panic!("{}", e);
            }
            // next sequence
            for pos in (0..len).rev() {
                idx[pos] += 1;
                if idx[pos] < alphabet.len() {
                    continue 'sequences;
                }
                idx[pos] = 0;
            }
            break;
        }
    }
}
