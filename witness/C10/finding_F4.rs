//@host src/io_loop/channel_slots.rs
// F4 (C10): an id that sits in the freed set is handed out by the never-used counter (or re-opened explicitly)
// and stays in the freed set; the next allocation pops it, finds it occupied and hits unreachable!().
use crate::errors::*;
use super::ChannelSlots;

#[test]
fn verif_demo_f4_freed_id_reused_by_counter() {
    let mut cs: ChannelSlots<u16> = ChannelSlots::new();
    cs.set_channel_max(4);
    for i in 1..=4 {
        cs.insert(Some(i), |id| Ok((id, ()))).unwrap();
    }
    assert!(cs.remove(2).is_some());
    cs.insert(None, |id| Ok((id, ()))).unwrap();       // counter walks 1,2: 2 is vacant -> handed out, still "freed"
    assert!(cs.get(2).is_some());
    match cs.insert(None, |id| Ok((id, ()))) {         // pops 2 from the freed set: occupied -> unreachable!()
        Err(Error::ExhaustedChannelIds) => (),
        Ok(()) => panic!("an id was handed out although all are open"),
        Err(e) => panic!("unexpected error {}", e),
    }
}

#[test]
fn verif_demo_f4_freed_id_reopened_explicitly() {
    let mut cs: ChannelSlots<u16> = ChannelSlots::new();
    cs.set_channel_max(2);
    cs.insert(Some(1), |id| Ok((id, ()))).unwrap();
    cs.insert(Some(2), |id| Ok((id, ()))).unwrap();
    assert!(cs.remove(2).is_some());
    cs.insert(Some(2), |id| Ok((id, ()))).unwrap();    // explicit re-open of a freed id
    match cs.insert(None, |id| Ok((id, ()))) {
        Err(Error::ExhaustedChannelIds) => (),
        Ok(()) => panic!("an id was handed out although all are open"),
        Err(e) => panic!("unexpected error {}", e),
    }
}
