//@host src/lib.rs
// witness scenario from seeded change C10-f (independent sub-agent demonstration); passes on the unchanged tree
//! End-to-end checks of channel id allocation through the public API
//! (`Connection::open_channel` / `Channel::channel_id` / `Channel::close`), against a scripted
//! in-process broker on a loopback socket. The broker answers the AMQP handshake, Channel.Open,
//! Channel.Close and Connection.Close and records the channel ids it sees on the wire.
//!
//! The interesting scenario is the very top of the id range: with a negotiated channel_max of
//! 65535 the id 65535 is a perfectly legal channel id, and `open_channel(Some(65535))` has to
//! return a channel with that id (and the id has to be reusable after a close).
//!
//! Every call that talks to the I/O thread runs under a watchdog, so that a call that never
//! returns makes the test FAIL instead of hanging the test run.

use crate::serialize::OutputBuffer;
use crate::{Auth, Channel, Connection, ConnectionOptions, ConnectionTuning, Error};
use amq_protocol::frame::{parse_frame, AMQPFrame};
use amq_protocol::protocol::channel::AMQPMethod as AmqpChannel;
use amq_protocol::protocol::channel::CloseOk as ChannelCloseOk;
use amq_protocol::protocol::channel::OpenOk as ChannelOpenOk;
use amq_protocol::protocol::connection::AMQPMethod as AmqpConnection;
use amq_protocol::protocol::connection::CloseOk as ConnectionCloseOk;
use amq_protocol::protocol::connection::OpenOk as ConnectionOpenOk;
use amq_protocol::protocol::connection::{Start, Tune};
use amq_protocol::protocol::AMQPClass;
use amq_protocol::types::FieldTable;
use std::io::{Read, Write};
use std::net::{TcpListener, TcpStream};
use std::sync::mpsc;
use std::thread;
use std::time::Duration;

const WATCHDOG: Duration = Duration::from_secs(10);

#[derive(Debug, PartialEq, Clone)]
enum Seen {
    TuneOk(u16),
    ChannelOpen(u16),
    ChannelClose(u16),
    ConnectionClose,
}

fn read_frame(stream: &mut TcpStream) -> Option<AMQPFrame> {
    let mut buf = vec![0u8; 7];
    stream.read_exact(&mut buf).ok()?;
    let size = u32::from_be_bytes([buf[3], buf[4], buf[5], buf[6]]) as usize;
    buf.resize(7 + size + 1, 0);
    stream.read_exact(&mut buf[7..]).ok()?;
    match parse_frame(&buf) {
        Ok((rest, frame)) if rest.is_empty() => Some(frame),
        _ => panic!("broker: malformed frame from client"),
    }
}

fn write_method<M: crate::serialize::IntoAmqpClass>(
    stream: &mut TcpStream,
    channel_id: u16,
    method: M,
) -> Option<()> {
    let mut buf = OutputBuffer::empty();
    buf.push_method(channel_id, method);
    stream.write_all(&buf[0..]).ok()
}

// The scripted broker. `tune_channel_max` is what it proposes in Connection.Tune (0 = no limit).
fn run_broker(listener: TcpListener, tune_channel_max: u16, seen: mpsc::Sender<Seen>) -> Option<()> {
    let (mut stream, _) = listener.accept().ok()?;
    // never linger much longer than the test that started us
    stream.set_read_timeout(Some(Duration::from_secs(30))).ok()?;
    stream.set_nodelay(true).ok()?;

    let mut header = [0u8; 8];
    stream.read_exact(&mut header).ok()?;
    assert_eq!(&header, b"AMQP\x00\x00\x09\x01");

    write_method(
        &mut stream,
        0,
        AmqpConnection::Start(Start {
            version_major: 0,
            version_minor: 9,
            server_properties: FieldTable::new(),
            mechanisms: "PLAIN".to_string(),
            locales: "en_US".to_string(),
        }),
    )?;
    match read_frame(&mut stream)? {
        AMQPFrame::Method(0, AMQPClass::Connection(AmqpConnection::StartOk(_))) => (),
        other => panic!("broker: expected StartOk, got {:?}", other),
    }
    write_method(
        &mut stream,
        0,
        AmqpConnection::Tune(Tune {
            channel_max: tune_channel_max,
            frame_max: 131_072,
            heartbeat: 0,
        }),
    )?;
    match read_frame(&mut stream)? {
        AMQPFrame::Method(0, AMQPClass::Connection(AmqpConnection::TuneOk(tune_ok))) => {
            let _ = seen.send(Seen::TuneOk(tune_ok.channel_max));
        }
        other => panic!("broker: expected TuneOk, got {:?}", other),
    }
    match read_frame(&mut stream)? {
        AMQPFrame::Method(0, AMQPClass::Connection(AmqpConnection::Open(_))) => (),
        other => panic!("broker: expected Open, got {:?}", other),
    }
    write_method(
        &mut stream,
        0,
        AmqpConnection::OpenOk(ConnectionOpenOk {
            known_hosts: String::new(),
        }),
    )?;

    loop {
        match read_frame(&mut stream)? {
            AMQPFrame::Method(n, AMQPClass::Channel(AmqpChannel::Open(_))) => {
                let _ = seen.send(Seen::ChannelOpen(n));
                write_method(
                    &mut stream,
                    n,
                    AmqpChannel::OpenOk(ChannelOpenOk {
                        channel_id: String::new(),
                    }),
                )?;
            }
            AMQPFrame::Method(n, AMQPClass::Channel(AmqpChannel::Close(_))) => {
                let _ = seen.send(Seen::ChannelClose(n));
                write_method(&mut stream, n, AmqpChannel::CloseOk(ChannelCloseOk {}))?;
            }
            AMQPFrame::Method(0, AMQPClass::Connection(AmqpConnection::Close(_))) => {
                let _ = seen.send(Seen::ConnectionClose);
                write_method(&mut stream, 0, AmqpConnection::CloseOk(ConnectionCloseOk {}))?;
                return Some(());
            }
            AMQPFrame::Heartbeat(_) => (),
            other => panic!("broker: unexpected frame {:?}", other),
        }
    }
}

// Runs `f` on a helper thread and fails the calling test if it does not finish in time.
fn watchdog<T, F>(what: &str, f: F) -> T
where
    T: Send + 'static,
    F: FnOnce() -> T + Send + 'static,
{
    let (tx, rx) = mpsc::channel();
    thread::spawn(move || {
        let _ = tx.send(f());
    });
    match rx.recv_timeout(WATCHDOG) {
        Ok(value) => value,
        Err(mpsc::RecvTimeoutError::Timeout) => {
            panic!("{} did not return within {:?}", what, WATCHDOG)
        }
        Err(mpsc::RecvTimeoutError::Disconnected) => panic!("{} panicked", what),
    }
}

struct Session {
    conn: Option<Connection>,
    seen: mpsc::Receiver<Seen>,
}

impl Session {
    // `tune_channel_max` is the broker's proposal, `client_channel_max` our own option; the
    // negotiated value is the smaller of the two, with 0 meaning "no limit" (65535).
    fn start(tune_channel_max: u16, client_channel_max: u16) -> Session {
        let listener = TcpListener::bind("127.0.0.1:0").unwrap();
        let addr = listener.local_addr().unwrap();
        let (seen_tx, seen_rx) = mpsc::channel();
        thread::spawn(move || {
            let _ = run_broker(listener, tune_channel_max, seen_tx);
        });
        let conn = watchdog("Connection::insecure_open_stream", move || {
            let stream = mio::net::TcpStream::connect(&addr).unwrap();
            let options = ConnectionOptions::<Auth>::default().channel_max(client_channel_max);
            Connection::insecure_open_stream(stream, options, ConnectionTuning::default())
        })
        .unwrap();
        Session {
            conn: Some(conn),
            seen: seen_rx,
        }
    }

    fn next_seen(&self) -> Seen {
        self.seen
            .recv_timeout(WATCHDOG)
            .expect("broker did not see the expected frame")
    }

    fn open(&mut self, channel_id: Option<u16>) -> crate::Result<Channel> {
        let mut conn = self.conn.take().unwrap();
        let what = format!("open_channel({:?})", channel_id);
        let (conn, result) = watchdog(&what, move || {
            let result = conn.open_channel(channel_id);
            (conn, result)
        });
        self.conn = Some(conn);
        result
    }

    fn close_channel(&mut self, channel: Channel) {
        let what = format!("Channel::close of channel {}", channel.channel_id());
        watchdog(&what, move || channel.close()).unwrap();
    }

    fn finish(mut self) {
        let conn = self.conn.take().unwrap();
        watchdog("Connection::close", move || conn.close()).unwrap();
        assert_eq!(self.next_seen(), Seen::ConnectionClose);
    }
}

fn assert_unavailable(result: crate::Result<Channel>, id: u16) {
    match result {
        Err(Error::UnavailableChannelId { channel_id }) if channel_id == id => (),
        Err(err) => panic!("expected UnavailableChannelId({}), got error {}", id, err),
        Ok(channel) => panic!(
            "expected UnavailableChannelId({}), got channel {}",
            id,
            channel.channel_id()
        ),
    }
}

// CONTROL: ids below the top of the range behave, with the full id range negotiated.
#[test]
fn control_ids_below_the_top_open_close_and_are_reusable() {
    let mut s = Session::start(0, 0);
    assert_eq!(s.next_seen(), Seen::TuneOk(65535));

    let high = s.open(Some(65534)).unwrap();
    assert_eq!(high.channel_id(), 65534);
    assert_eq!(s.next_seen(), Seen::ChannelOpen(65534));

    let auto = s.open(None).unwrap();
    assert_eq!(auto.channel_id(), 1);
    assert_eq!(s.next_seen(), Seen::ChannelOpen(1));

    assert_unavailable(s.open(Some(0)), 0);
    assert_unavailable(s.open(Some(65534)), 65534);

    s.close_channel(high);
    assert_eq!(s.next_seen(), Seen::ChannelClose(65534));
    let high = s.open(Some(65534)).unwrap();
    assert_eq!(high.channel_id(), 65534);
    assert_eq!(s.next_seen(), Seen::ChannelOpen(65534));

    s.close_channel(high);
    s.close_channel(auto);
    assert_eq!(s.next_seen(), Seen::ChannelClose(65534));
    assert_eq!(s.next_seen(), Seen::ChannelClose(1));
    s.finish();
}

// CONTROL: the top id of a smaller negotiated range (here: the broker's limit wins).
#[test]
fn control_top_id_of_a_smaller_range() {
    let mut s = Session::start(2047, 0);
    assert_eq!(s.next_seen(), Seen::TuneOk(2047));

    let top = s.open(Some(2047)).unwrap();
    assert_eq!(top.channel_id(), 2047);
    assert_eq!(s.next_seen(), Seen::ChannelOpen(2047));
    assert_unavailable(s.open(Some(2048)), 2048);
    assert_unavailable(s.open(Some(65535)), 65535);

    s.close_channel(top);
    assert_eq!(s.next_seen(), Seen::ChannelClose(2047));
    s.finish();
}

// DEMONSTRATION: channel_max 65535 negotiated and id 65535 requested.
#[test]
fn top_id_of_the_full_range_opens_and_is_reusable() {
    let mut s = Session::start(0, 0);
    assert_eq!(s.next_seen(), Seen::TuneOk(65535));

    // something else is open as well, to show the connection itself is fine
    let other = s.open(None).unwrap();
    assert_eq!(other.channel_id(), 1);
    assert_eq!(s.next_seen(), Seen::ChannelOpen(1));

    let top = s.open(Some(65535)).unwrap();
    assert_eq!(top.channel_id(), 65535);
    assert_eq!(s.next_seen(), Seen::ChannelOpen(65535));

    // taken now ...
    assert_unavailable(s.open(Some(65535)), 65535);

    // ... and available again after the close
    s.close_channel(top);
    assert_eq!(s.next_seen(), Seen::ChannelClose(65535));
    let top = s.open(Some(65535)).unwrap();
    assert_eq!(top.channel_id(), 65535);
    assert_eq!(s.next_seen(), Seen::ChannelOpen(65535));

    s.close_channel(top);
    s.close_channel(other);
    assert_eq!(s.next_seen(), Seen::ChannelClose(65535));
    assert_eq!(s.next_seen(), Seen::ChannelClose(1));
    s.finish();
}

// DEMONSTRATION, same corner reached through the client's own option instead of the broker's:
// the broker proposes 65535 and the client asks for exactly as much.
#[test]
fn top_id_with_explicit_client_channel_max() {
    let mut s = Session::start(65535, 65535);
    assert_eq!(s.next_seen(), Seen::TuneOk(65535));

    let top = s.open(Some(65535)).unwrap();
    assert_eq!(top.channel_id(), 65535);
    assert_eq!(s.next_seen(), Seen::ChannelOpen(65535));

    s.close_channel(top);
    assert_eq!(s.next_seen(), Seen::ChannelClose(65535));
    s.finish();
}
