//@host src/io_loop/channel_slots.rs
// F3 (C10): with channel_max = 65535 the never-used counter overflows after the last id was handed out.
use crate::errors::*;
use super::ChannelSlots;

#[test]
fn verif_demo_f3_all_65535_ids_then_exhausted() {
    let mut cs: ChannelSlots<u16> = ChannelSlots::new();
    cs.set_channel_max(u16::max_value());
    for _ in 0..u16::max_value() {
        cs.insert(None, |id| Ok((id, ()))).unwrap();   // debug build: `attempt to add with overflow` on the last one
    }
    assert!(cs.get(0).is_none());
    assert!(cs.get(u16::max_value()).is_some());
    match cs.insert(None, |id| Ok((id, ()))) {         // release build: counter wrapped to 0 -> hands out id 0
        Err(Error::ExhaustedChannelIds) => (),
        Ok(()) => panic!("an id was handed out although all 65535 are open (id 0 open: {})", cs.get(0).is_some()),
        Err(e) => panic!("unexpected error {}", e),
    }
}
