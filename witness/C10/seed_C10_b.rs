//@host src/io_loop/mod.rs
// witness scenario from seeded change C10-b (independent sub-agent demonstration); passes on the unchanged tree
// Demonstration for seeded change C10b.
//
// Drives ChannelSlots (the allocator the I/O thread uses to serve open_channel requests)
// through sequences of open(Some(id)) / open(None) / close and checks every step against a
// trivial reference model: a set of currently-open ids.
//
// Wire with `#[cfg(test)] mod channel_slots_demo;` in src/io_loop/mod.rs.

use super::channel_slots::ChannelSlots;
use crate::errors::*;
use std::collections::BTreeSet;

fn entry(id: u16) -> Result<(u16, u16)> {
    Ok((id, id))
}

struct Checked {
    slots: ChannelSlots<u16>,
    open: BTreeSet<u16>,
    channel_max: u16,
}

impl Checked {
    fn new(channel_max: u16) -> Checked {
        let mut slots = ChannelSlots::new();
        slots.set_channel_max(channel_max);
        Checked {
            slots,
            open: BTreeSet::new(),
            channel_max,
        }
    }

    fn open_some(&mut self, id: u16) {
        let expect_ok = id >= 1 && id <= self.channel_max && !self.open.contains(&id);
        match self.slots.insert(Some(id), entry) {
            Ok(got) => {
                assert!(expect_ok, "open(Some({})) succeeded but id is unavailable", id);
                assert_eq!(got, id);
                self.open.insert(id);
            }
            Err(Error::UnavailableChannelId { channel_id }) => {
                assert!(!expect_ok, "open(Some({})) failed but id is available", id);
                assert_eq!(channel_id, id);
            }
            Err(err) => panic!("open(Some({})): unexpected error {}", id, err),
        }
    }

    fn open_none(&mut self) -> Option<u16> {
        let all_open = self.open.len() == usize::from(self.channel_max);
        match self.slots.insert(None, entry) {
            Ok(got) => {
                assert!(!all_open, "open(None) returned {} with every id open", got);
                assert!(got >= 1 && got <= self.channel_max, "id {} out of range", got);
                assert!(self.open.insert(got), "open(None) returned id {} twice", got);
                Some(got)
            }
            Err(Error::ExhaustedChannelIds) => {
                assert!(all_open, "open(None) reported exhaustion with free ids left");
                None
            }
            Err(err) => panic!("open(None): unexpected error {}", err),
        }
    }

    fn close(&mut self, id: u16) {
        assert!(self.open.remove(&id));
        assert!(self.slots.remove(id).is_some());
        assert!(self.slots.get(id).is_none());
    }
}

// The minimal trigger: an explicitly requested id above the counter is closed, the counter
// later hands that same id out again, and then the counter runs out.
#[test]
fn explicit_id_closed_then_reissued_by_counter_then_exhausted() {
    let mut c = Checked::new(4);
    c.open_some(3);
    c.close(3);
    for _ in 0..4 {
        assert!(c.open_none().is_some());
    }
    assert_eq!(c.open.len(), 4);
    // every id is open: must be ExhaustedChannelIds, not a panic and not a duplicate
    assert_eq!(c.open_none(), None);
}

// Same history, but the failure shows up a few operations later, after further closes.
#[test]
fn explicit_id_closed_then_reissued_longer_history() {
    let mut c = Checked::new(5);
    c.open_some(4);
    c.close(4);
    for _ in 0..5 {
        assert!(c.open_none().is_some());
    }
    c.close(2);
    c.close(5);
    assert!(c.open_none().is_some());
    assert!(c.open_none().is_some());
    assert_eq!(c.open_none(), None);
    c.close(4);
    assert_eq!(c.open_none(), Some(4));
    c.open_some(0);
    c.open_some(6);
    c.open_some(1);
}

// Control: the same kind of history without an explicit id never misbehaves.
#[test]
fn counter_only_history_is_fine() {
    let mut c = Checked::new(4);
    for _ in 0..4 {
        assert!(c.open_none().is_some());
    }
    assert_eq!(c.open_none(), None);
    c.close(2);
    c.close(3);
    assert!(c.open_none().is_some());
    assert!(c.open_none().is_some());
    assert_eq!(c.open_none(), None);
}
