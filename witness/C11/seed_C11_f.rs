//@host src/io_loop/mod.rs
// witness scenario from seeded change C11-f (independent sub-agent demonstration); passes on the unchanged tree
//! Demonstration for seed C11f (property C11: a consumer ends with exactly one terminal message
//! and nothing after it, after which its queue is disconnected).
//!
//! The tests drive the real `ConnectionState::process` state machine of the I/O thread with the
//! frames a broker would send, on a real `Inner` / `ChannelSlot` / `IoLoopHandle` set, and look at
//! the full content of the consumer's crossbeam receiver until it disconnects. No sockets, no
//! threads, no clocks: nothing here can block except `IoLoopHandle::consume`, and that is only
//! called after the ConsumeOk it waits for has been queued.
//!
//! Expected:   unmodified library  -> all tests pass
//!             library with change -> `server_cancel_after_own_delivery_disconnects_the_queue` and
//!                                    `tag_handed_out_again_after_server_cancel_goes_to_the_new_consumer`
//!                                    fail, the `control_*` tests still pass.

use super::{Channel0Slot, ChannelSlot, ConnectionState, HeartbeatTimers, Inner};
use super::{IoLoopHandle, IoLoopHandle0};
use crate::{ConsumerMessage, FieldTable};
use amq_protocol::frame::{AMQPContentHeader, AMQPFrame};
use amq_protocol::protocol::basic::AMQPMethod as AmqpBasic;
use amq_protocol::protocol::basic::{AMQPProperties, Cancel, CancelOk, Consume, ConsumeOk, Deliver};
use amq_protocol::protocol::channel::AMQPMethod as AmqpChannel;
use amq_protocol::protocol::channel::Close as ChannelClose;
use amq_protocol::protocol::AMQPClass;
use crossbeam_channel::{Receiver, TryRecvError};
use std::collections::HashMap;

struct Rig {
    inner: Inner,
    state: ConnectionState,
    _handle0: IoLoopHandle0,
    handles: HashMap<u16, IoLoopHandle>,
}

impl Rig {
    fn new(channels: &[u16]) -> Rig {
        let mut inner = Inner::new(HeartbeatTimers::default(), 16);
        inner.chan_slots.set_channel_max(64);
        let (ch0_slot, handle0) = Channel0Slot::new(16);
        let mut handles = HashMap::new();
        for &id in channels {
            let handle = inner
                .chan_slots
                .insert(Some(id), |id| Ok(ChannelSlot::new(16, id)))
                .unwrap();
            handles.insert(id, handle);
        }
        Rig {
            inner,
            state: ConnectionState::Steady(ch0_slot),
            _handle0: handle0,
            handles,
        }
    }

    fn feed(&mut self, frame: AMQPFrame) {
        self.state
            .process(&mut self.inner, frame)
            .expect("the I/O thread's state machine rejected a legal frame");
    }

    fn basic(&mut self, channel: u16, method: AmqpBasic) {
        self.feed(AMQPFrame::Method(channel, AMQPClass::Basic(method)));
    }

    /// Server confirms a consume with `tag`; the client side picks the receiver up through the
    /// real handle, as `Channel::basic_consume` does.
    fn consume(&mut self, channel: u16, tag: &str) -> Receiver<ConsumerMessage> {
        self.basic(
            channel,
            AmqpBasic::ConsumeOk(ConsumeOk {
                consumer_tag: tag.to_string(),
            }),
        );
        let (got_tag, rx) = self
            .handles
            .get_mut(&channel)
            .unwrap()
            .consume(Consume {
                ticket: 0,
                queue: "q".to_string(),
                consumer_tag: String::new(),
                no_local: false,
                no_ack: false,
                exclusive: false,
                nowait: false,
                arguments: FieldTable::new(),
            })
            .unwrap();
        assert_eq!(got_tag, tag);
        rx
    }

    /// Basic.Deliver + content header (+ one body frame unless the body is empty).
    fn deliver(&mut self, channel: u16, tag: &str, delivery_tag: u64, body: &[u8]) {
        self.basic(
            channel,
            AmqpBasic::Deliver(Deliver {
                consumer_tag: tag.to_string(),
                delivery_tag,
                redelivered: false,
                exchange: String::new(),
                routing_key: "rk".to_string(),
            }),
        );
        self.feed(AMQPFrame::Header(
            channel,
            60,
            Box::new(AMQPContentHeader {
                class_id: 60,
                weight: 0,
                body_size: body.len() as u64,
                properties: AMQPProperties::default(),
            }),
        ));
        if !body.is_empty() {
            self.feed(AMQPFrame::Body(channel, body.to_vec()));
        }
    }

    fn server_cancel(&mut self, channel: u16, tag: &str, nowait: bool) {
        self.basic(
            channel,
            AmqpBasic::Cancel(Cancel {
                consumer_tag: tag.to_string(),
                nowait,
            }),
        );
    }

    fn cancel_ok(&mut self, channel: u16, tag: &str) {
        self.basic(
            channel,
            AmqpBasic::CancelOk(CancelOk {
                consumer_tag: tag.to_string(),
            }),
        );
    }
}

/// Everything currently in the queue, and whether the queue is disconnected behind it.
fn drain(rx: &Receiver<ConsumerMessage>) -> (Vec<String>, bool) {
    let mut seen = Vec::new();
    loop {
        match rx.try_recv() {
            Ok(ConsumerMessage::Delivery(d)) => seen.push(format!("D{}", d.delivery_tag())),
            Ok(ConsumerMessage::ClientCancelled) => seen.push("ClientCancelled".to_string()),
            Ok(ConsumerMessage::ServerCancelled) => seen.push("ServerCancelled".to_string()),
            Ok(ConsumerMessage::ClientClosedChannel) => seen.push("ClientClosedChannel".to_string()),
            Ok(ConsumerMessage::ServerClosedChannel(_)) => {
                seen.push("ServerClosedChannel".to_string())
            }
            Ok(ConsumerMessage::ClientClosedConnection) => {
                seen.push("ClientClosedConnection".to_string())
            }
            Ok(ConsumerMessage::ServerClosedConnection(_)) => {
                seen.push("ServerClosedConnection".to_string())
            }
            Err(TryRecvError::Empty) => return (seen, false),
            Err(TryRecvError::Disconnected) => return (seen, true),
        }
    }
}

fn strs(v: &[&str]) -> Vec<String> {
    v.iter().map(|s| s.to_string()).collect()
}

// ---------------------------------------------------------------------------------------------
// Tests that FAIL with the change
// ---------------------------------------------------------------------------------------------

/// The consumer that got the channel's most recent delivery is cancelled by the server (this is
/// what RabbitMQ does when the queue is deleted; it says nowait). The queue must hold the
/// delivery, then ServerCancelled, and then be disconnected.
#[test]
fn server_cancel_after_own_delivery_disconnects_the_queue() {
    let mut rig = Rig::new(&[1]);
    let rx = rig.consume(1, "ctag-A");
    rig.deliver(1, "ctag-A", 1, b"hello");
    let before = rig.inner.outbuf.len();
    rig.server_cancel(1, "ctag-A", true);
    assert_eq!(rig.inner.outbuf.len(), before, "nowait cancel must not be answered");

    let (seen, disconnected) = drain(&rx);
    assert_eq!(seen, strs(&["D1", "ServerCancelled"]));
    assert!(
        disconnected,
        "the queue is still connected after its terminal message (a sender survived the cancel)"
    );
}

/// As above, and then the server hands the same tag out again on that channel: the new consumer
/// must get the new delivery, and nothing may follow the old consumer's terminal message.
#[test]
fn tag_handed_out_again_after_server_cancel_goes_to_the_new_consumer() {
    let mut rig = Rig::new(&[1]);
    let old = rig.consume(1, "ctag-A");
    rig.deliver(1, "ctag-A", 1, b"");
    let before = rig.inner.outbuf.len();
    rig.server_cancel(1, "ctag-A", false);
    assert!(rig.inner.outbuf.len() > before, "cancel without nowait is answered with CancelOk");

    let new = rig.consume(1, "ctag-A");
    rig.deliver(1, "ctag-A", 2, b"again");

    let (old_seen, old_disconnected) = drain(&old);
    let (new_seen, new_disconnected) = drain(&new);
    assert_eq!(old_seen, strs(&["D1", "ServerCancelled"]), "old consumer's queue");
    assert!(old_disconnected, "old consumer's queue must be disconnected");
    assert_eq!(new_seen, strs(&["D2"]), "new consumer's queue");
    assert!(!new_disconnected);
}

// ---------------------------------------------------------------------------------------------
// Controls: pass with and without the change
// ---------------------------------------------------------------------------------------------

/// Same history, but the cancel comes from the client (CancelOk from the server); a delivery
/// arriving between request and confirmation is still delivered.
#[test]
fn control_client_cancel_after_own_delivery_disconnects_the_queue() {
    let mut rig = Rig::new(&[1]);
    let rx = rig.consume(1, "ctag-A");
    rig.deliver(1, "ctag-A", 1, b"hello");
    rig.deliver(1, "ctag-A", 2, b"late");
    rig.cancel_ok(1, "ctag-A");
    let (seen, disconnected) = drain(&rx);
    assert_eq!(seen, strs(&["D1", "D2", "ClientCancelled"]));
    assert!(disconnected);
}

/// Server cancel of a consumer that never got a delivery.
#[test]
fn control_server_cancel_without_deliveries() {
    let mut rig = Rig::new(&[1]);
    let rx = rig.consume(1, "ctag-A");
    rig.server_cancel(1, "ctag-A", true);
    let (seen, disconnected) = drain(&rx);
    assert_eq!(seen, strs(&["ServerCancelled"]));
    assert!(disconnected);
}

/// Server cancel of a consumer after ANOTHER consumer of the channel got the latest delivery;
/// the other consumer and a consumer on a second channel are not affected.
#[test]
fn control_server_cancel_after_someone_elses_delivery() {
    let mut rig = Rig::new(&[1, 2]);
    let a = rig.consume(1, "ctag-A");
    let b = rig.consume(1, "ctag-B");
    let c = rig.consume(2, "ctag-A");
    rig.deliver(1, "ctag-A", 1, b"a");
    rig.deliver(2, "ctag-A", 1, b"c");
    rig.deliver(1, "ctag-B", 2, b"b");
    rig.server_cancel(1, "ctag-A", false);
    rig.deliver(1, "ctag-B", 3, b"b");

    let (seen, disconnected) = drain(&a);
    assert_eq!(seen, strs(&["D1", "ServerCancelled"]));
    assert!(disconnected);
    let (seen, disconnected) = drain(&b);
    assert_eq!(seen, strs(&["D2", "D3"]));
    assert!(!disconnected);
    let (seen, disconnected) = drain(&c);
    assert_eq!(seen, strs(&["D1"]));
    assert!(!disconnected);
}

/// Server closes the channel right after a delivery.
#[test]
fn control_server_channel_close_after_own_delivery() {
    let mut rig = Rig::new(&[1]);
    let rx = rig.consume(1, "ctag-A");
    rig.deliver(1, "ctag-A", 1, b"hello");
    rig.feed(AMQPFrame::Method(
        1,
        AMQPClass::Channel(AmqpChannel::Close(ChannelClose {
            reply_code: 404,
            reply_text: "NOT_FOUND".to_string(),
            class_id: 0,
            method_id: 0,
        })),
    ));
    let (seen, disconnected) = drain(&rx);
    assert_eq!(seen, strs(&["D1", "ServerClosedChannel"]));
    assert!(disconnected);
}
