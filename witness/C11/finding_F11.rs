//@host src/io_loop/mod.rs
// Finding F11 (C11, schedules): in the Basic.CancelOk arm of ConnectionState::process the caller blocked in Consumer::cancel - which is what
// Consumer's Drop runs - is released BEFORE the consumer's terminal message (ClientCancelled) is queued.  The released thread goes on to drop
// the Consumer and with it the receiving end of that queue; if it gets there first, the I/O thread's send fails with Disconnected, which it
// treats as fatal (EventLoopClientDropped): the whole connection dies because one consumer was dropped.
//
// The scenario uses the public API only, against a scripted in-memory broker that answers every request at once: one channel, then
// `basic_consume` + drop of the consumer, again and again; after every drop the connection must still be usable.  The race window is a few
// hundred nanoseconds wide, so the test repeats the step (VERIF_F11_ROUNDS, default 30000, or until 20 s have passed).
use crate::serialize::OutputBuffer;
use crate::{Auth, Connection, ConnectionOptions, ConnectionTuning, ConsumerOptions, FieldTable, IoStream};
use amq_protocol::frame::{parse_frame, AMQPFrame};
use amq_protocol::protocol::basic::AMQPMethod as AmqpBasic;
use amq_protocol::protocol::basic::{CancelOk, ConsumeOk};
use amq_protocol::protocol::channel::AMQPMethod as AmqpChannel;
use amq_protocol::protocol::channel::CloseOk as ChannelCloseOk;
use amq_protocol::protocol::channel::OpenOk as ChannelOpenOk;
use amq_protocol::protocol::connection::AMQPMethod as AmqpConnection;
use amq_protocol::protocol::connection::{CloseOk, OpenOk, Start, Tune};
use amq_protocol::protocol::AMQPClass;
use mio::{Evented, Poll, PollOpt, Ready, Registration, SetReadiness, Token};
use std::collections::VecDeque;
use std::io::{self, Read, Write};
use std::time::{Duration, Instant};

fn method_bytes<M: crate::serialize::IntoAmqpClass>(channel: u16, m: M) -> Vec<u8> {
    let mut buf = OutputBuffer::empty();
    buf.push_method(channel, m);
    buf[0..].to_vec()
}

struct InstantBroker {
    registration: Registration,
    readiness: SetReadiness,
    greeted: bool,
    tags: u64,
    inbox: VecDeque<u8>,
}

impl InstantBroker {
    fn new() -> InstantBroker {
        let (registration, readiness) = Registration::new2();
        readiness.set_readiness(Ready::writable()).unwrap();
        InstantBroker { registration, readiness, greeted: false, tags: 0, inbox: VecDeque::new() }
    }
    fn answer(&mut self, frame: AMQPFrame) {
        let reply = match frame {
            AMQPFrame::Method(0, AMQPClass::Connection(AmqpConnection::StartOk(_))) => {
                Some(method_bytes(0, AmqpConnection::Tune(Tune { channel_max: 16, frame_max: 131_072, heartbeat: 0 })))
            }
            AMQPFrame::Method(0, AMQPClass::Connection(AmqpConnection::TuneOk(_))) => None,
            AMQPFrame::Method(0, AMQPClass::Connection(AmqpConnection::Open(_))) => {
                Some(method_bytes(0, AmqpConnection::OpenOk(OpenOk { known_hosts: String::new() })))
            }
            AMQPFrame::Method(0, AMQPClass::Connection(AmqpConnection::Close(_))) => Some(method_bytes(0, AmqpConnection::CloseOk(CloseOk {}))),
            AMQPFrame::Method(n, AMQPClass::Channel(AmqpChannel::Open(_))) => {
                Some(method_bytes(n, AmqpChannel::OpenOk(ChannelOpenOk { channel_id: String::new() })))
            }
            AMQPFrame::Method(n, AMQPClass::Channel(AmqpChannel::Close(_))) => Some(method_bytes(n, AmqpChannel::CloseOk(ChannelCloseOk {}))),
            AMQPFrame::Method(n, AMQPClass::Basic(AmqpBasic::Consume(c))) => {
                self.tags += 1;
                let consumer_tag = if c.consumer_tag.is_empty() { format!("ctag-{}", self.tags) } else { c.consumer_tag };
                Some(method_bytes(n, AmqpBasic::ConsumeOk(ConsumeOk { consumer_tag })))
            }
            AMQPFrame::Method(n, AMQPClass::Basic(AmqpBasic::Cancel(c))) => {
                Some(method_bytes(n, AmqpBasic::CancelOk(CancelOk { consumer_tag: c.consumer_tag })))
            }
            other => panic!("scripted broker: unexpected frame {:?}", other),
        };
        if let Some(bytes) = reply {
            self.inbox.extend(bytes);
        }
    }
}

impl Read for InstantBroker {
    fn read(&mut self, buf: &mut [u8]) -> io::Result<usize> {
        if self.inbox.is_empty() {
            return Err(io::ErrorKind::WouldBlock.into());
        }
        let n = buf.len().min(self.inbox.len());
        for b in buf[..n].iter_mut() {
            *b = self.inbox.pop_front().unwrap();
        }
        Ok(n)
    }
}

impl Write for InstantBroker {
    fn write(&mut self, buf: &[u8]) -> io::Result<usize> {
        let mut rest = buf;
        if !self.greeted {
            assert_eq!(&rest[..8], b"AMQP\x00\x00\x09\x01");
            rest = &rest[8..];
            self.greeted = true;
            self.inbox.extend(method_bytes(
                0,
                AmqpConnection::Start(Start {
                    version_major: 0,
                    version_minor: 9,
                    server_properties: FieldTable::new(),
                    mechanisms: "PLAIN".to_string(),
                    locales: "en_US".to_string(),
                }),
            ));
        }
        while !rest.is_empty() {
            let (more, frame) = parse_frame(rest).expect("client wrote something that is not a whole frame");
            rest = more;
            self.answer(frame);
        }
        let now = if self.inbox.is_empty() { Ready::writable() } else { Ready::readable() | Ready::writable() };
        self.readiness.set_readiness(now).unwrap();
        Ok(buf.len())
    }
    fn flush(&mut self) -> io::Result<()> {
        Ok(())
    }
}

impl Evented for InstantBroker {
    fn register(&self, poll: &Poll, token: Token, interest: Ready, opts: PollOpt) -> io::Result<()> {
        self.registration.register(poll, token, interest, opts)
    }
    fn reregister(&self, poll: &Poll, token: Token, interest: Ready, opts: PollOpt) -> io::Result<()> {
        let r = self.registration.reregister(poll, token, interest, opts);
        let now = if self.inbox.is_empty() { Ready::writable() } else { Ready::readable() | Ready::writable() };
        self.readiness.set_readiness(now).unwrap();
        r
    }
    fn deregister(&self, poll: &Poll) -> io::Result<()> {
        Evented::deregister(&self.registration, poll)
    }
}

impl IoStream for InstantBroker {}

#[test]
fn verif_demo_f11_dropping_consumers_never_costs_the_connection() {
    let rounds: usize = std::env::var("VERIF_F11_ROUNDS").ok().and_then(|v| v.parse().ok()).unwrap_or(30_000);
    let options = ConnectionOptions::<Auth>::default().heartbeat(0);
    let mut connection = Connection::insecure_open_stream(InstantBroker::new(), options, ConnectionTuning::default()).expect("handshake");
    let channel = connection.open_channel(None).expect("open channel");
    let started = Instant::now();
    for round in 0..rounds {
        let consumer = match channel.basic_consume("q", ConsumerOptions::default()) {
            Ok(c) => c,
            Err(e) => panic!("round {}: after dropping a consumer the connection is gone: basic_consume failed with {}", round, e),
        };
        drop(consumer);
        if started.elapsed() > Duration::from_secs(20) {
            break;
        }
    }
    // still usable at the end
    let last = channel.basic_consume("q", ConsumerOptions::default());
    assert!(last.is_ok(), "connection died after the last drop: {:?}", last.err().map(|e| e.to_string()));
    std::mem::forget(last);
    std::mem::forget(channel);
    std::mem::forget(connection);
}
