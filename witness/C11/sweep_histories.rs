//@host src/io_loop/mod.rs
//@quick (generic sweep without wall-clock dependence: also runs in the quick tier, labelled bounded)
// C11 bounded stand-in: every history of up to 6 server-side events on one channel with two consumers A and B, drawn from
//   deliver(X), server cancel(X) [nowait or not], CancelOk(X) (the answer to a client cancel - the client may send one for a consumer the
//   server has cancelled already, e.g. from Consumer::drop), and one closing event (client channel close confirmed, server channel close,
//   server connection close),
// fed to the real ConnectionState::process the way run_io_loop feeds frames, against the property's oracle: each queue carries exactly the
// deliveries addressed to its tag, in order, then exactly one terminal message naming the true cause, then it is disconnected; no legal
// history ends the I/O loop with an error (except a server connection close, which ends it with that close).
// Bound: histories of length <= 6 over that alphabet (VERIF_C11_DEPTH; the count is printed).
use super::connection_state::ConnectionState;
use super::content_collector::ContentCollector;
use super::heartbeat_timers::HeartbeatTimers;
use super::{Channel0Slot, ChannelMessage, ChannelSlot, Inner, IoLoopMessage};
use crate::errors::*;
use crate::ConsumerMessage;
use amq_protocol::frame::{AMQPContentHeader, AMQPFrame};
use amq_protocol::protocol::basic::AMQPMethod as AmqpBasic;
use amq_protocol::protocol::basic::{AMQPProperties, Cancel, CancelOk, ConsumeOk, Deliver};
use amq_protocol::protocol::channel::AMQPMethod as AmqpChannel;
use amq_protocol::protocol::channel::Close as ChannelClose;
use amq_protocol::protocol::channel::CloseOk as ChannelCloseOk;
use amq_protocol::protocol::connection::AMQPMethod as AmqpConnection;
use amq_protocol::protocol::connection::Close as ConnectionClose;
use amq_protocol::protocol::AMQPClass;
use crossbeam_channel::{Receiver, TryRecvError};

const CH: u16 = 1;

struct Harness {
    io: Option<(Inner, ConnectionState)>,
    _ch0_handle: super::IoLoopHandle0,
    _handle_tx: mio_extras::channel::SyncSender<IoLoopMessage>,
    handle_rx: Receiver<Result<ChannelMessage>>,
    first_error: Option<Error>,
}

impl Harness {
    fn new() -> Harness {
        let mut inner = Inner::new(HeartbeatTimers::default(), 16);
        inner.chan_slots.set_channel_max(8);
        let (ch0_slot, ch0_handle) = Channel0Slot::new(16);
        let (mio_tx, mio_rx) = mio_extras::channel::sync_channel(16);
        let (tx, rx) = crossbeam_channel::bounded(2);
        inner
            .chan_slots
            .insert(Some(CH), |id| {
                // built by the crate's own constructor (fields added to ChannelSlot do not break this harness); only the reply queue is replaced so
                // that the harness can drain it
                let (mut slot, handle) = ChannelSlot::new(16, id);
                slot.tx = tx;
                slot.rx = mio_rx;
                drop(handle);
                Ok((slot, ()))
            })
            .unwrap();
        Harness { io: Some((inner, ConnectionState::Steady(ch0_slot))), _ch0_handle: ch0_handle, _handle_tx: mio_tx, handle_rx: rx, first_error: None }
    }

    fn feed(&mut self, frame: AMQPFrame) {
        let result = match self.io.as_mut() {
            Some((inner, state)) => state.process(inner, frame),
            None => return,
        };
        if let Err(err) = result {
            self.first_error = Some(err);
            self.io = None;
        }
        // the caller blocked on the channel handle takes its reply at once (at most one call is ever in flight)
        while self.handle_rx.try_recv().is_ok() {}
    }

    fn basic(&mut self, method: AmqpBasic) {
        self.feed(AMQPFrame::Method(CH, AMQPClass::Basic(method)));
    }

    fn consume_ok(&mut self, tag: &str) -> Receiver<ConsumerMessage> {
        let result = match self.io.as_mut() {
            Some((inner, state)) => state.process(
                inner,
                AMQPFrame::Method(CH, AMQPClass::Basic(AmqpBasic::ConsumeOk(ConsumeOk { consumer_tag: tag.to_string() }))),
            ),
            None => panic!("I/O loop gone"),
        };
        result.unwrap();
        match self.handle_rx.try_recv() {
            Ok(Ok(ChannelMessage::ConsumeOk(got, rx))) => {
                assert_eq!(got, tag);
                rx
            }
            _ => panic!("expected ConsumeOk on the channel handle"),
        }
    }

    fn deliver(&mut self, tag: &str, delivery_tag: u64) {
        self.basic(AmqpBasic::Deliver(Deliver {
            consumer_tag: tag.to_string(),
            delivery_tag,
            redelivered: false,
            exchange: String::new(),
            routing_key: "q".to_string(),
        }));
        self.feed(AMQPFrame::Header(
            CH,
            60,
            Box::new(AMQPContentHeader { class_id: 60, weight: 0, body_size: 0, properties: AMQPProperties::default() }),
        ));
    }
}

#[derive(Debug, PartialEq, Clone)]
enum Seen {
    Delivery(u64),
    ClientCancelled,
    ServerCancelled,
    ClientClosedChannel,
    ServerClosedChannel,
    ClientClosedConnection,
    ServerClosedConnection,
    Disconnected,
    StillOpen,
}

fn drain(rx: &Receiver<ConsumerMessage>) -> Vec<Seen> {
    let mut seen = Vec::new();
    loop {
        match rx.try_recv() {
            Ok(ConsumerMessage::Delivery(d)) => seen.push(Seen::Delivery(d.delivery_tag())),
            Ok(ConsumerMessage::ClientCancelled) => seen.push(Seen::ClientCancelled),
            Ok(ConsumerMessage::ServerCancelled) => seen.push(Seen::ServerCancelled),
            Ok(ConsumerMessage::ClientClosedChannel) => seen.push(Seen::ClientClosedChannel),
            Ok(ConsumerMessage::ServerClosedChannel(_)) => seen.push(Seen::ServerClosedChannel),
            Ok(ConsumerMessage::ClientClosedConnection) => seen.push(Seen::ClientClosedConnection),
            Ok(ConsumerMessage::ServerClosedConnection(_)) => seen.push(Seen::ServerClosedConnection),
            Err(TryRecvError::Disconnected) => {
                seen.push(Seen::Disconnected);
                return seen;
            }
            Err(TryRecvError::Empty) => {
                seen.push(Seen::StillOpen);
                return seen;
            }
        }
    }
}

#[derive(Debug, Clone, Copy, PartialEq)]
enum Ev {
    Deliver(usize),
    ServerCancel(usize, bool),
    CancelOk(usize),
    ClientChannelCloseOk,
    ServerChannelClose,
    ServerConnectionClose,
}

const TAGS: [&str; 2] = ["A", "B"];

// model of one consumer as the property describes it
#[derive(Clone, Default)]
struct Model {
    expect: Vec<Seen>,
    ended: bool,        // terminal message queued
    server_knows: bool, // the server may still deliver to / cancel this tag
    cancel_ok_used: bool,
}

fn run_history(h: &[Ev]) {
    let mut hx = Harness::new();
    let rxs: Vec<Receiver<ConsumerMessage>> = TAGS.iter().map(|t| hx.consume_ok(t)).collect();
    let mut m: Vec<Model> = vec![Model { server_knows: true, ..Default::default() }, Model { server_knows: true, ..Default::default() }];
    let mut next_tag = 1u64;
    let mut connection_closed = false;
    for ev in h {
        match *ev {
            Ev::Deliver(x) => {
                hx.deliver(TAGS[x], next_tag);
                if !m[x].ended {
                    m[x].expect.push(Seen::Delivery(next_tag));
                }
                next_tag += 1;
            }
            Ev::ServerCancel(x, nowait) => {
                hx.basic(AmqpBasic::Cancel(Cancel { consumer_tag: TAGS[x].to_string(), nowait }));
                m[x].server_knows = false;
                if !m[x].ended {
                    m[x].expect.push(Seen::ServerCancelled);
                    m[x].ended = true;
                }
            }
            Ev::CancelOk(x) => {
                hx.basic(AmqpBasic::CancelOk(CancelOk { consumer_tag: TAGS[x].to_string() }));
                m[x].server_knows = false;
                m[x].cancel_ok_used = true;
                if !m[x].ended {
                    m[x].expect.push(Seen::ClientCancelled);
                    m[x].ended = true;
                }
            }
            Ev::ClientChannelCloseOk => {
                hx.feed(AMQPFrame::Method(CH, AMQPClass::Channel(AmqpChannel::CloseOk(ChannelCloseOk {}))));
                for c in m.iter_mut() {
                    if !c.ended {
                        c.expect.push(Seen::ClientClosedChannel);
                        c.ended = true;
                    }
                }
            }
            Ev::ServerChannelClose => {
                hx.feed(AMQPFrame::Method(
                    CH,
                    AMQPClass::Channel(AmqpChannel::Close(ChannelClose { reply_code: 406, reply_text: "x".to_string(), class_id: 0, method_id: 0 })),
                ));
                for c in m.iter_mut() {
                    if !c.ended {
                        c.expect.push(Seen::ServerClosedChannel);
                        c.ended = true;
                    }
                }
            }
            Ev::ServerConnectionClose => {
                hx.feed(AMQPFrame::Method(
                    0,
                    AMQPClass::Connection(AmqpConnection::Close(ConnectionClose { reply_code: 320, reply_text: "x".to_string(), class_id: 0, method_id: 0 })),
                ));
                connection_closed = true;
                for c in m.iter_mut() {
                    if !c.ended {
                        c.expect.push(Seen::ServerClosedConnection);
                        c.ended = true;
                    }
                }
            }
        }
    }
    if !connection_closed {
        assert!(hx.first_error.is_none(), "history {:?}: a legal history ended the I/O loop with {:?}", h, hx.first_error);
    }
    for x in 0..2 {
        let mut want = m[x].expect.clone();
        want.push(if m[x].ended { Seen::Disconnected } else { Seen::StillOpen });
        let got = drain(&rxs[x]);
        assert_eq!(got, want, "history {:?}: queue of consumer {} (I/O loop error: {:?})", h, TAGS[x], hx.first_error);
    }
}

// is `ev` a legal next event after history state?  (server_knows: deliveries and server cancels only for tags the server still has;
// CancelOk(X) at most once per consumer; nothing on the channel after a closing event)
fn extend(h: &mut Vec<Ev>, knows: [bool; 2], ok_used: [bool; 2], depth: usize, count: &mut u64) {
    run_history(h);
    *count += 1;
    if depth == 0 {
        return;
    }
    let mut cands: Vec<Ev> = Vec::new();
    for x in 0..2 {
        if knows[x] {
            cands.push(Ev::Deliver(x));
            cands.push(Ev::ServerCancel(x, false));
            cands.push(Ev::ServerCancel(x, true));
        }
        if !ok_used[x] {
            cands.push(Ev::CancelOk(x));
        }
    }
    cands.push(Ev::ClientChannelCloseOk);
    cands.push(Ev::ServerChannelClose);
    cands.push(Ev::ServerConnectionClose);
    for ev in cands {
        h.push(ev);
        match ev {
            Ev::ClientChannelCloseOk | Ev::ServerChannelClose | Ev::ServerConnectionClose => {
                run_history(h);
                *count += 1;
            }
            Ev::Deliver(_) => extend(h, knows, ok_used, depth - 1, count),
            Ev::ServerCancel(x, _) => {
                let mut k = knows;
                k[x] = false;
                extend(h, k, ok_used, depth - 1, count)
            }
            Ev::CancelOk(x) => {
                let mut k = knows;
                k[x] = false;
                let mut u = ok_used;
                u[x] = true;
                extend(h, k, u, depth - 1, count)
            }
        }
        h.pop();
    }
}

#[test]
fn verif_sweep_c11_all_short_histories_against_oracle() {
    let depth: usize = std::env::var("VERIF_C11_DEPTH").ok().and_then(|v| v.parse().ok()).unwrap_or(6);
    let mut count = 0u64;
    extend(&mut Vec::new(), [true, true], [false, false], depth, &mut count);
    println!("C11 sweep: {} histories", count);
    assert!(count > 1000, "sweep explored only {} histories", count);
}
