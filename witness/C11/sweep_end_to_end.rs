//@host src/io_loop/mod.rs
//@quick (generic sweep without wall-clock dependence: also runs in the quick tier, labelled bounded)
// C11 bounded stand-in, end to end through the public API (real I/O thread, in-memory broker): a consumer's life in every order of
// {k deliveries, client cancel with j deliveries arriving between the cancel request and its confirmation, server cancel (nowait or not),
// drop of the consumer, second cancel, client channel close, server channel close}.
// Oracle = the property: the queue carries the deliveries addressed to its tag in order, then exactly one terminal message naming the true
// cause, then it is disconnected; cancelling twice sends nothing the second time; dropping a live consumer cancels it; a server cancel is
// answered with CancelOk unless nowait; deliveries between the cancel request and its confirmation are still delivered.
// Bound: k in 0..=2, j in 0..=2, the endings listed; waits use timeouts that only matter when something hangs.
include!("/verif/witness/_common/live_broker.rs");
use crate::{Auth, Connection, ConnectionOptions, ConnectionTuning, ConsumerMessage, ConsumerOptions};
use std::thread;

const T: Duration = Duration::from_secs(10);

#[derive(Debug, Clone, Copy, PartialEq)]
enum Ending {
    ClientCancel { late: usize, cancel_again: bool },
    Drop,
    ServerCancel { nowait: bool, then_drop: bool },
    ClientChannelClose,
    ServerChannelClose,
}

fn deliver(tag: &str, n: u64) -> Vec<u8> {
    let mut b = method_bytes(1, B::Deliver(basic::Deliver { consumer_tag: tag.to_string(), delivery_tag: n, redelivered: false, exchange: "x".to_string(), routing_key: "k".to_string() }));
    b.extend(content_bytes(1, format!("m{}", n).as_bytes()));
    b
}

fn cancels_written(ctl: &Handle) -> usize {
    (ctl.0).0.lock().unwrap().seen.iter().filter(|(n, f)| *n == 1 && matches!(f, AMQPFrame::Method(_, AMQPClass::Basic(B::Cancel(_))))).count()
}

fn run(k: usize, ending: Ending) {
    let what = format!("deliveries={} ending={:?}", k, ending);
    let ctl = Handle::new();
    let mut connection = Connection::insecure_open_stream(LiveBroker::new(ctl.clone()), ConnectionOptions::<Auth>::default().heartbeat(0), ConnectionTuning::default()).expect("handshake");
    let ch = connection.open_channel(Some(1)).unwrap();
    let other = ch.basic_consume("other", ConsumerOptions::default()).unwrap(); // a bystander on the same channel
    let consumer = ch.basic_consume("q", ConsumerOptions::default()).unwrap();
    let rx = consumer.receiver().clone();
    let tag = consumer.consumer_tag().to_string();
    let mut want: Vec<String> = Vec::new();
    for i in 0..k {
        ctl.inject(deliver(&tag, 1 + i as u64));
        want.push(format!("m{}", 1 + i));
    }
    ctl.inject(deliver(other.consumer_tag(), 99));
    let terminal;
    let mut channel_gone = false;
    match ending {
        Ending::ClientCancel { late, cancel_again } => {
            ctl.withhold(1, 60, 30);
            let ctl2 = ctl.clone();
            let tag2 = tag.clone();
            let t = thread::spawn(move || {
                assert!(ctl2.wait_for(|(n, f)| *n == 1 && matches!(f, AMQPFrame::Method(_, AMQPClass::Basic(B::Cancel(c))) if c.consumer_tag == tag2), T), "basic.cancel never written");
                let mut bytes = Vec::new();
                for j in 0..late {
                    bytes.extend(deliver(&tag2, 50 + j as u64));
                }
                bytes.extend(method_bytes(1, B::CancelOk(basic::CancelOk { consumer_tag: tag2.clone() })));
                ctl2.inject(bytes);
            });
            consumer.cancel().unwrap_or_else(|e| panic!("{}: cancel: {}", what, e));
            t.join().unwrap();
            for j in 0..late {
                want.push(format!("m{}", 50 + j));
            }
            terminal = "ClientCancelled";
            let before = cancels_written(&ctl);
            if cancel_again {
                consumer.cancel().unwrap_or_else(|e| panic!("{}: second cancel: {}", what, e));
            }
            drop(consumer);
            ch.qos(0, 0, false).unwrap();
            assert_eq!(cancels_written(&ctl), before, "{}: a second cancel / the drop of a cancelled consumer wrote basic.cancel again", what);
        }
        Ending::Drop => {
            drop(consumer);
            assert_eq!(cancels_written(&ctl), 1, "{}: dropping a live consumer must cancel it", what);
            terminal = "ClientCancelled";
        }
        Ending::ServerCancel { nowait, then_drop } => {
            ctl.take_seen();
            ctl.inject(method_bytes(1, B::Cancel(basic::Cancel { consumer_tag: tag.clone(), nowait })));
            terminal = "ServerCancelled";
            // a round trip makes sure the cancel has been processed
            ch.qos(0, 0, false).unwrap();
            let answered = (ctl.0).0.lock().unwrap().seen.iter().any(|(n, f)| *n == 1 && matches!(f, AMQPFrame::Method(_, AMQPClass::Basic(B::CancelOk(c))) if c.consumer_tag == tag));
            assert_eq!(answered, !nowait, "{}: CancelOk must be written exactly when the server did not say nowait", what);
            if then_drop {
                drop(consumer); // sends basic.cancel as always; the broker answers CancelOk for the tag it no longer knows
                ch.qos(0, 0, false).unwrap_or_else(|e| panic!("{}: the channel broke after dropping a server-cancelled consumer: {}", what, e));
            } else {
                std::mem::forget(consumer);
            }
        }
        Ending::ClientChannelClose => {
            std::mem::forget(consumer);
            terminal = "ClientClosedChannel";
            channel_gone = true;
        }
        Ending::ServerChannelClose => {
            std::mem::forget(consumer);
            ctl.inject(method_bytes(1, AmqpChannel::Close(channel_::Close { reply_code: 404, reply_text: "NOT_FOUND".to_string(), class_id: 60, method_id: 20 })));
            terminal = "ServerClosedChannel";
            channel_gone = true;
        }
    }
    let other_rx = other.receiver().clone();
    std::mem::forget(other);
    if ending == Ending::ClientChannelClose {
        ch.close().unwrap_or_else(|e| panic!("{}: channel close: {}", what, e));
    } else if !channel_gone {
        // the bystander consumer is untouched by all of this
        match other_rx.recv_timeout(T) {
            Ok(ConsumerMessage::Delivery(d)) => assert_eq!(d.delivery_tag(), 99, "{}", what),
            o => panic!("{}: bystander consumer got {:?}", what, o),
        }
        assert!(other_rx.try_recv().is_err(), "{}: the bystander consumer received something else", what);
        std::mem::forget(ch);
    } else {
        std::mem::forget(ch);
    }
    // the consumer's queue: its deliveries in order, exactly one terminal message, then disconnected
    let mut got = Vec::new();
    let mut term = Vec::new();
    loop {
        match rx.recv_timeout(T) {
            Ok(ConsumerMessage::Delivery(d)) => {
                assert!(term.is_empty(), "{}: a delivery after the terminal message", what);
                got.push(String::from_utf8_lossy(&d.body).to_string());
            }
            Ok(m) => term.push(format!("{:?}", m)),
            Err(crossbeam_channel::RecvTimeoutError::Disconnected) => break,
            Err(crossbeam_channel::RecvTimeoutError::Timeout) => panic!("{}: queue neither terminated nor disconnected (deliveries {:?}, terminal {:?})", what, got, term),
        }
    }
    assert_eq!(got, want, "{}: deliveries", what);
    assert_eq!(term.len(), 1, "{}: terminal messages {:?}", what, term);
    assert!(term[0].starts_with(terminal), "{}: terminal message {:?}, expected {}", what, term, terminal);
    connection.close().unwrap_or_else(|e| panic!("{}: closing the connection afterwards failed: {}", what, e));
}

#[test]
fn verif_sweep_c11_consumer_lives_end_to_end() {
    let mut count = 0;
    for k in 0..=2usize {
        let mut endings = vec![Ending::Drop, Ending::ClientChannelClose, Ending::ServerChannelClose];
        for late in 0..=2 {
            for &again in &[false, true] {
                endings.push(Ending::ClientCancel { late, cancel_again: again });
            }
        }
        for &nowait in &[false, true] {
            for &then_drop in &[false, true] {
                endings.push(Ending::ServerCancel { nowait, then_drop });
            }
        }
        for e in endings {
            with_watchdog(format!("deliveries={} ending={:?}", k, e), 30, move || run(k, e));
            count += 1;
        }
    }
    println!("C11 end-to-end sweep: {} scenarios", count);
}
