//@host src/io_loop/mod.rs
// witness scenario from seeded change C11-a (independent sub-agent demonstration); passes on the unchanged tree
// Demonstration for property C11 ("a consumer ends with exactly one terminal message and
// nothing after it").
//
// Wiring: this file lives at src/io_loop/c11_demo.rs and is pulled in by the line
//     #[cfg(test)] mod c11_demo;
// in src/io_loop/mod.rs. It drives ConnectionState::process() directly with the frames a
// server would send; no socket or broker is involved.

use super::connection_state::ConnectionState;
use super::{Channel0Slot, ChannelMessage, ChannelSlot, ConsumerMessage, HeartbeatTimers, Inner};
use crate::errors::*;
use amq_protocol::frame::{AMQPContentHeader, AMQPFrame};
use amq_protocol::protocol::basic::AMQPMethod as AmqpBasic;
use amq_protocol::protocol::basic::{AMQPProperties, Cancel, ConsumeOk, Deliver};
use amq_protocol::protocol::channel::AMQPMethod as AmqpChannel;
use amq_protocol::protocol::channel::Close as ChannelClose;
use amq_protocol::protocol::AMQPClass;
use crossbeam_channel::{Receiver, TryRecvError};

const CHANNEL: u16 = 1;

struct Harness {
    inner: Inner,
    state: ConnectionState,
    // receiving end of the channel's control queue (what the Channel's RPC calls read from)
    control_rx: Receiver<Result<ChannelMessage>>,
    // keep the client-side handles alive so that nothing looks "dropped" to the I/O side
    _keep: Box<dyn std::any::Any>,
}

impl Harness {
    fn new() -> Harness {
        let mut inner = Inner::new(HeartbeatTimers::default(), 16);
        inner.chan_slots.set_channel_max(8);
        let (ch0_slot, ch0_handle) = Channel0Slot::new(16);

        let (control_tx, control_rx) = crossbeam_channel::bounded(2);
        let handle = inner
            .chan_slots
            .insert(Some(CHANNEL), |id| {
                let (mut slot, handle) = ChannelSlot::new(16, id);
                // tap the control queue so the test can read what the channel would read
                slot.tx = control_tx;
                Ok((slot, handle))
            })
            .unwrap();

        // forget the protocol header that a fresh connection has queued up
        inner.outbuf.clear();

        Harness {
            inner,
            state: ConnectionState::Steady(ch0_slot),
            control_rx,
            _keep: Box::new((ch0_handle, handle)),
        }
    }

    fn feed(&mut self, frame: AMQPFrame) {
        self.state.process(&mut self.inner, frame).unwrap();
    }

    fn basic(&mut self, method: AmqpBasic) {
        self.feed(AMQPFrame::Method(CHANNEL, AMQPClass::Basic(method)));
    }

    // server confirms a basic.consume; returns the consumer's queue
    fn consume_ok(&mut self, tag: &str) -> Receiver<ConsumerMessage> {
        self.basic(AmqpBasic::ConsumeOk(ConsumeOk {
            consumer_tag: tag.to_string(),
        }));
        match self.control_rx.try_recv().unwrap().unwrap() {
            ChannelMessage::ConsumeOk(got, rx) => {
                assert_eq!(got, tag);
                rx
            }
            _ => panic!("expected consume-ok on the control queue"),
        }
    }

    // server delivers one message with the given body to `tag`
    fn deliver(&mut self, tag: &str, delivery_tag: u64, body: &[u8]) {
        self.basic(AmqpBasic::Deliver(Deliver {
            consumer_tag: tag.to_string(),
            delivery_tag,
            redelivered: false,
            exchange: String::new(),
            routing_key: "q".to_string(),
        }));
        self.feed(AMQPFrame::Header(
            CHANNEL,
            60,
            Box::new(AMQPContentHeader {
                class_id: 60,
                weight: 0,
                body_size: body.len() as u64,
                properties: AMQPProperties::default(),
            }),
        ));
        self.feed(AMQPFrame::Body(CHANNEL, body.to_vec()));
    }

    // server cancels the consumer (e.g. its queue was deleted)
    fn server_cancel(&mut self, tag: &str, nowait: bool) {
        self.basic(AmqpBasic::Cancel(Cancel {
            consumer_tag: tag.to_string(),
            nowait,
        }));
    }

    // server closes the channel
    fn server_close_channel(&mut self) {
        self.feed(AMQPFrame::Method(
            CHANNEL,
            AMQPClass::Channel(AmqpChannel::Close(ChannelClose {
                reply_code: 406,
                reply_text: "PRECONDITION_FAILED".to_string(),
                class_id: 0,
                method_id: 0,
            })),
        ));
    }
}

// Reads the whole consumer queue: returns (bodies of the leading deliveries, all the
// non-delivery messages seen, whether the queue ended up disconnected).
fn drain(rx: &Receiver<ConsumerMessage>) -> (Vec<Vec<u8>>, Vec<String>, bool) {
    let mut bodies = Vec::new();
    let mut terminals = Vec::new();
    loop {
        match rx.try_recv() {
            Ok(ConsumerMessage::Delivery(d)) => {
                assert!(terminals.is_empty(), "delivery after a terminal message");
                bodies.push(d.body);
            }
            Ok(other) => terminals.push(format!("{:?}", other)),
            Err(TryRecvError::Empty) => return (bodies, terminals, false),
            Err(TryRecvError::Disconnected) => return (bodies, terminals, true),
        }
    }
}

fn run(nowait: bool) {
    let mut h = Harness::new();
    let doomed = h.consume_ok("ctag-doomed");
    let bystander = h.consume_ok("ctag-bystander");

    h.deliver("ctag-doomed", 1, b"one");
    h.deliver("ctag-bystander", 2, b"two");
    h.deliver("ctag-doomed", 3, b"three");

    // The server cancels "ctag-doomed".
    h.server_cancel("ctag-doomed", nowait);

    // The cancel is answered with cancel-ok unless the server said nowait.
    assert_eq!(
        h.inner.outbuf.is_empty(),
        nowait,
        "cancel-ok must be sent iff the server did not say nowait"
    );
    h.inner.outbuf.clear();

    // Right after the server cancel, the cancelled consumer's queue must be: its deliveries in
    // order, one ServerCancelled, and then disconnected.
    let (bodies, terminals, disconnected) = drain(&doomed);
    assert_eq!(bodies, vec![b"one".to_vec(), b"three".to_vec()]);
    assert_eq!(terminals, vec!["ServerCancelled".to_string()]);
    assert!(
        disconnected,
        "queue of a server-cancelled consumer is still connected (nowait = {})",
        nowait
    );

    // Later the server closes the whole channel. The consumer that is still alive hears about
    // it; the one that already ended must hear nothing more.
    h.server_close_channel();
    match h.control_rx.try_recv().unwrap() {
        Err(Error::ServerClosedChannel { channel_id, .. }) => assert_eq!(channel_id, CHANNEL),
        _ => panic!("expected the channel to be told about the server close"),
    }

    let (bodies, terminals, disconnected) = drain(&bystander);
    assert_eq!(bodies, vec![b"two".to_vec()]);
    assert_eq!(terminals.len(), 1);
    assert!(terminals[0].starts_with("ServerClosedChannel"));
    assert!(disconnected);

    let (bodies, terminals, disconnected) = drain(&doomed);
    assert!(bodies.is_empty());
    assert!(
        terminals.is_empty(),
        "second terminal message after ServerCancelled: {:?}",
        terminals
    );
    assert!(disconnected);
}

#[test]
fn server_cancel_that_expects_cancel_ok_ends_consumer_exactly_once() {
    run(false);
}

#[test]
fn server_cancel_with_nowait_ends_consumer_exactly_once() {
    run(true);
}

// Same history as above, but without looking at the queue until the very end: this is what a
// consumer that keeps iterating its receiver observes.
#[test]
fn server_cancel_with_nowait_then_channel_close_yields_single_terminal() {
    let mut h = Harness::new();
    let rx = h.consume_ok("ctag-1");
    h.deliver("ctag-1", 1, b"payload");
    h.server_cancel("ctag-1", true);
    h.server_close_channel();

    let (bodies, terminals, disconnected) = drain(&rx);
    assert_eq!(bodies, vec![b"payload".to_vec()]);
    assert_eq!(terminals, vec!["ServerCancelled".to_string()]);
    assert!(disconnected);
}
