//@host src/io_loop/mod.rs
// witness scenario from seeded change C11-b (independent sub-agent demonstration); passes on the unchanged tree
// Demonstration for seed C11-b.
//
// Wire with `#[cfg(test)] mod c11b_demo;` in src/io_loop/mod.rs (next to the other `mod` lines) and
// put this file at src/io_loop/c11b_demo.rs. Run with
//     cargo test --offline --lib c11b_demo
//
// The test plays the I/O thread's part by hand: it builds the connection state machine
// (`ConnectionState::Steady`) with one open channel and feeds it the frames a server would send
// for this legal history on channel 1:
//
//     consume -> A, consume -> B, deliver A, deliver B,
//     server cancels A (queue deleted; answered with CancelOk),
//     the application sees ServerCancelled, leaves its loop and drops consumer A; the drop sends
//       basic.cancel(A) as always, and the server answers CancelOk(A) (RabbitMQ answers cancel-ok
//       for a tag it no longer knows),
//     deliver B, client closes the channel -> CloseOk.
//
// Like run_io_loop, the feeder stops at the first frame whose processing fails and then drops the
// whole I/O-thread state (which is what disconnects every queue when the I/O thread dies).
use super::connection_state::ConnectionState;
use super::heartbeat_timers::HeartbeatTimers;
use super::content_collector::ContentCollector;
use super::{Channel0Slot, ChannelMessage, ChannelSlot, Inner, IoLoopMessage};
use crate::errors::*;
use crate::ConsumerMessage;
use amq_protocol::frame::{AMQPContentHeader, AMQPFrame};
use amq_protocol::protocol::basic::AMQPMethod as AmqpBasic;
use amq_protocol::protocol::basic::{AMQPProperties, Cancel, CancelOk, ConsumeOk, Deliver};
use amq_protocol::protocol::channel::AMQPMethod as AmqpChannel;
use amq_protocol::protocol::channel::CloseOk as ChannelCloseOk;
use amq_protocol::protocol::AMQPClass;
use crossbeam_channel::{Receiver, TryRecvError};

const CH: u16 = 1;

struct Harness {
    // None once the (simulated) I/O thread has died
    io: Option<(Inner, ConnectionState)>,
    _ch0_handle: super::IoLoopHandle0,
    // the client side of channel 1 (what IoLoopHandle holds)
    _handle_tx: mio_extras::channel::SyncSender<IoLoopMessage>,
    handle_rx: Receiver<Result<ChannelMessage>>,
    first_error: Option<Error>,
}

impl Harness {
    fn new() -> Harness {
        let mut inner = Inner::new(HeartbeatTimers::default(), 16);
        inner.chan_slots.set_channel_max(8);
        let (ch0_slot, ch0_handle) = Channel0Slot::new(16);
        // same construction as ChannelSlot::new, keeping the client ends in our own hands
        let (mio_tx, mio_rx) = mio_extras::channel::sync_channel(16);
        let (tx, rx) = crossbeam_channel::bounded(2);
        inner
            .chan_slots
            .insert(Some(CH), |id| {
                let slot = ChannelSlot {
                    rx: mio_rx,
                    tx,
                    collector: ContentCollector::new(id),
                    consumers: std::collections::HashMap::new(),
                    return_handler: None,
                    pub_confirm_handler: None,
                };
                Ok((slot, ()))
            })
            .unwrap();
        Harness {
            io: Some((inner, ConnectionState::Steady(ch0_slot))),
            _ch0_handle: ch0_handle,
            _handle_tx: mio_tx,
            handle_rx: rx,
            first_error: None,
        }
    }

    // What run_io_loop does with a frame read from the socket: process it; on error the I/O thread
    // ends and all of its state is dropped.
    fn feed(&mut self, frame: AMQPFrame) {
        let result = match self.io.as_mut() {
            Some((inner, state)) => state.process(inner, frame),
            None => return, // I/O thread is gone; the frame is never read
        };
        if let Err(err) = result {
            self.first_error = Some(err);
            self.io = None;
        }
    }

    fn basic(&mut self, method: AmqpBasic) {
        self.feed(AMQPFrame::Method(CH, AMQPClass::Basic(method)));
    }

    // consume: the server's ConsumeOk; returns the consumer's queue as the Channel would get it
    fn consume_ok(&mut self, tag: &str) -> Receiver<ConsumerMessage> {
        self.basic(AmqpBasic::ConsumeOk(ConsumeOk {
            consumer_tag: tag.to_string(),
        }));
        match self.handle_recv() {
            Some(Ok(ChannelMessage::ConsumeOk(got, rx))) => {
                assert_eq!(got, tag);
                rx
            }
            _ => panic!("expected ConsumeOk on the channel handle"),
        }
    }

    // a complete delivery with an empty body: Deliver method + content header
    fn deliver(&mut self, tag: &str, delivery_tag: u64) {
        self.basic(AmqpBasic::Deliver(Deliver {
            consumer_tag: tag.to_string(),
            delivery_tag,
            redelivered: false,
            exchange: String::new(),
            routing_key: "q".to_string(),
        }));
        self.feed(AMQPFrame::Header(
            CH,
            60,
            Box::new(AMQPContentHeader {
                class_id: 60,
                weight: 0,
                body_size: 0,
                properties: AMQPProperties::default(),
            }),
        ));
    }

    fn handle_recv(&mut self) -> Option<Result<ChannelMessage>> {
        self.handle_rx.try_recv().ok()
    }
}

#[derive(Debug, PartialEq)]
enum Seen {
    Delivery(u64),
    ClientCancelled,
    ServerCancelled,
    ClientClosedChannel,
    ServerClosedChannel,
    ClientClosedConnection,
    ServerClosedConnection,
    Disconnected,
    StillOpen,
}

// Everything currently in the queue, then whether it is disconnected.
fn drain(rx: &Receiver<ConsumerMessage>) -> Vec<Seen> {
    let mut seen = Vec::new();
    loop {
        match rx.try_recv() {
            Ok(ConsumerMessage::Delivery(d)) => seen.push(Seen::Delivery(d.delivery_tag())),
            Ok(ConsumerMessage::ClientCancelled) => seen.push(Seen::ClientCancelled),
            Ok(ConsumerMessage::ServerCancelled) => seen.push(Seen::ServerCancelled),
            Ok(ConsumerMessage::ClientClosedChannel) => seen.push(Seen::ClientClosedChannel),
            Ok(ConsumerMessage::ServerClosedChannel(_)) => seen.push(Seen::ServerClosedChannel),
            Ok(ConsumerMessage::ClientClosedConnection) => seen.push(Seen::ClientClosedConnection),
            Ok(ConsumerMessage::ServerClosedConnection(_)) => {
                seen.push(Seen::ServerClosedConnection)
            }
            Err(TryRecvError::Disconnected) => {
                seen.push(Seen::Disconnected);
                return seen;
            }
            Err(TryRecvError::Empty) => {
                seen.push(Seen::StillOpen);
                return seen;
            }
        }
    }
}

#[test]
fn dropping_a_server_cancelled_consumer_leaves_the_other_consumers_intact() {
    let mut h = Harness::new();

    let rx_a = h.consume_ok("A");
    let rx_b = h.consume_ok("B");
    h.deliver("A", 1);
    h.deliver("B", 2);

    // the server cancels A (e.g. its queue was deleted)
    h.basic(AmqpBasic::Cancel(Cancel {
        consumer_tag: "A".to_string(),
        nowait: false,
    }));
    assert_eq!(
        drain(&rx_a),
        vec![Seen::Delivery(1), Seen::ServerCancelled, Seen::Disconnected],
        "A: its delivery, then exactly one terminal message, then disconnected"
    );

    // The application drops consumer A. Consumer::drop -> cancel() -> basic.cancel(A) goes out
    // (the client side does not know or care that the server cancelled first), and the server
    // answers with CancelOk(A).
    h.basic(AmqpBasic::CancelOk(CancelOk {
        consumer_tag: "A".to_string(),
    }));
    // (on a healthy I/O thread the CancelOk is forwarded to the caller blocked in Consumer::drop)
    let forwarded = match h.handle_recv() {
        Some(Ok(ChannelMessage::Method(AMQPClass::Basic(AmqpBasic::CancelOk(ok))))) => {
            ok.consumer_tag == "A"
        }
        _ => false,
    };

    // B is untouched by all of this: it keeps receiving, and ends when the client closes the channel
    h.deliver("B", 3);
    h.feed(AMQPFrame::Method(
        CH,
        AMQPClass::Channel(AmqpChannel::CloseOk(ChannelCloseOk {})),
    ));

    assert_eq!(
        drain(&rx_b),
        vec![
            Seen::Delivery(2),
            Seen::Delivery(3),
            Seen::ClientClosedChannel,
            Seen::Disconnected
        ],
        "B: its deliveries in order, then exactly one terminal message naming the true cause \
         (I/O thread error: {:?})",
        h.first_error
    );
    assert!(forwarded, "CancelOk(A) must reach the caller");
    assert!(
        h.first_error.is_none(),
        "a legal history must not kill the I/O thread, got: {:?}",
        h.first_error
    );
    // nothing was appended to A's queue after its terminal message
    assert_eq!(drain(&rx_a), vec![Seen::Disconnected]);
}
