//@host src/lib.rs
// witness scenario from seeded change C11-d (independent sub-agent demonstration); passes on the unchanged tree
//! Demonstration for seed C11d.
//!
//! A whole `Connection` is run against a scripted broker over an in-memory stream (no sockets, no
//! wall clock dependence other than watchdog timeouts). The broker answers the handshake,
//! Channel.Open, Basic.Consume, Basic.Cancel, Channel.Close and Connection.Close; the tests push
//! deliveries and a server-initiated Connection.Close and then read the consumers' queues until
//! they disconnect.
//!
//! Property under test (C11): a consumer's queue carries its deliveries and then exactly one
//! terminal message naming the true cause, after which it is disconnected.

use crate::frame_buffer::FrameBuffer;
use crate::serialize::{IntoAmqpClass, OutputBuffer};
use crate::{
    AmqpProperties, Auth, Connection, ConnectionOptions, ConnectionTuning, ConsumerMessage,
    ConsumerOptions, Error, FieldTable, IoStream,
};
use amq_protocol::frame::AMQPFrame;
use amq_protocol::protocol::basic::AMQPMethod as AmqpBasic;
use amq_protocol::protocol::basic::{CancelOk, ConsumeOk, Deliver};
use amq_protocol::protocol::channel::AMQPMethod as AmqpChannel;
use amq_protocol::protocol::channel::CloseOk as ChannelCloseOk;
use amq_protocol::protocol::channel::OpenOk as ChannelOpenOk;
use amq_protocol::protocol::connection::AMQPMethod as AmqpConnection;
use amq_protocol::protocol::connection::{Close, CloseOk, OpenOk, Start, Tune};
use amq_protocol::protocol::AMQPClass;
use crossbeam_channel::Receiver;
use mio::{Evented, Poll, PollOpt, Ready, Registration, SetReadiness, Token};
use std::collections::VecDeque;
use std::io::{self, Read, Write};
use std::sync::{Arc, Condvar, Mutex};
use std::time::Duration;

const WATCHDOG: Duration = Duration::from_secs(20);

// ---------------------------------------------------------------------------------------------
// in-memory wire
// ---------------------------------------------------------------------------------------------

#[derive(Default)]
struct Wire {
    to_client: VecDeque<u8>,
    // the broker closed its socket: once to_client is drained the client reads EOF
    hung_up: bool,
    from_client: VecDeque<u8>,
    client_gone: bool,
    // set by the broker thread when it sees Connection.CloseOk from the client
    close_ok_seen: bool,
}

struct Shared {
    wire: Mutex<Wire>,
    cond: Condvar,
    ready: SetReadiness,
}

impl Shared {
    // Make `buf` readable for the client; with `hang_up` the EOF sits directly behind it (both
    // become visible to the client atomically, like a segment carrying data and FIN).
    fn push(&self, buf: &OutputBuffer, hang_up: bool) {
        let mut wire = self.wire.lock().unwrap();
        wire.to_client.extend(buf[0..].iter().copied());
        if hang_up {
            wire.hung_up = true;
        }
        self.ready
            .set_readiness(Ready::readable() | Ready::writable())
            .unwrap();
    }

    fn push_method<M: IntoAmqpClass>(&self, channel_id: u16, method: M) {
        let mut buf = OutputBuffer::empty();
        buf.push_method(channel_id, method);
        self.push(&buf, false);
    }

    fn hang_up(&self) {
        self.push(&OutputBuffer::empty(), true);
    }

    fn deliver(&self, channel_id: u16, consumer_tag: &str, delivery_tag: u64, body: &[u8]) {
        let mut buf = OutputBuffer::empty();
        buf.push_method(
            channel_id,
            AmqpBasic::Deliver(Deliver {
                consumer_tag: consumer_tag.to_string(),
                delivery_tag,
                redelivered: false,
                exchange: String::new(),
                routing_key: "q".to_string(),
            }),
        );
        buf.push_content_header(channel_id, 60, body.len(), &AmqpProperties::default());
        if !body.is_empty() {
            buf.push_content_body(channel_id, body);
        }
        self.push(&buf, false);
    }

    fn server_close(&self) -> OutputBuffer {
        let mut buf = OutputBuffer::empty();
        buf.push_method(
            0,
            AmqpConnection::Close(Close {
                reply_code: 320,
                reply_text: "CONNECTION_FORCED - broker shutting down".to_string(),
                class_id: 0,
                method_id: 0,
            }),
        );
        buf
    }

    fn wait_for_close_ok(&self) -> bool {
        let mut wire = self.wire.lock().unwrap();
        let mut rounds = 0;
        while !wire.close_ok_seen {
            if rounds > 400 {
                return false;
            }
            rounds += 1;
            wire = self
                .cond
                .wait_timeout(wire, Duration::from_millis(50))
                .unwrap()
                .0;
        }
        true
    }
}

// client end of the wire
struct Pipe {
    shared: Arc<Shared>,
    registration: Registration,
}

impl Read for Pipe {
    fn read(&mut self, buf: &mut [u8]) -> io::Result<usize> {
        let mut wire = self.shared.wire.lock().unwrap();
        if wire.to_client.is_empty() {
            return if wire.hung_up {
                Ok(0)
            } else {
                Err(io::Error::new(io::ErrorKind::WouldBlock, "no data"))
            };
        }
        let n = usize::min(buf.len(), wire.to_client.len());
        for (dst, src) in buf.iter_mut().zip(wire.to_client.drain(..n)) {
            *dst = src;
        }
        Ok(n)
    }
}

impl Write for Pipe {
    fn write(&mut self, buf: &[u8]) -> io::Result<usize> {
        // Writing always succeeds, also after the broker hung up (like a socket whose peer has
        // only shut down its sending side): the most favourable case for the client.
        let mut wire = self.shared.wire.lock().unwrap();
        wire.from_client.extend(buf.iter().copied());
        self.shared.cond.notify_all();
        Ok(buf.len())
    }

    fn flush(&mut self) -> io::Result<()> {
        Ok(())
    }
}

impl Drop for Pipe {
    fn drop(&mut self) {
        self.shared.wire.lock().unwrap().client_gone = true;
        self.shared.cond.notify_all();
    }
}

impl Evented for Pipe {
    fn register(&self, poll: &Poll, token: Token, interest: Ready, opts: PollOpt) -> io::Result<()> {
        self.registration.register(poll, token, interest, opts)
    }

    fn reregister(
        &self,
        poll: &Poll,
        token: Token,
        interest: Ready,
        opts: PollOpt,
    ) -> io::Result<()> {
        self.registration.reregister(poll, token, interest, opts)
    }

    fn deregister(&self, poll: &Poll) -> io::Result<()> {
        #[allow(deprecated)]
        self.registration.deregister(poll)
    }
}

impl IoStream for Pipe {}

// ---------------------------------------------------------------------------------------------
// scripted broker
// ---------------------------------------------------------------------------------------------

struct FromClient<'a>(&'a Shared);

impl Read for FromClient<'_> {
    fn read(&mut self, buf: &mut [u8]) -> io::Result<usize> {
        let mut wire = self.0.wire.lock().unwrap();
        if wire.from_client.is_empty() {
            return Err(io::Error::new(io::ErrorKind::WouldBlock, "no data"));
        }
        let n = usize::min(buf.len(), wire.from_client.len());
        for (dst, src) in buf.iter_mut().zip(wire.from_client.drain(..n)) {
            *dst = src;
        }
        Ok(n)
    }
}

fn broker_main(shared: Arc<Shared>) {
    let mut frames = FrameBuffer::new();
    let mut header_seen = false;
    let mut next_tag = 0;
    loop {
        {
            let mut wire = shared.wire.lock().unwrap();
            let need = if header_seen { 1 } else { 8 };
            while wire.from_client.len() < need {
                if wire.client_gone {
                    return;
                }
                wire = shared
                    .cond
                    .wait_timeout(wire, Duration::from_millis(50))
                    .unwrap()
                    .0;
            }
            if !header_seen {
                let header: Vec<u8> = wire.from_client.drain(..8).collect();
                assert_eq!(&header[..], b"AMQP\x00\x00\x09\x01");
                header_seen = true;
                drop(wire);
                shared.push_method(
                    0,
                    AmqpConnection::Start(Start {
                        version_major: 0,
                        version_minor: 9,
                        server_properties: FieldTable::new(),
                        mechanisms: "PLAIN".to_string(),
                        locales: "en_US".to_string(),
                    }),
                );
                continue;
            }
        }

        let mut got = Vec::new();
        frames
            .read_from(&mut FromClient(&shared), |frame| {
                got.push(frame);
                Ok(())
            })
            .unwrap();

        for frame in got {
            match frame {
                AMQPFrame::Method(0, AMQPClass::Connection(method)) => match method {
                    AmqpConnection::StartOk(_) => shared.push_method(
                        0,
                        AmqpConnection::Tune(Tune {
                            channel_max: 16,
                            frame_max: 131_072,
                            heartbeat: 0,
                        }),
                    ),
                    AmqpConnection::Open(_) => shared.push_method(
                        0,
                        AmqpConnection::OpenOk(OpenOk {
                            known_hosts: String::new(),
                        }),
                    ),
                    AmqpConnection::Close(_) => {
                        shared.push_method(0, AmqpConnection::CloseOk(CloseOk {}));
                        shared.hang_up();
                    }
                    AmqpConnection::CloseOk(_) => {
                        // the polite end of a server-initiated close: the broker has its CloseOk
                        // and only now closes the socket
                        shared.wire.lock().unwrap().close_ok_seen = true;
                        shared.cond.notify_all();
                        shared.hang_up();
                    }
                    _ => {}
                },
                AMQPFrame::Method(n, AMQPClass::Channel(AmqpChannel::Open(_))) => shared
                    .push_method(
                        n,
                        AmqpChannel::OpenOk(ChannelOpenOk {
                            channel_id: String::new(),
                        }),
                    ),
                AMQPFrame::Method(n, AMQPClass::Channel(AmqpChannel::Close(_))) => {
                    shared.push_method(n, AmqpChannel::CloseOk(ChannelCloseOk {}))
                }
                AMQPFrame::Method(n, AMQPClass::Basic(AmqpBasic::Consume(_))) => {
                    next_tag += 1;
                    shared.push_method(
                        n,
                        AmqpBasic::ConsumeOk(ConsumeOk {
                            consumer_tag: format!("ctag-{}", next_tag),
                        }),
                    )
                }
                AMQPFrame::Method(n, AMQPClass::Basic(AmqpBasic::Cancel(cancel))) => shared
                    .push_method(
                        n,
                        AmqpBasic::CancelOk(CancelOk {
                            consumer_tag: cancel.consumer_tag,
                        }),
                    ),
                _ => {}
            }
        }
    }
}

fn connect() -> (Connection, Arc<Shared>) {
    let (registration, ready) = Registration::new2();
    ready.set_readiness(Ready::writable()).unwrap();
    let shared = Arc::new(Shared {
        wire: Mutex::new(Wire::default()),
        cond: Condvar::new(),
        ready,
    });
    let pipe = Pipe {
        shared: Arc::clone(&shared),
        registration,
    };
    {
        let shared = Arc::clone(&shared);
        std::thread::spawn(move || broker_main(shared));
    }
    let options = ConnectionOptions::<Auth>::default().heartbeat(0);
    let connection =
        Connection::insecure_open_stream(pipe, options, ConnectionTuning::default()).unwrap();
    (connection, shared)
}

// ---------------------------------------------------------------------------------------------
// observation
// ---------------------------------------------------------------------------------------------

// Everything a consumer's queue carries until it is disconnected, rendered as text.
fn drain_until_disconnect(rx: &Receiver<ConsumerMessage>) -> Vec<String> {
    let mut seen = Vec::new();
    loop {
        match rx.recv_timeout(WATCHDOG) {
            Ok(ConsumerMessage::Delivery(delivery)) => seen.push(format!(
                "delivery {} {}",
                delivery.delivery_tag(),
                String::from_utf8_lossy(&delivery.body)
            )),
            Ok(ConsumerMessage::ServerClosedConnection(Error::ServerClosedConnection {
                code,
                ..
            })) => seen.push(format!("ServerClosedConnection {}", code)),
            Ok(other) => seen.push(format!("{:?}", other)),
            Err(crossbeam_channel::RecvTimeoutError::Disconnected) => return seen,
            Err(crossbeam_channel::RecvTimeoutError::Timeout) => {
                seen.push("TIMEOUT (queue neither fed nor disconnected)".to_string());
                return seen;
            }
        }
    }
}

// Runs `body` on its own thread and fails (instead of hanging) if it does not come back.
fn with_watchdog<F: FnOnce() + Send + 'static>(body: F) {
    let (done_tx, done_rx) = std::sync::mpsc::channel();
    std::thread::spawn(move || {
        let result = std::panic::catch_unwind(std::panic::AssertUnwindSafe(body));
        let _ = done_tx.send(result);
    });
    match done_rx.recv_timeout(WATCHDOG * 3) {
        Ok(Ok(())) => {}
        Ok(Err(panic)) => std::panic::resume_unwind(panic),
        Err(_) => panic!("scenario did not finish"),
    }
}

struct Outcome {
    first: Vec<String>,
    second: Vec<String>,
}

// Two channels, one consumer on each, two deliveries for the first one, then the server closes
// the connection. With `hang_up_behind_close` the broker closes its socket directly behind the
// Connection.Close frame without waiting for the client's CloseOk (a broker that is being shut
// down hard, or a proxy in between that resets); otherwise it waits for CloseOk first.
fn server_closes_connection(hang_up_behind_close: bool) -> Outcome {
    let (mut connection, broker) = connect();
    let channel1 = connection.open_channel(None).unwrap();
    let channel2 = connection.open_channel(None).unwrap();
    let consumer1 = channel1
        .basic_consume("q", ConsumerOptions::default())
        .unwrap();
    let consumer2 = channel2
        .basic_consume("q", ConsumerOptions::default())
        .unwrap();
    let rx1 = consumer1.receiver().clone();
    let rx2 = consumer2.receiver().clone();
    let tag1 = consumer1.consumer_tag().to_string();
    // nothing below may talk to the (soon dead) connection from a destructor
    std::mem::forget(consumer1);
    std::mem::forget(consumer2);

    broker.deliver(channel1.channel_id(), &tag1, 1, b"one");
    broker.deliver(channel1.channel_id(), &tag1, 2, b"");

    let close = broker.server_close();
    if hang_up_behind_close {
        broker.push(&close, true);
    } else {
        broker.push(&close, false);
        assert!(
            broker.wait_for_close_ok(),
            "client never answered Connection.Close with CloseOk"
        );
    }

    let outcome = Outcome {
        first: drain_until_disconnect(&rx1),
        second: drain_until_disconnect(&rx2),
    };
    std::mem::forget(channel1);
    std::mem::forget(channel2);
    // joins the I/O thread; the result is the connection's final error and not of interest here
    let _ = connection.close();
    outcome
}

// CONTROL (passes with and without the change): the broker waits for CloseOk before it closes
// its socket.
#[test]
fn control_server_close_with_polite_hang_up_ends_consumers_with_server_closed_connection() {
    with_watchdog(|| {
        let outcome = server_closes_connection(false);
        assert_eq!(
            outcome.first,
            vec!["delivery 1 one", "delivery 2 ", "ServerClosedConnection 320"]
        );
        assert_eq!(outcome.second, vec!["ServerClosedConnection 320"]);
    });
}

// CONTROL (passes with and without the change): client-initiated close.
#[test]
fn control_client_close_ends_consumers_with_client_closed_connection() {
    with_watchdog(|| {
        let (mut connection, broker) = connect();
        let channel = connection.open_channel(None).unwrap();
        let consumer = channel
            .basic_consume("q", ConsumerOptions::default())
            .unwrap();
        let rx = consumer.receiver().clone();
        let tag = consumer.consumer_tag().to_string();
        std::mem::forget(consumer);
        broker.deliver(channel.channel_id(), &tag, 1, b"one");
        // make sure the delivery is through before we close (Connection.Close seals the wire)
        match rx.recv_timeout(WATCHDOG) {
            Ok(ConsumerMessage::Delivery(delivery)) => assert_eq!(delivery.body, b"one"),
            other => panic!("expected the delivery, got {:?}", other),
        }
        std::mem::forget(channel);
        connection.close().unwrap();
        assert_eq!(drain_until_disconnect(&rx), vec!["ClientClosedConnection"]);
    });
}

// DEMONSTRATION (passes on the unmodified library, fails with the change): the broker's socket
// closes right behind its Connection.Close. The consumers must still be told ServerClosedConnection
// exactly once before their queues disconnect.
#[test]
fn server_close_followed_by_eof_still_ends_consumers_with_server_closed_connection() {
    with_watchdog(|| {
        let outcome = server_closes_connection(true);
        assert_eq!(
            outcome.first,
            vec!["delivery 1 one", "delivery 2 ", "ServerClosedConnection 320"],
            "consumer on channel 1"
        );
        assert_eq!(
            outcome.second,
            vec!["ServerClosedConnection 320"],
            "consumer on channel 2"
        );
    });
}
