//@host src/lib.rs
// witness scenario from seeded change C11-e (independent sub-agent demonstration); passes on the unchanged tree
//! Demonstration for property C11 ("a consumer ends with exactly one terminal message and nothing
//! after it"), seen through a *cloned* `Consumer::receiver()`, which is the documented way of
//! handing deliveries to a worker while the `Consumer` itself stays with the channel.
//!
//! The tests drive the real client (Connection / Channel / Consumer / I/O thread) against a small
//! scripted broker on a loopback socket. Nothing here depends on wall-clock time except the
//! watchdogs, which only turn a hang into a failure.

use crate::serialize::OutputBuffer;
use crate::{
    Auth, Connection, ConnectionOptions, ConnectionTuning, ConsumerMessage, ConsumerOptions,
    FieldTable,
};
use amq_protocol::frame::{parse_frame, AMQPFrame};
use amq_protocol::protocol::basic::AMQPMethod as AmqpBasic;
use amq_protocol::protocol::basic::{AMQPProperties, CancelOk, ConsumeOk, Deliver};
use amq_protocol::protocol::channel::AMQPMethod as AmqpChannel;
use amq_protocol::protocol::channel::CloseOk as ChannelCloseOk;
use amq_protocol::protocol::channel::OpenOk as ChannelOpenOk;
use amq_protocol::protocol::connection::AMQPMethod as AmqpConnection;
use amq_protocol::protocol::connection::CloseOk as ConnectionCloseOk;
use amq_protocol::protocol::connection::{OpenOk, Start, Tune};
use amq_protocol::protocol::AMQPClass;
use crossbeam_channel::{Receiver, RecvTimeoutError};
use std::io::{self, Read, Write};
use std::net::{TcpListener, TcpStream};
use std::sync::mpsc;
use std::sync::{Arc, Mutex};
use std::thread;
use std::time::Duration;

const WATCHDOG: Duration = Duration::from_secs(20);

// ---------------------------------------------------------------------------------------------
// scripted broker
// ---------------------------------------------------------------------------------------------

fn read_frame(stream: &mut TcpStream) -> io::Result<AMQPFrame> {
    let mut buf = vec![0u8; 7];
    stream.read_exact(&mut buf)?;
    let size = u32::from_be_bytes([buf[3], buf[4], buf[5], buf[6]]) as usize;
    buf.resize(7 + size + 1, 0);
    stream.read_exact(&mut buf[7..])?;
    match parse_frame(&buf) {
        Ok((rest, frame)) if rest.is_empty() => Ok(frame),
        _ => Err(io::Error::new(io::ErrorKind::InvalidData, "bad frame")),
    }
}

fn flush(stream: &mut TcpStream, out: OutputBuffer) -> io::Result<()> {
    stream.write_all(&out[0..])?;
    stream.flush()
}

/// Every method frame the broker received after the handshake, rendered as text.
type FrameLog = Arc<Mutex<Vec<String>>>;

/// Speaks just enough AMQP: handshake, Channel.Open, Basic.Consume (tags "ctag-1", "ctag-2", ...),
/// Basic.Cancel, Channel.Close, Connection.Close. When it receives a Basic.Cancel it first sends
/// `deliveries_before_cancel_ok` deliveries (bodies "m1", "m2", ...) to that consumer and only
/// then the CancelOk: these are the "deliveries arriving between the cancel request and its
/// confirmation".
fn broker(mut stream: TcpStream, deliveries_before_cancel_ok: usize, log: FrameLog) -> io::Result<()> {
    let mut header = [0u8; 8];
    stream.read_exact(&mut header)?;
    assert_eq!(&header, b"AMQP\x00\x00\x09\x01");

    let mut out = OutputBuffer::empty();
    out.push_method(
        0,
        AmqpConnection::Start(Start {
            version_major: 0,
            version_minor: 9,
            server_properties: FieldTable::new(),
            mechanisms: "PLAIN".to_string(),
            locales: "en_US".to_string(),
        }),
    );
    flush(&mut stream, out)?;
    let _start_ok = read_frame(&mut stream)?;

    let mut out = OutputBuffer::empty();
    out.push_method(
        0,
        AmqpConnection::Tune(Tune {
            channel_max: 16,
            frame_max: 131_072,
            heartbeat: 0,
        }),
    );
    flush(&mut stream, out)?;
    let _tune_ok = read_frame(&mut stream)?;
    let _open = read_frame(&mut stream)?;

    let mut out = OutputBuffer::empty();
    out.push_method(
        0,
        AmqpConnection::OpenOk(OpenOk {
            known_hosts: String::new(),
        }),
    );
    flush(&mut stream, out)?;

    let mut next_tag = 0;
    let mut next_delivery_tag = 0;
    loop {
        let frame = match read_frame(&mut stream) {
            Ok(frame) => frame,
            // client went away
            Err(_) => return Ok(()),
        };
        let mut out = OutputBuffer::empty();
        match frame {
            AMQPFrame::Method(n, AMQPClass::Channel(AmqpChannel::Open(_))) => {
                log.lock().unwrap().push(format!("{} channel.open", n));
                out.push_method(
                    n,
                    AmqpChannel::OpenOk(ChannelOpenOk {
                        channel_id: String::new(),
                    }),
                );
            }
            AMQPFrame::Method(n, AMQPClass::Basic(AmqpBasic::Consume(_))) => {
                next_tag += 1;
                let consumer_tag = format!("ctag-{}", next_tag);
                log.lock()
                    .unwrap()
                    .push(format!("{} basic.consume -> {}", n, consumer_tag));
                out.push_method(n, AmqpBasic::ConsumeOk(ConsumeOk { consumer_tag }));
            }
            AMQPFrame::Method(n, AMQPClass::Basic(AmqpBasic::Cancel(cancel))) => {
                log.lock()
                    .unwrap()
                    .push(format!("{} basic.cancel {}", n, cancel.consumer_tag));
                for i in 1..=deliveries_before_cancel_ok {
                    next_delivery_tag += 1;
                    let body = format!("m{}", i);
                    out.push_method(
                        n,
                        AmqpBasic::Deliver(Deliver {
                            consumer_tag: cancel.consumer_tag.clone(),
                            delivery_tag: next_delivery_tag,
                            redelivered: false,
                            exchange: String::new(),
                            routing_key: "q".to_string(),
                        }),
                    );
                    out.push_content_header(n, 60, body.len(), &AMQPProperties::default());
                    out.push_content_body(n, body.as_bytes());
                }
                out.push_method(
                    n,
                    AmqpBasic::CancelOk(CancelOk {
                        consumer_tag: cancel.consumer_tag,
                    }),
                );
            }
            AMQPFrame::Method(n, AMQPClass::Channel(AmqpChannel::Close(_))) => {
                log.lock().unwrap().push(format!("{} channel.close", n));
                out.push_method(n, AmqpChannel::CloseOk(ChannelCloseOk {}));
            }
            AMQPFrame::Method(0, AMQPClass::Connection(AmqpConnection::Close(_))) => {
                log.lock().unwrap().push("0 connection.close".to_string());
                out.push_method(0, AmqpConnection::CloseOk(ConnectionCloseOk {}));
                flush(&mut stream, out)?;
                return Ok(());
            }
            other => {
                log.lock().unwrap().push(format!("unexpected {:?}", other));
            }
        }
        if !out.is_empty() {
            flush(&mut stream, out)?;
        }
    }
}

fn start(deliveries_before_cancel_ok: usize) -> (Connection, FrameLog) {
    let listener = TcpListener::bind("127.0.0.1:0").unwrap();
    let addr = listener.local_addr().unwrap();
    let log: FrameLog = Arc::new(Mutex::new(Vec::new()));
    let broker_log = Arc::clone(&log);
    thread::spawn(move || {
        let (stream, _) = listener.accept().unwrap();
        stream.set_nodelay(true).unwrap();
        let _ = broker(stream, deliveries_before_cancel_ok, broker_log);
    });
    let stream = mio::net::TcpStream::connect(&addr).unwrap();
    let connection = Connection::insecure_open_stream(
        stream,
        ConnectionOptions::<Auth>::default(),
        ConnectionTuning::default(),
    )
    .unwrap();
    (connection, log)
}

// ---------------------------------------------------------------------------------------------
// observation
// ---------------------------------------------------------------------------------------------

fn render(message: ConsumerMessage) -> String {
    match message {
        ConsumerMessage::Delivery(delivery) => {
            format!("delivery {}", String::from_utf8_lossy(&delivery.body))
        }
        other => format!("{:?}", other),
    }
}

/// The full content of a consumer queue up to the point where it is disconnected. A queue that
/// is neither fed nor disconnected within the watchdog period is reported as such instead of
/// hanging the test.
fn drain_until_disconnected(rx: &Receiver<ConsumerMessage>) -> Vec<String> {
    let mut seen = Vec::new();
    loop {
        match rx.recv_timeout(WATCHDOG) {
            Ok(message) => seen.push(render(message)),
            Err(RecvTimeoutError::Disconnected) => {
                seen.push("<disconnected>".to_string());
                return seen;
            }
            Err(RecvTimeoutError::Timeout) => {
                seen.push("<still connected, nothing more arrived>".to_string());
                return seen;
            }
        }
    }
}

/// Runs `scenario` on its own thread so that a client call nobody answers fails the test instead
/// of hanging it.
fn with_watchdog<T: Send + 'static>(scenario: impl FnOnce() -> T + Send + 'static) -> T {
    let (tx, rx) = mpsc::channel();
    thread::spawn(move || {
        let _ = tx.send(scenario());
    });
    match rx.recv_timeout(WATCHDOG * 3) {
        Ok(result) => result,
        Err(_) => panic!("scenario did not finish (hang or panic in the scenario thread)"),
    }
}

fn cancels_in(log: &FrameLog) -> Vec<String> {
    log.lock()
        .unwrap()
        .iter()
        .filter(|line| line.contains("basic.cancel"))
        .cloned()
        .collect()
}

const TWO_DELIVERIES_THEN_CLIENT_CANCELLED: [&str; 4] = [
    "delivery m1",
    "delivery m2",
    "ClientCancelled",
    "<disconnected>",
];

// ---------------------------------------------------------------------------------------------
// the demonstration: the queue is observed through a clone of the receiver
// ---------------------------------------------------------------------------------------------

/// Dropping a consumer cancels it; whoever holds a clone of its receiver must still get the
/// deliveries that arrived before the server confirmed the cancel, then ClientCancelled, then a
/// disconnected queue.
#[test]
fn clone_of_receiver_sees_deliveries_and_terminal_message_when_consumer_is_dropped() {
    let (seen, cancels) = with_watchdog(|| {
        let (mut connection, log) = start(2);
        let channel = connection.open_channel(None).unwrap();
        let consumer = channel
            .basic_consume("q", ConsumerOptions::default())
            .unwrap();
        let worker_rx = consumer.receiver().clone();

        // Basic.Cancel -> (Deliver m1, Deliver m2, CancelOk); returns once CancelOk is processed.
        drop(consumer);

        let seen = drain_until_disconnected(&worker_rx);
        let cancels = cancels_in(&log);
        channel.close().unwrap();
        connection.close().unwrap();
        (seen, cancels)
    });
    assert_eq!(cancels, vec!["1 basic.cancel ctag-1".to_string()]);
    assert_eq!(seen, TWO_DELIVERIES_THEN_CLIENT_CANCELLED);
}

/// Same, for the very common "cancel explicitly, then let the consumer go out of scope" while the
/// worker has not yet caught up with its queue.
#[test]
fn clone_of_receiver_sees_deliveries_and_terminal_message_after_cancel_then_drop() {
    let (seen, cancels) = with_watchdog(|| {
        let (mut connection, log) = start(2);
        let channel = connection.open_channel(None).unwrap();
        let consumer = channel
            .basic_consume("q", ConsumerOptions::default())
            .unwrap();
        let worker_rx = consumer.receiver().clone();

        consumer.cancel().unwrap();
        drop(consumer);

        let seen = drain_until_disconnected(&worker_rx);
        let cancels = cancels_in(&log);
        channel.close().unwrap();
        connection.close().unwrap();
        (seen, cancels)
    });
    assert_eq!(cancels, vec!["1 basic.cancel ctag-1".to_string()]);
    assert_eq!(seen, TWO_DELIVERIES_THEN_CLIENT_CANCELLED);
}

/// Two consumers on one channel: dropping the first must not disturb what a clone of the second
/// one's receiver sees, and the first one's clone still gets its own complete history.
#[test]
fn dropping_one_consumer_leaves_both_queues_complete() {
    let (first, second) = with_watchdog(|| {
        let (mut connection, _log) = start(1);
        let channel = connection.open_channel(None).unwrap();
        let consumer1 = channel
            .basic_consume("q", ConsumerOptions::default())
            .unwrap();
        let consumer2 = channel
            .basic_consume("q", ConsumerOptions::default())
            .unwrap();
        let rx1 = consumer1.receiver().clone();
        let rx2 = consumer2.receiver().clone();

        drop(consumer1);
        let first = drain_until_disconnected(&rx1);
        consumer2.cancel().unwrap();
        // read the second queue while its consumer is still alive
        let second = drain_until_disconnected(&rx2);
        drop(consumer2);

        channel.close().unwrap();
        connection.close().unwrap();
        (first, second)
    });
    assert_eq!(second, ["delivery m1", "ClientCancelled", "<disconnected>"]);
    assert_eq!(first, ["delivery m1", "ClientCancelled", "<disconnected>"]);
}

// ---------------------------------------------------------------------------------------------
// controls: pass with or without the change
// ---------------------------------------------------------------------------------------------

/// Control: without a clone, reading through `Consumer::receiver()` after an explicit cancel
/// shows the complete history, and the drop that follows sends no second Basic.Cancel.
#[test]
fn control_own_receiver_sees_everything_and_cancel_is_sent_once() {
    let (seen, cancels) = with_watchdog(|| {
        let (mut connection, log) = start(2);
        let channel = connection.open_channel(None).unwrap();
        let consumer = channel
            .basic_consume("q", ConsumerOptions::default())
            .unwrap();

        consumer.cancel().unwrap();
        consumer.cancel().unwrap();
        let mut seen = Vec::new();
        for _ in 0..3 {
            match consumer.receiver().recv_timeout(WATCHDOG) {
                Ok(message) => seen.push(render(message)),
                Err(err) => seen.push(format!("<{}>", err)),
            }
        }
        drop(consumer);

        let cancels = cancels_in(&log);
        channel.close().unwrap();
        connection.close().unwrap();
        (seen, cancels)
    });
    assert_eq!(cancels, vec!["1 basic.cancel ctag-1".to_string()]);
    assert_eq!(seen, ["delivery m1", "delivery m2", "ClientCancelled"]);
}

/// Control: a clone that has caught up with its queue before the consumer is dropped sees the
/// complete history, and dropping a consumer (without explicit cancel) sends exactly one
/// Basic.Cancel.
#[test]
fn control_clone_that_already_caught_up_is_unaffected_by_drop() {
    let (seen, cancels) = with_watchdog(|| {
        let (mut connection, log) = start(2);
        let channel = connection.open_channel(None).unwrap();
        let consumer = channel
            .basic_consume("q", ConsumerOptions::default())
            .unwrap();
        let worker_rx = consumer.receiver().clone();

        consumer.cancel().unwrap();
        let mut seen = Vec::new();
        for _ in 0..3 {
            match worker_rx.recv_timeout(WATCHDOG) {
                Ok(message) => seen.push(render(message)),
                Err(err) => seen.push(format!("<{}>", err)),
            }
        }
        drop(consumer);
        seen.extend(drain_until_disconnected(&worker_rx));

        let cancels = cancels_in(&log);
        channel.close().unwrap();
        connection.close().unwrap();
        (seen, cancels)
    });
    assert_eq!(cancels, vec!["1 basic.cancel ctag-1".to_string()]);
    assert_eq!(seen, TWO_DELIVERIES_THEN_CLIENT_CANCELLED);
}
