//@host src/io_loop/mod.rs
// witness scenario from seeded change C11-i (independent sub-agent demonstration); passes on the unchanged tree
//! Demonstration for property C11: a consumer's queue ends with exactly one terminal message and
//! is disconnected right after it.
//!
//! The tests drive the real I/O-thread state machine (`ConnectionState::process` on a real
//! `Inner`, with channel slots made by `ChannelSlot::new` and consumers registered through the
//! real `IoLoopHandle::consume` hand-over) with the frames a broker would send. Nothing here
//! depends on wall-clock time or on threads: every observation is a `try_recv`.

use super::*;
use amq_protocol::frame::{parse_frame, AMQPContentHeader};
use amq_protocol::protocol::basic::AMQPMethod as AmqpBasic;
use amq_protocol::protocol::basic::{AMQPProperties, Cancel, CancelOk, Consume, ConsumeOk, Deliver};
use amq_protocol::protocol::channel::AMQPMethod as AmqpChannel;
use amq_protocol::protocol::channel::Close as ChannelClose;
use crossbeam_channel::TryRecvError as CbTryRecvError;

const BASIC_CLASS_ID: u16 = 60;

struct Broker {
    inner: Inner,
    state: ConnectionState,
    handles: HashMap<u16, IoLoopHandle>,
    _handle0: IoLoopHandle0,
}

impl Broker {
    fn new() -> Broker {
        let mut inner = Inner::new(HeartbeatTimers::default(), 16);
        inner.chan_slots.set_channel_max(16);
        inner.outbuf.clear(); // drop the protocol header; we only look at frames
        let (ch0_slot, handle0) = Channel0Slot::new(16);
        Broker {
            inner,
            state: ConnectionState::Steady(ch0_slot),
            handles: HashMap::new(),
            _handle0: handle0,
        }
    }

    fn open_channel(&mut self, id: u16) {
        let handle = self
            .inner
            .chan_slots
            .insert(Some(id), |id| Ok(ChannelSlot::new(16, id)))
            .unwrap();
        self.handles.insert(id, handle);
    }

    /// The broker sends `frame`.
    fn recv(&mut self, frame: AMQPFrame) {
        self.state.process(&mut self.inner, frame).unwrap();
    }

    fn recv_basic(&mut self, channel_id: u16, method: AmqpBasic) {
        self.recv(AMQPFrame::Method(channel_id, AMQPClass::Basic(method)));
    }

    /// Start a consumer: the broker's ConsumeOk is processed by the I/O side, and the caller's
    /// side picks up the tag and the queue through the real handle.
    fn consume(&mut self, channel_id: u16, tag: &str) -> CrossbeamReceiver<ConsumerMessage> {
        self.recv_basic(
            channel_id,
            AmqpBasic::ConsumeOk(ConsumeOk {
                consumer_tag: tag.to_string(),
            }),
        );
        let handle = self.handles.get_mut(&channel_id).unwrap();
        let (got_tag, rx) = handle
            .consume(Consume {
                ticket: 0,
                queue: "q".to_string(),
                consumer_tag: String::new(),
                no_local: false,
                no_ack: false,
                exclusive: false,
                nowait: false,
                arguments: FieldTable::new(),
            })
            .unwrap();
        assert_eq!(got_tag, tag);
        // move the Consume request to the wire, as the I/O loop would
        self.inner.handle_channel_readable(channel_id).unwrap();
        rx
    }

    /// The broker delivers one message (Deliver + header + optional body) to `tag`.
    fn deliver(&mut self, channel_id: u16, tag: &str, delivery_tag: u64, body: &[u8]) {
        self.recv_basic(
            channel_id,
            AmqpBasic::Deliver(Deliver {
                consumer_tag: tag.to_string(),
                delivery_tag,
                redelivered: false,
                exchange: String::new(),
                routing_key: "q".to_string(),
            }),
        );
        self.recv(AMQPFrame::Header(
            channel_id,
            BASIC_CLASS_ID,
            Box::new(AMQPContentHeader {
                class_id: BASIC_CLASS_ID,
                weight: 0,
                body_size: body.len() as u64,
                properties: AMQPProperties::default(),
            }),
        ));
        if !body.is_empty() {
            self.recv(AMQPFrame::Body(channel_id, body.to_vec()));
        }
    }

    fn server_cancel(&mut self, channel_id: u16, tag: &str, nowait: bool) {
        self.recv_basic(
            channel_id,
            AmqpBasic::Cancel(Cancel {
                consumer_tag: tag.to_string(),
                nowait,
            }),
        );
    }

    fn cancel_ok(&mut self, channel_id: u16, tag: &str) {
        self.recv_basic(
            channel_id,
            AmqpBasic::CancelOk(CancelOk {
                consumer_tag: tag.to_string(),
            }),
        );
    }

    /// Frames the client has queued for the broker since the last call.
    fn sent(&mut self) -> Vec<AMQPFrame> {
        let mut frames = Vec::new();
        {
            let mut bytes = &self.inner.outbuf[0..];
            while !bytes.is_empty() {
                let (rest, frame) = parse_frame(bytes).expect("client wrote a malformed frame");
                frames.push(frame);
                bytes = rest;
            }
        }
        self.inner.outbuf.clear();
        frames
    }
}

/// Everything currently in the queue, and whether the queue is disconnected behind it.
fn content(rx: &CrossbeamReceiver<ConsumerMessage>) -> (Vec<String>, bool) {
    let mut seen = Vec::new();
    loop {
        match rx.try_recv() {
            Ok(ConsumerMessage::Delivery(d)) => seen.push(format!("delivery {}", d.delivery_tag())),
            Ok(other) => seen.push(format!("{:?}", other)),
            Err(CbTryRecvError::Empty) => return (seen, false),
            Err(CbTryRecvError::Disconnected) => return (seen, true),
        }
    }
}

fn strs(v: &[&str]) -> Vec<String> {
    v.iter().map(|s| s.to_string()).collect()
}

fn cancel_ok_frame(channel_id: u16, tag: &str) -> AMQPFrame {
    AMQPFrame::Method(
        channel_id,
        AMQPClass::Basic(AmqpBasic::CancelOk(CancelOk {
            consumer_tag: tag.to_string(),
        })),
    )
}

// ---------------------------------------------------------------------------------------------
// Controls: these pass with or without the change.
// ---------------------------------------------------------------------------------------------

/// Server cancel of a consumer that never got a delivery: ServerCancelled, then disconnected,
/// and the cancel is answered with CancelOk.
#[test]
fn control_server_cancel_of_idle_consumer() {
    let mut b = Broker::new();
    b.open_channel(1);
    let rx = b.consume(1, "ctag-a");
    b.sent();

    b.server_cancel(1, "ctag-a", false);

    assert_eq!(content(&rx), (strs(&["ServerCancelled"]), true));
    assert_eq!(b.sent(), vec![cancel_ok_frame(1, "ctag-a")]);
}

/// Client cancel: deliveries between the request and CancelOk still arrive, then
/// ClientCancelled, then disconnected.
#[test]
fn control_client_cancel_after_deliveries() {
    let mut b = Broker::new();
    b.open_channel(1);
    let rx = b.consume(1, "ctag-a");
    b.deliver(1, "ctag-a", 1, b"one");
    b.deliver(1, "ctag-a", 2, b"");
    // (the client's Basic.Cancel is in flight here)
    b.deliver(1, "ctag-a", 3, b"three");
    b.cancel_ok(1, "ctag-a");

    assert_eq!(
        content(&rx),
        (
            strs(&["delivery 1", "delivery 2", "delivery 3", "ClientCancelled"]),
            true
        )
    );
}

/// Server cancel of a consumer that did receive deliveries, but another consumer on the same
/// channel received one after it.
#[test]
fn control_server_cancel_when_another_consumer_got_the_last_delivery() {
    let mut b = Broker::new();
    b.open_channel(1);
    let rx_a = b.consume(1, "ctag-a");
    let rx_b = b.consume(1, "ctag-b");
    b.deliver(1, "ctag-a", 1, b"for a");
    b.deliver(1, "ctag-b", 2, b"for b");
    b.sent();

    b.server_cancel(1, "ctag-a", false);

    assert_eq!(content(&rx_a), (strs(&["delivery 1", "ServerCancelled"]), true));
    assert_eq!(content(&rx_b), (strs(&["delivery 2"]), false));
    assert_eq!(b.sent(), vec![cancel_ok_frame(1, "ctag-a")]);
}

/// Server closes the channel right after a delivery: ServerClosedChannel, then disconnected.
#[test]
fn control_server_channel_close_after_delivery() {
    let mut b = Broker::new();
    b.open_channel(1);
    let rx = b.consume(1, "ctag-a");
    b.deliver(1, "ctag-a", 1, b"one");
    b.recv(AMQPFrame::Method(
        1,
        AMQPClass::Channel(AmqpChannel::Close(ChannelClose {
            reply_code: 404,
            reply_text: "NOT_FOUND".to_string(),
            class_id: 0,
            method_id: 0,
        })),
    ));

    let (seen, disconnected) = content(&rx);
    assert_eq!(seen.len(), 2);
    assert_eq!(seen[0], "delivery 1");
    assert!(seen[1].starts_with("ServerClosedChannel"), "{:?}", seen);
    assert!(disconnected);
}

// ---------------------------------------------------------------------------------------------
// The demonstrations: these pass on the unmodified library and fail with the change.
// ---------------------------------------------------------------------------------------------

/// Server cancel (e.g. the queue was deleted) of the consumer that received the most recent
/// delivery on its channel: the queue must carry the delivery, then ServerCancelled, and must
/// then be disconnected - `for m in consumer.receiver().iter()` has to end.
#[test]
fn server_cancel_of_most_recently_served_consumer_disconnects_queue() {
    let mut b = Broker::new();
    b.open_channel(1);
    let rx = b.consume(1, "ctag-a");
    b.deliver(1, "ctag-a", 1, b"one");
    b.sent();

    b.server_cancel(1, "ctag-a", false);

    assert_eq!(b.sent(), vec![cancel_ok_frame(1, "ctag-a")]);
    let (seen, disconnected) = content(&rx);
    assert_eq!(seen, strs(&["delivery 1", "ServerCancelled"]));
    assert!(
        disconnected,
        "queue still connected after its terminal message ServerCancelled"
    );
}

/// Same, with the nowait flavour of the server's cancel, a second channel that is busy with its
/// own consumer, and an idle second consumer on the same channel.
#[test]
fn server_cancel_nowait_with_other_channels_and_consumers() {
    let mut b = Broker::new();
    b.open_channel(1);
    b.open_channel(2);
    let rx_a = b.consume(1, "ctag-a");
    let rx_idle = b.consume(1, "ctag-idle");
    let rx_other = b.consume(2, "ctag-a"); // tags are per channel
    b.deliver(1, "ctag-a", 1, b"");
    b.deliver(2, "ctag-a", 1, b"other channel");
    b.sent();

    b.server_cancel(1, "ctag-a", true);

    assert_eq!(b.sent(), vec![]); // nowait: no CancelOk
    assert_eq!(content(&rx_idle), (vec![], false));
    assert_eq!(content(&rx_other), (strs(&["delivery 1"]), false));
    let (seen, disconnected) = content(&rx_a);
    assert_eq!(seen, strs(&["delivery 1", "ServerCancelled"]));
    assert!(
        disconnected,
        "queue still connected after its terminal message ServerCancelled"
    );
}

// ---------------------------------------------------------------------------------------------
// The same thing seen through the public API: a real Connection / Channel / Consumer talking over
// a loopback socket to a scripted broker thread. Time-outs are only there so that a failure fails
// instead of hanging; on the passing path nothing waits for the clock.
// ---------------------------------------------------------------------------------------------
mod end_to_end {
    use crate::serialize::OutputBuffer;
    use crate::{
        Auth, Connection, ConnectionOptions, ConnectionTuning, ConsumerMessage, ConsumerOptions,
        FieldTable,
    };
    use amq_protocol::frame::{parse_frame, AMQPFrame};
    use amq_protocol::protocol::basic::AMQPMethod as AmqpBasic;
    use amq_protocol::protocol::basic::{AMQPProperties, Cancel, ConsumeOk, Deliver};
    use amq_protocol::protocol::channel::AMQPMethod as AmqpChannel;
    use amq_protocol::protocol::channel::OpenOk as ChannelOpenOk;
    use amq_protocol::protocol::connection::AMQPMethod as AmqpConnection;
    use amq_protocol::protocol::connection::{OpenOk, Start, Tune};
    use amq_protocol::protocol::AMQPClass;
    use crossbeam_channel::RecvTimeoutError;
    use std::io::{Read, Write};
    use std::net::{TcpListener, TcpStream};
    use std::time::Duration;

    const LONG: Duration = Duration::from_secs(20);
    const TAG: &str = "amq.ctag-demo";

    fn read_frame(sock: &mut TcpStream) -> AMQPFrame {
        let mut head = [0u8; 7];
        sock.read_exact(&mut head).expect("broker: read frame header");
        let size = u32::from_be_bytes([head[3], head[4], head[5], head[6]]) as usize;
        let mut all = head.to_vec();
        all.resize(7 + size + 1, 0);
        sock.read_exact(&mut all[7..]).expect("broker: read frame");
        let (_, frame) = parse_frame(&all).expect("broker: parse frame");
        frame
    }

    fn write(sock: &mut TcpStream, buf: OutputBuffer) {
        sock.write_all(&buf[0..]).expect("broker: write");
    }

    fn method<M: crate::serialize::IntoAmqpClass>(sock: &mut TcpStream, channel_id: u16, m: M) {
        let mut buf = OutputBuffer::empty();
        buf.push_method(channel_id, m);
        write(sock, buf);
    }

    /// Scripted broker: handshake, channel 1, one consumer, optionally one delivery, then a
    /// server-side cancel (as when the queue is deleted). Reports the client's answer.
    fn broker(
        listener: TcpListener,
        deliver_first: bool,
        answer_tx: crossbeam_channel::Sender<AMQPFrame>,
        done_rx: crossbeam_channel::Receiver<()>,
    ) {
        let (mut sock, _) = listener.accept().expect("broker: accept");
        sock.set_read_timeout(Some(LONG)).unwrap();
        let mut header = [0u8; 8];
        sock.read_exact(&mut header).expect("broker: protocol header");
        assert_eq!(&header, b"AMQP\x00\x00\x09\x01");
        method(
            &mut sock,
            0,
            AmqpConnection::Start(Start {
                version_major: 0,
                version_minor: 9,
                server_properties: FieldTable::new(),
                mechanisms: "PLAIN".to_string(),
                locales: "en_US".to_string(),
            }),
        );
        let _start_ok = read_frame(&mut sock);
        method(
            &mut sock,
            0,
            AmqpConnection::Tune(Tune {
                channel_max: 16,
                frame_max: 131_072,
                heartbeat: 0,
            }),
        );
        let _tune_ok = read_frame(&mut sock);
        let _open = read_frame(&mut sock);
        method(
            &mut sock,
            0,
            AmqpConnection::OpenOk(OpenOk {
                known_hosts: String::new(),
            }),
        );
        let _channel_open = read_frame(&mut sock);
        method(
            &mut sock,
            1,
            AmqpChannel::OpenOk(ChannelOpenOk {
                channel_id: String::new(),
            }),
        );
        let _consume = read_frame(&mut sock);
        method(
            &mut sock,
            1,
            AmqpBasic::ConsumeOk(ConsumeOk {
                consumer_tag: TAG.to_string(),
            }),
        );
        if deliver_first {
            let body = b"hello";
            let mut buf = OutputBuffer::empty();
            buf.push_method(
                1,
                AmqpBasic::Deliver(Deliver {
                    consumer_tag: TAG.to_string(),
                    delivery_tag: 1,
                    redelivered: false,
                    exchange: String::new(),
                    routing_key: "q".to_string(),
                }),
            );
            buf.push_content_header(1, 60, body.len(), &AMQPProperties::default());
            buf.push_content_body(1, body);
            write(&mut sock, buf);
        }
        method(
            &mut sock,
            1,
            AmqpBasic::Cancel(Cancel {
                consumer_tag: TAG.to_string(),
                nowait: false,
            }),
        );
        let _ = answer_tx.send(read_frame(&mut sock));
        // keep the connection up until the test has looked at the consumer's queue
        let _ = done_rx.recv_timeout(LONG);
    }

    fn run(deliver_first: bool) {
        let listener = TcpListener::bind("127.0.0.1:0").unwrap();
        let addr = listener.local_addr().unwrap();
        let (answer_tx, answer_rx) = crossbeam_channel::bounded(1);
        let (done_tx, done_rx) = crossbeam_channel::bounded::<()>(1);
        let broker_thread =
            std::thread::spawn(move || broker(listener, deliver_first, answer_tx, done_rx));

        let stream = mio::net::TcpStream::connect(&addr).unwrap();
        let mut conn = Connection::insecure_open_stream(
            stream,
            ConnectionOptions::<Auth>::default(),
            ConnectionTuning::default(),
        )
        .unwrap();
        let chan = conn.open_channel(Some(1)).unwrap();
        let consumer = chan.basic_consume("q", ConsumerOptions::default()).unwrap();
        assert_eq!(consumer.consumer_tag(), TAG);
        let rx = consumer.receiver().clone();
        // Dropping these would talk to the (scripted) broker and block; leak them instead.
        std::mem::forget(consumer);
        std::mem::forget(chan);
        std::mem::forget(conn);

        if deliver_first {
            match rx.recv_timeout(LONG) {
                Ok(ConsumerMessage::Delivery(d)) => assert_eq!(d.body, b"hello"),
                other => panic!("expected the delivery, got {:?}", other),
            }
        }
        match rx.recv_timeout(LONG) {
            Ok(ConsumerMessage::ServerCancelled) => (),
            other => panic!("expected ServerCancelled, got {:?}", other),
        }
        // the server's cancel is answered
        match answer_rx.recv_timeout(LONG) {
            Ok(AMQPFrame::Method(1, AMQPClass::Basic(AmqpBasic::CancelOk(ok)))) => {
                assert_eq!(ok.consumer_tag, TAG)
            }
            other => panic!("expected CancelOk at the broker, got {:?}", other),
        }
        // ... and the queue ends: this is what terminates `for m in consumer.receiver().iter()`
        let after = rx.recv_timeout(Duration::from_secs(3));
        let _ = done_tx.send(());
        let _ = broker_thread.join();
        match after {
            Err(RecvTimeoutError::Disconnected) => (),
            other => panic!(
                "queue must be disconnected after ServerCancelled, but got {:?}",
                other
            ),
        }
    }

    /// Control: passes with or without the change.
    #[test]
    fn control_server_cancel_before_any_delivery() {
        run(false);
    }

    /// Passes on the unmodified library, fails with the change.
    #[test]
    fn server_cancel_right_after_a_delivery_ends_the_queue() {
        run(true);
    }
}
