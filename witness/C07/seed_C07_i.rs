//@host src/io_loop/mod.rs
// witness scenario from seeded change C07-i (independent sub-agent demonstration); passes on the unchanged tree
//! Demonstration for property C07 (server protocol violations are contained).
//!
//! Drives the real `ConnectionState::process` with frames a server could send, on a real `Inner`
//! with a real channel slot, and observes what the consumer side (the `Receiver` handed over with
//! `ConsumeOk`, i.e. what `Consumer::receiver()` exposes) gets to see. No threads, no sockets, no
//! clocks: every receive is a `try_recv`, except the one inside `IoLoopHandle::consume`, which is
//! only called once the answer is known to be queued.
//!
//! The rule under test: a `Basic.Deliver` naming a consumer tag that is not (or no longer)
//! registered on the channel is a protocol violation. It has to end the connection with
//! `Error::UnknownConsumerTag`, and the message must not be handed to anybody - in particular
//! not to a consumer that has already been told it was cancelled, and not to the previous owner
//! of a tag that has since been given to a new consumer.

use super::connection_state::ConnectionState;
use super::heartbeat_timers::HeartbeatTimers;
use super::io_loop_handle::{IoLoopHandle, IoLoopHandle0};
use super::{Channel0Slot, ChannelSlot, Inner};
use crate::errors::*;
use crate::{AmqpProperties, ConsumerMessage, FieldTable};
use amq_protocol::frame::{AMQPContentHeader, AMQPFrame};
use amq_protocol::protocol::basic::AMQPMethod as AmqpBasic;
use amq_protocol::protocol::basic::{Cancel, CancelOk, Consume, ConsumeOk, Deliver};
use amq_protocol::protocol::AMQPClass;
use crossbeam_channel::{Receiver, TryRecvError};

const CHANNEL: u16 = 1;
const BASIC_CLASS_ID: u16 = 60;

struct Rig {
    state: ConnectionState,
    inner: Inner,
    handle: IoLoopHandle,
    // kept alive so that the I/O side never sees its channel-0 client as gone
    _handle0: IoLoopHandle0,
}

impl Rig {
    /// A connection in the Steady state with channel 1 open.
    fn new() -> Rig {
        let (ch0_slot, handle0) = Channel0Slot::new(16);
        let mut inner = Inner::new(HeartbeatTimers::default(), 16);
        inner.chan_slots.set_channel_max(8);
        let handle = inner
            .chan_slots
            .insert(Some(CHANNEL), |id| Ok(ChannelSlot::new(16, id)))
            .expect("could not open channel 1");
        Rig {
            state: ConnectionState::Steady(ch0_slot),
            inner,
            handle,
            _handle0: handle0,
        }
    }

    /// Feed one frame "from the server" to the connection state machine.
    fn server(&mut self, frame: AMQPFrame) -> Result<()> {
        self.state.process(&mut self.inner, frame)
    }

    fn basic(&mut self, method: AmqpBasic) -> Result<()> {
        self.server(AMQPFrame::Method(CHANNEL, AMQPClass::Basic(method)))
    }

    /// The server's `ConsumeOk` for `tag`, followed by the client picking it up exactly the way
    /// `Channel::basic_consume` does. Returns what ends up inside the `Consumer`.
    fn consume(&mut self, tag: &str) -> Receiver<ConsumerMessage> {
        self.basic(AmqpBasic::ConsumeOk(ConsumeOk {
            consumer_tag: tag.to_string(),
        }))
        .expect("ConsumeOk for a fresh tag must be accepted");
        let (got_tag, rx) = self
            .handle
            .consume(Consume {
                ticket: 0,
                queue: "q".to_string(),
                consumer_tag: String::new(),
                no_local: false,
                no_ack: true,
                exclusive: false,
                nowait: false,
                arguments: FieldTable::new(),
            })
            .expect("client side of consume failed");
        assert_eq!(got_tag, tag);
        rx
    }

    /// Deliver + header + one body frame for `tag`. Returns the result of the first frame that
    /// fails, or of the last one.
    fn deliver(&mut self, tag: &str, delivery_tag: u64, body: &[u8]) -> Result<()> {
        self.basic(AmqpBasic::Deliver(Deliver {
            consumer_tag: tag.to_string(),
            delivery_tag,
            redelivered: false,
            exchange: "ex".to_string(),
            routing_key: "rk".to_string(),
        }))?;
        self.server(AMQPFrame::Header(
            CHANNEL,
            BASIC_CLASS_ID,
            Box::new(AMQPContentHeader {
                class_id: BASIC_CLASS_ID,
                weight: 0,
                body_size: body.len() as u64,
                properties: AmqpProperties::default(),
            }),
        ))?;
        if body.is_empty() {
            return Ok(());
        }
        self.server(AMQPFrame::Body(CHANNEL, body.to_vec()))
    }

    fn server_cancels(&mut self, tag: &str) {
        self.basic(AmqpBasic::Cancel(Cancel {
            consumer_tag: tag.to_string(),
            nowait: false,
        }))
        .expect("server-initiated cancel must be accepted");
    }

    fn server_confirms_client_cancel(&mut self, tag: &str) {
        self.basic(AmqpBasic::CancelOk(CancelOk {
            consumer_tag: tag.to_string(),
        }))
        .expect("CancelOk must be accepted");
    }
}

/// Everything currently queued for a consumer, rendered for comparison: bodies of deliveries,
/// names of the other notifications, and "<disconnected>" if the I/O side dropped its sender.
fn drain(rx: &Receiver<ConsumerMessage>) -> Vec<String> {
    let mut seen = Vec::new();
    loop {
        match rx.try_recv() {
            Ok(ConsumerMessage::Delivery(delivery)) => seen.push(format!(
                "delivery #{} {:?}",
                delivery.delivery_tag(),
                String::from_utf8_lossy(&delivery.body)
            )),
            Ok(other) => seen.push(format!("{:?}", other)),
            Err(TryRecvError::Empty) => return seen,
            Err(TryRecvError::Disconnected) => {
                seen.push("<disconnected>".to_string());
                return seen;
            }
        }
    }
}

fn assert_unknown_tag(result: Result<()>, tag: &str) {
    match result {
        Err(Error::UnknownConsumerTag {
            channel_id,
            consumer_tag,
        }) => {
            assert_eq!(channel_id, CHANNEL);
            assert_eq!(consumer_tag, tag);
        }
        Err(other) => panic!("expected UnknownConsumerTag, got error {:?}", other),
        Ok(()) => panic!(
            "a delivery for consumer tag {:?}, which is not registered on the channel, was \
             accepted instead of ending the connection with UnknownConsumerTag",
            tag
        ),
    }
}

// ---------------------------------------------------------------------------------------------
// Controls: these hold with and without the change.
// ---------------------------------------------------------------------------------------------

#[test]
fn control_deliveries_reach_their_consumer_in_order() {
    let mut rig = Rig::new();
    let a = rig.consume("tag-a");
    let b = rig.consume("tag-b");
    rig.deliver("tag-a", 1, b"one").unwrap();
    rig.deliver("tag-b", 2, b"two").unwrap();
    rig.deliver("tag-a", 3, b"").unwrap();
    rig.deliver("tag-a", 4, b"four").unwrap();
    assert_eq!(
        drain(&a),
        vec![
            "delivery #1 \"one\"",
            "delivery #3 \"\"",
            "delivery #4 \"four\""
        ]
    );
    assert_eq!(drain(&b), vec!["delivery #2 \"two\""]);
}

#[test]
fn control_delivery_for_never_registered_tag_is_rejected() {
    let mut rig = Rig::new();
    let a = rig.consume("tag-a");
    rig.deliver("tag-a", 1, b"one").unwrap();
    assert_unknown_tag(rig.deliver("tag-x", 2, b"two"), "tag-x");
    assert_eq!(drain(&a), vec!["delivery #1 \"one\""]);
}

#[test]
fn control_delivery_after_client_cancel_is_rejected() {
    let mut rig = Rig::new();
    let a = rig.consume("tag-a");
    rig.deliver("tag-a", 1, b"one").unwrap();
    rig.server_confirms_client_cancel("tag-a");
    assert_unknown_tag(rig.deliver("tag-a", 2, b"two"), "tag-a");
    assert_eq!(
        drain(&a),
        vec!["delivery #1 \"one\"", "ClientCancelled", "<disconnected>"]
    );
}

#[test]
fn control_delivery_after_server_cancel_of_idle_consumer_is_rejected() {
    // same as the failing case below, except that the consumer never received anything
    let mut rig = Rig::new();
    let a = rig.consume("tag-a");
    rig.server_cancels("tag-a");
    assert_unknown_tag(rig.deliver("tag-a", 1, b"one"), "tag-a");
    assert_eq!(drain(&a), vec!["ServerCancelled", "<disconnected>"]);
}

// ---------------------------------------------------------------------------------------------
// The property: these hold on the unmodified library only.
// ---------------------------------------------------------------------------------------------

#[test]
fn delivery_after_server_cancel_is_rejected() {
    let mut rig = Rig::new();
    let a = rig.consume("tag-a");
    rig.deliver("tag-a", 1, b"one").unwrap();
    rig.server_cancels("tag-a");

    // the consumer is gone: this Deliver is a protocol violation
    let result = rig.deliver("tag-a", 2, b"two");
    let seen = drain(&a);
    assert_unknown_tag(result, "tag-a");
    // ... and the consumer, which was told it is cancelled, sees nothing after that
    assert_eq!(
        seen,
        vec!["delivery #1 \"one\"", "ServerCancelled", "<disconnected>"]
    );
}

#[test]
fn delivery_for_reused_tag_goes_to_the_new_consumer() {
    let mut rig = Rig::new();
    let old = rig.consume("tag-a");
    rig.deliver("tag-a", 1, b"for the old consumer").unwrap();
    rig.server_cancels("tag-a");

    // the tag is free again; the server hands it to a second consumer
    let new = rig.consume("tag-a");
    rig.deliver("tag-a", 2, b"for the new consumer").unwrap();

    assert_eq!(
        drain(&new),
        vec!["delivery #2 \"for the new consumer\""],
        "the consumer that owns tag-a now did not get its message"
    );
    assert_eq!(
        drain(&old),
        vec![
            "delivery #1 \"for the old consumer\"",
            "ServerCancelled",
            "<disconnected>"
        ],
        "the cancelled consumer got a message that was not addressed to it"
    );
}
