//@host src/io_loop/mod.rs
// witness scenario from seeded change C07-f (independent sub-agent demonstration); passes on the unchanged tree
//! Demonstration for seed C07f.
//!
//! Property C07: a server protocol violation never panics the I/O thread; methods that only a
//! client may send, or that belong to an unimplemented class, end the connection with a
//! Connection.Close carrying the matching hard-error code (530 / 540) as the last frame sent, and
//! with `Error::ClientException`.
//!
//! The reply-text of that Close quotes the offending method in its `Debug` form, i.e. it embeds
//! the strings the server put into the method, and `Debug` leaves printable non-ASCII characters
//! as they are. The tests below send client-only / unimplemented methods whose strings are long
//! and not ASCII, at every alignment relative to byte 255 of the reply-text.
//!
//! * `control_*` tests pass with and without the seeded change.
//! * `non_ascii_*` tests pass on the unmodified library and fail with the seeded change (the I/O
//!   thread panics in `String::truncate`).

use super::{Channel0Slot, ConnectionState, HeartbeatTimers, Inner, IoLoopHandle0};
use crate::{Auth, Connection, ConnectionOptions, ConnectionTuning, Error};
use amq_protocol::frame::generation::gen_method_frame;
use amq_protocol::frame::{parse_frame, AMQPFrame};
use amq_protocol::protocol::access::AMQPMethod as AmqpAccess;
use amq_protocol::protocol::access::Request as AccessRequest;
use amq_protocol::protocol::basic::AMQPMethod as AmqpBasic;
use amq_protocol::protocol::basic::Publish;
use amq_protocol::protocol::connection::AMQPMethod as AmqpConnection;
use amq_protocol::protocol::connection::{OpenOk, Start, Tune};
use amq_protocol::protocol::AMQPClass;
use amq_protocol::types::FieldTable;
use std::io::{Read, Write};
use std::net::{TcpListener, TcpStream};
use std::panic::{catch_unwind, AssertUnwindSafe};
use std::sync::mpsc;
use std::thread;
use std::time::Duration;

const NOT_ALLOWED: u16 = 530;
const NOT_IMPLEMENTED: u16 = 540;

// ---------------------------------------------------------------------------------------------
// frames
// ---------------------------------------------------------------------------------------------

/// Basic.Publish is a method only a client may send. `exchange` is a shortstr (<= 255 bytes).
fn publish(channel_id: u16, exchange: String) -> AMQPFrame {
    assert!(exchange.len() <= 255);
    AMQPFrame::Method(
        channel_id,
        AMQPClass::Basic(AmqpBasic::Publish(Publish {
            ticket: 0,
            exchange,
            routing_key: "rk".to_string(),
            mandatory: false,
            immediate: false,
        })),
    )
}

/// The Access class is not implemented by the client. `realm` is a shortstr (<= 255 bytes).
fn access_request(channel_id: u16, realm: String) -> AMQPFrame {
    assert!(realm.len() <= 255);
    AMQPFrame::Method(
        channel_id,
        AMQPClass::Access(AmqpAccess::Request(AccessRequest {
            realm,
            exclusive: false,
            passive: false,
            active: false,
            write: false,
            read: false,
        })),
    )
}

/// `pad` ASCII characters followed by `n` copies of `ch`.
fn name(pad: usize, ch: char, n: usize) -> String {
    let mut s = "a".repeat(pad);
    for _ in 0..n {
        s.push(ch);
    }
    s
}

// ---------------------------------------------------------------------------------------------
// driving the connection state machine directly
// ---------------------------------------------------------------------------------------------

struct Machine {
    inner: Inner,
    state: ConnectionState,
    // keeps the client side of channel 0 alive
    _handle: IoLoopHandle0,
}

impl Machine {
    fn new() -> Machine {
        let inner = Inner::new(HeartbeatTimers::default(), 16);
        let (ch0_slot, handle) = Channel0Slot::new(16);
        Machine {
            inner,
            state: ConnectionState::Steady(ch0_slot),
            _handle: handle,
        }
    }

    /// Everything queued for the socket after the protocol header.
    fn written(&self) -> &[u8] {
        &self.inner.outbuf[8..]
    }
}

/// Checks of a serialized Connection.Close that do not depend on reply-text: exactly one frame,
/// method frame on channel 0, connection.close, the expected reply code, frame end octet.
fn assert_is_close_with_code(bytes: &[u8], code: u16, what: &str) {
    assert!(bytes.len() > 14, "{}: no Connection.Close queued", what);
    assert_eq!(bytes[0], 1, "{}: not a method frame", what);
    assert_eq!(&bytes[1..3], &[0, 0], "{}: not on channel 0", what);
    let size = u32::from_be_bytes([bytes[3], bytes[4], bytes[5], bytes[6]]) as usize;
    assert_eq!(bytes.len(), size + 8, "{}: more than one frame queued", what);
    assert_eq!(bytes[bytes.len() - 1], 0xCE, "{}: frame end", what);
    assert_eq!(&bytes[7..11], &[0, 10, 0, 50], "{}: not connection.close", what);
    let reply_code = u16::from_be_bytes([bytes[11], bytes[12]]);
    assert_eq!(reply_code, code, "{}: reply code", what);
}

/// Feeds one violating frame to a fresh connection in the Steady state and checks containment.
fn assert_contained(frame: AMQPFrame, code: u16, what: &str) {
    let mut m = Machine::new();
    let outcome = catch_unwind(AssertUnwindSafe(|| m.state.process(&mut m.inner, frame)));
    let result = match outcome {
        Ok(result) => result,
        Err(_) => panic!("{}: the connection state machine panicked", what),
    };
    assert!(result.is_ok(), "{}: process failed: {:?}", what, result);
    match m.state {
        ConnectionState::ClientException => (),
        _ => panic!("{}: not in the ClientException state", what),
    }
    assert!(m.inner.are_writes_sealed(), "{}: writes not sealed", what);
    assert_is_close_with_code(m.written(), code, what);

    // later frames are ignored and nothing is written behind the Close
    let len = m.written().len();
    m.state
        .process(&mut m.inner, AMQPFrame::Heartbeat(0))
        .unwrap();
    m.state
        .process(&mut m.inner, publish(1, "x".to_string()))
        .unwrap();
    assert_eq!(m.written().len(), len, "{}: wrote behind the Close", what);
}

#[test]
fn control_short_texts() {
    assert_contained(publish(1, "amq.direct".to_string()), NOT_ALLOWED, "publish");
    assert_contained(publish(1, name(0, 'é', 20)), NOT_ALLOWED, "publish é");
    assert_contained(access_request(1, "/data".to_string()), NOT_IMPLEMENTED, "access");
    assert_contained(access_request(0, name(0, '日', 10)), NOT_IMPLEMENTED, "access ch0");

    // with a short text the whole Close can be parsed back
    let mut m = Machine::new();
    m.state
        .process(&mut m.inner, publish(7, "amq.direct".to_string()))
        .unwrap();
    match parse_frame(m.written()) {
        Ok((rest, AMQPFrame::Method(0, AMQPClass::Connection(AmqpConnection::Close(close))))) => {
            assert!(rest.is_empty());
            assert_eq!(close.reply_code, NOT_ALLOWED);
            assert!(close.reply_text.contains("amq.direct"));
        }
        other => panic!("unexpected {:?}", other),
    }
}

#[test]
fn control_long_ascii_texts() {
    for pad in 0..4 {
        assert_contained(publish(1, name(pad, 'x', 250)), NOT_ALLOWED, "publish");
        assert_contained(access_request(1, name(pad, 'x', 250)), NOT_IMPLEMENTED, "access");
        assert_contained(access_request(0, name(pad, 'x', 250)), NOT_IMPLEMENTED, "access ch0");
    }
}

#[test]
fn non_ascii_exchange_in_client_only_method() {
    // 2-byte characters: byte 255 of the reply-text falls inside a character for every other pad
    for pad in 0..2 {
        let what = format!("publish, 2-byte characters, pad {}", pad);
        assert_contained(publish(1, name(pad, 'é', 120)), NOT_ALLOWED, &what);
    }
    // 3-byte characters: two out of three pads
    for pad in 0..3 {
        let what = format!("publish, 3-byte characters, pad {}", pad);
        assert_contained(publish(1, name(pad, '日', 80)), NOT_ALLOWED, &what);
    }
}

#[test]
fn non_ascii_realm_in_unimplemented_class() {
    for pad in 0..3 {
        let what = format!("access.request on channel 3, pad {}", pad);
        assert_contained(access_request(3, name(pad, '日', 80)), NOT_IMPLEMENTED, &what);
        let what = format!("access.request on channel 0, pad {}", pad);
        assert_contained(access_request(0, name(pad, '日', 80)), NOT_IMPLEMENTED, &what);
    }
}

// ---------------------------------------------------------------------------------------------
// end to end: a scripted server on a loopback socket, the real I/O thread, the public API
// ---------------------------------------------------------------------------------------------

fn serialize(frame: &AMQPFrame) -> Vec<u8> {
    let (channel_id, class) = match frame {
        AMQPFrame::Method(channel_id, class) => (*channel_id, class),
        _ => unreachable!(),
    };
    let mut buf = vec![0u8; 16 * 1024];
    let end = {
        let (_, end) = gen_method_frame((&mut buf[..], 0), channel_id, class).unwrap();
        end
    };
    buf.truncate(end);
    buf
}

fn read_frame(stream: &mut TcpStream) -> std::io::Result<Vec<u8>> {
    let mut frame = vec![0u8; 7];
    stream.read_exact(&mut frame)?;
    let size = u32::from_be_bytes([frame[3], frame[4], frame[5], frame[6]]) as usize;
    let mut rest = vec![0u8; size + 1];
    stream.read_exact(&mut rest)?;
    frame.extend_from_slice(&rest);
    Ok(frame)
}

/// Handshake, then `violation`, then collect what the client writes until it closes the socket.
fn scripted_server(listener: TcpListener, violation: AMQPFrame) -> Vec<Vec<u8>> {
    let (mut stream, _) = listener.accept().unwrap();
    stream
        .set_read_timeout(Some(Duration::from_secs(10)))
        .unwrap();
    let mut header = [0u8; 8];
    stream.read_exact(&mut header).unwrap();
    assert_eq!(&header, b"AMQP\x00\x00\x09\x01");

    let start = AMQPFrame::Method(
        0,
        AMQPClass::Connection(AmqpConnection::Start(Start {
            version_major: 0,
            version_minor: 9,
            server_properties: FieldTable::new(),
            mechanisms: "PLAIN".to_string(),
            locales: "en_US".to_string(),
        })),
    );
    stream.write_all(&serialize(&start)).unwrap();
    read_frame(&mut stream).unwrap(); // start-ok

    let tune = AMQPFrame::Method(
        0,
        AMQPClass::Connection(AmqpConnection::Tune(Tune {
            channel_max: 16,
            frame_max: 1 << 17,
            heartbeat: 0,
        })),
    );
    stream.write_all(&serialize(&tune)).unwrap();
    read_frame(&mut stream).unwrap(); // tune-ok
    read_frame(&mut stream).unwrap(); // open

    let open_ok = AMQPFrame::Method(
        0,
        AMQPClass::Connection(AmqpConnection::OpenOk(OpenOk {
            known_hosts: String::new(),
        })),
    );
    stream.write_all(&serialize(&open_ok)).unwrap();

    stream.write_all(&serialize(&violation)).unwrap();

    let mut frames = Vec::new();
    while let Ok(frame) = read_frame(&mut stream) {
        frames.push(frame);
    }
    frames
}

/// Returns the result of `Connection::close` and the frames the client wrote after the handshake.
fn end_to_end(violation: AMQPFrame) -> (crate::Result<()>, Vec<Vec<u8>>) {
    let (done_tx, done_rx) = mpsc::channel();
    thread::spawn(move || {
        let listener = TcpListener::bind("127.0.0.1:0").unwrap();
        let addr = listener.local_addr().unwrap();
        let server = thread::spawn(move || scripted_server(listener, violation));

        let stream = mio::net::TcpStream::connect(&addr).unwrap();
        let connection = Connection::insecure_open_stream(
            stream,
            ConnectionOptions::<Auth>::default(),
            ConnectionTuning::default(),
        )
        .unwrap();

        // the server returns once the I/O thread has dropped the socket
        let frames = server.join().unwrap();
        let close_result = connection.close();
        let _ = done_tx.send((close_result, frames));
    });
    done_rx
        .recv_timeout(Duration::from_secs(30))
        .expect("end-to-end scenario did not finish")
}

fn assert_contained_end_to_end(violation: AMQPFrame, code: u16, what: &str) {
    let (close_result, frames) = end_to_end(violation);
    match close_result {
        Err(Error::ClientException) => (),
        other => panic!(
            "{}: Connection::close returned {:?} instead of ClientException",
            what, other
        ),
    }
    let last = frames.last().expect("client wrote nothing");
    assert_is_close_with_code(last, code, what);
}

#[test]
fn control_end_to_end_short_text() {
    assert_contained_end_to_end(publish(1, "amq.direct".to_string()), NOT_ALLOWED, "publish");
}

#[test]
fn non_ascii_end_to_end() {
    for pad in 0..3 {
        let what = format!("publish, 3-byte characters, pad {}", pad);
        assert_contained_end_to_end(publish(1, name(pad, '日', 80)), NOT_ALLOWED, &what);
    }
}
