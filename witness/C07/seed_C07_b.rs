//@host src/io_loop/mod.rs
// witness scenario from seeded change C07-b (independent sub-agent demonstration); passes on the unchanged tree
// Demonstration for seeded change C07b.
//
// Wire with `#[cfg(test)] mod seed_demo_c07b;` in src/io_loop/mod.rs and run
//   CARGO_TARGET_DIR=/tmp/seed/C07b/target cargo test --offline --lib seed_demo_c07b
//
// A compliant server delivers one message whose announced body size is one byte more than
// 1 MiB, split into body frames of 128 KiB (RabbitMQ's default frame_max). A compliant reading
// of these frames yields exactly one message of 1 MiB + 1 bytes, completed by the last frame.

use super::content_collector::{CollectorResult, ContentCollector};
use crate::AmqpProperties;
use amq_protocol::frame::AMQPContentHeader;
use amq_protocol::protocol::basic::Deliver;

const FRAME: usize = 128 * 1024;

fn deliver() -> Deliver {
    Deliver {
        consumer_tag: "ctag".to_string(),
        delivery_tag: 1,
        redelivered: false,
        exchange: "".to_string(),
        routing_key: "rk".to_string(),
    }
}

fn header(body_size: u64) -> AMQPContentHeader {
    AMQPContentHeader {
        class_id: 60,
        weight: 0,
        body_size,
        properties: AmqpProperties::default(),
    }
}

/// Feeds `total` bytes (byte i has value i % 251) as Deliver + Header + 128 KiB body frames and
/// checks that nothing is delivered before the last frame and that the delivered body is exactly
/// the concatenation of the frames.
fn run(total: usize) {
    let payload: Vec<u8> = (0..total).map(|i| (i % 251) as u8).collect();
    let mut collector = ContentCollector::new(1);

    collector.collect_deliver(deliver()).expect("deliver accepted");
    match collector.collect_header(header(total as u64)) {
        Ok(None) => (),
        Ok(Some(_)) => panic!("non-empty content completed by its header"),
        Err(err) => panic!("header rejected: {}", err),
    }

    let chunks: Vec<&[u8]> = payload.chunks(FRAME).collect();
    let last = chunks.len() - 1;
    for (i, chunk) in chunks.iter().enumerate() {
        let received_before = i * FRAME;
        match collector.collect_body(chunk.to_vec()) {
            Ok(None) => assert!(
                i < last,
                "last body frame did not complete the message ({} bytes announced)",
                total
            ),
            Ok(Some(CollectorResult::Delivery((tag, delivery)))) => {
                assert_eq!(
                    i,
                    last,
                    "message of {} announced bytes delivered after only {} bytes (body frame {} of {})",
                    total,
                    received_before + chunk.len(),
                    i + 1,
                    chunks.len()
                );
                assert_eq!(tag, "ctag");
                assert_eq!(delivery.body.len(), total);
                assert!(delivery.body == payload, "delivered body differs from frames");
            }
            Ok(Some(_)) => panic!("delivery collected as a different kind of content"),
            Err(err) => panic!(
                "compliant body frame {} of {} rejected after {} bytes: {}",
                i + 1,
                chunks.len(),
                received_before,
                err
            ),
        }
    }
}

#[test]
fn body_of_exactly_one_mib_is_delivered_whole() {
    run(1024 * 1024);
}

#[test]
fn body_just_over_one_mib_is_delivered_whole() {
    run(1024 * 1024 + 1);
}

#[test]
fn body_of_three_mib_is_delivered_whole() {
    run(3 * 1024 * 1024);
}

#[test]
fn oversized_announcement_is_not_completed_by_the_preallocation_bound() {
    // The server announces far more than will ever arrive and then sends exactly 1 MiB in one
    // frame: a compliant reading is "message still incomplete", never a delivery.
    let mut collector = ContentCollector::new(1);
    collector.collect_deliver(deliver()).unwrap();
    assert!(collector.collect_header(header(u64::max_value())).unwrap().is_none());
    match collector.collect_body(vec![0u8; 1024 * 1024]) {
        Ok(None) => (),
        Ok(Some(_)) => panic!("message announced as u64::MAX bytes delivered after 1 MiB"),
        Err(err) => panic!("unexpected error: {}", err),
    }
}
