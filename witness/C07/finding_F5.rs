//@host src/io_loop/content_collector.rs
// F5 (C07): "any announced body size" must not panic the I/O thread. A content header announcing 2^63 bytes
// made State::collect_header call Vec::with_capacity(2^63) -> panic "capacity overflow".
use super::*;
use amq_protocol::protocol::basic::AMQPProperties;

#[test]
fn verif_demo_f5_huge_announced_body_size() {
    let mut c = ContentCollector::new(1);
    c.collect_deliver(Deliver {
        consumer_tag: "t".to_string(),
        delivery_tag: 1,
        redelivered: false,
        exchange: "".to_string(),
        routing_key: "k".to_string(),
    })
    .unwrap();
    let header = AMQPContentHeader {
        class_id: 60,
        weight: 0,
        body_size: 1u64 << 63,
        properties: AMQPProperties::default(),
    };
    // must not panic; the content is simply not complete yet
    match c.collect_header(header) {
        Ok(None) => (),
        Ok(Some(_)) => panic!("content reported complete"),
        Err(e) => panic!("unexpected error {}", e),
    }
    // and a first body frame is still accepted
    assert!(c.collect_body(vec![1, 2, 3]).unwrap().is_none());
}
