//@host src/io_loop/mod.rs
// witness scenario from seeded change C07-e (independent sub-agent demonstration); passes on the unchanged tree
//! C07e demonstration: a delivery is handed to the consumer that is registered under its tag
//! when the content completes, and to nobody else.
//!
//! The tests feed frames straight into the real `ConnectionState::process` (the function the I/O
//! thread calls for every frame read from the socket), with a real `Inner` and a real channel
//! slot. No sockets, no threads, no clocks.
//!
//! Scenario: the server starts a delivery for consumer tag "t" (basic.deliver + content header
//! announcing 3 body bytes), then - before the body frame - cancels consumer "t" on the same
//! channel (the client accepts non-content methods between content frames), then sends the body.
//!
//!  * `cancel_mid_content_*`: when the content completes, tag "t" is no longer known: the
//!    connection must end with `UnknownConsumerTag`, and the cancelled consumer must not see a
//!    delivery after its `ServerCancelled` / `ClientCancelled` notice.
//!  * `resubscribe_mid_content_goes_to_current_consumer`: if "t" is registered again
//!    (basic.consume-ok) before the body arrives, the message belongs to the consumer that holds
//!    the tag now, not to the cancelled one.
//!  * `control_*`: pass with and without the change.

use super::connection_state::ConnectionState;
use super::*;
use amq_protocol::frame::AMQPContentHeader;
use amq_protocol::protocol::basic::AMQPMethod as AmqpBasic;
use amq_protocol::protocol::basic::{AMQPProperties, Cancel, CancelOk, ConsumeOk, Deliver};

const CH: u16 = 1;

struct Rig {
    inner: Inner,
    state: ConnectionState,
    // what the channel's client handle would receive (consume-ok, cancel-ok, ...)
    ctl_rx: CrossbeamReceiver<Result<ChannelMessage>>,
    // keep the client ends alive so that the I/O side never sees a disconnected peer
    _handle0: IoLoopHandle0,
    _handle: IoLoopHandle,
}

fn rig() -> Rig {
    let mut inner = Inner::new(HeartbeatTimers::default(), 16);
    inner.chan_slots.set_channel_max(8);
    let (ch0_slot, handle0) = Channel0Slot::new(16);
    let (ctl_tx, ctl_rx) = crossbeam_channel::bounded(2);
    let handle = inner
        .chan_slots
        .insert(Some(CH), |id| {
            let (mut slot, handle) = ChannelSlot::new(16, id);
            slot.tx = ctl_tx;
            Ok((slot, handle))
        })
        .unwrap();
    Rig {
        inner,
        state: ConnectionState::Steady(ch0_slot),
        ctl_rx,
        _handle0: handle0,
        _handle: handle,
    }
}

impl Rig {
    fn feed(&mut self, frame: AMQPFrame) -> Result<()> {
        self.state.process(&mut self.inner, frame)
    }

    // basic.consume-ok for `tag`; returns the receiver the client's Consumer would hold
    fn consume_ok(&mut self, tag: &str) -> CrossbeamReceiver<ConsumerMessage> {
        self.feed(basic(AmqpBasic::ConsumeOk(ConsumeOk {
            consumer_tag: tag.to_string(),
        })))
        .unwrap();
        match self.ctl_rx.try_recv() {
            Ok(Ok(ChannelMessage::ConsumeOk(got, rx))) => {
                assert_eq!(got, tag);
                rx
            }
            _ => panic!("expected consume-ok for {} on the control channel", tag),
        }
    }
}

fn basic(method: AmqpBasic) -> AMQPFrame {
    AMQPFrame::Method(CH, AMQPClass::Basic(method))
}

fn deliver(tag: &str, delivery_tag: u64) -> AMQPFrame {
    basic(AmqpBasic::Deliver(Deliver {
        consumer_tag: tag.to_string(),
        delivery_tag,
        redelivered: false,
        exchange: "ex".to_string(),
        routing_key: "rk".to_string(),
    }))
}

fn header(body_size: u64) -> AMQPFrame {
    AMQPFrame::Header(
        CH,
        60,
        Box::new(AMQPContentHeader {
            class_id: 60,
            weight: 0,
            body_size,
            properties: AMQPProperties::default(),
        }),
    )
}

fn body(bytes: &[u8]) -> AMQPFrame {
    AMQPFrame::Body(CH, bytes.to_vec())
}

fn server_cancel(tag: &str) -> AMQPFrame {
    basic(AmqpBasic::Cancel(Cancel {
        consumer_tag: tag.to_string(),
        nowait: true,
    }))
}

fn expect_delivery(rx: &CrossbeamReceiver<ConsumerMessage>, delivery_tag: u64, body: &[u8]) {
    match rx.try_recv() {
        Ok(ConsumerMessage::Delivery(d)) => {
            assert_eq!(d.delivery_tag(), delivery_tag);
            assert_eq!(d.body, body);
            assert_eq!(d.exchange, "ex");
            assert_eq!(d.routing_key, "rk");
        }
        other => panic!("expected a delivery, got {:?}", other),
    }
}

fn expect_unknown_tag(result: Result<()>, tag: &str) {
    match result {
        Err(Error::UnknownConsumerTag {
            channel_id,
            consumer_tag,
        }) => {
            assert_eq!(channel_id, CH);
            assert_eq!(consumer_tag, tag);
        }
        Err(err) => panic!("expected UnknownConsumerTag, got error {}", err),
        Ok(()) => panic!("expected UnknownConsumerTag, but the frame was accepted"),
    }
}

#[test]
fn control_plain_delivery_reaches_its_consumer() {
    let mut rig = rig();
    let rx = rig.consume_ok("t");
    rig.feed(deliver("t", 1)).unwrap();
    rig.feed(header(3)).unwrap();
    rig.feed(body(b"abc")).unwrap();
    expect_delivery(&rx, 1, b"abc");

    // empty body: completes on the header
    rig.feed(deliver("t", 2)).unwrap();
    rig.feed(header(0)).unwrap();
    expect_delivery(&rx, 2, b"");

    // two body frames
    rig.feed(deliver("t", 3)).unwrap();
    rig.feed(header(4)).unwrap();
    rig.feed(body(b"ab")).unwrap();
    assert!(rx.try_recv().is_err());
    rig.feed(body(b"cd")).unwrap();
    expect_delivery(&rx, 3, b"abcd");
    assert!(rx.try_recv().is_err());
}

#[test]
fn control_never_known_tag_is_reported_when_content_completes() {
    let mut rig = rig();
    let rx = rig.consume_ok("t");
    rig.feed(deliver("nobody", 1)).unwrap();
    rig.feed(header(3)).unwrap();
    expect_unknown_tag(rig.feed(body(b"abc")), "nobody");
    assert!(rx.try_recv().is_err());
}

#[test]
fn control_cancel_between_messages() {
    let mut rig = rig();
    let rx = rig.consume_ok("t");
    rig.feed(deliver("t", 1)).unwrap();
    rig.feed(header(3)).unwrap();
    rig.feed(body(b"abc")).unwrap();
    rig.feed(server_cancel("t")).unwrap();
    expect_delivery(&rx, 1, b"abc");
    assert!(matches!(rx.try_recv(), Ok(ConsumerMessage::ServerCancelled)));

    rig.feed(deliver("t", 2)).unwrap();
    rig.feed(header(0)).unwrap_err();
}

#[test]
fn cancel_mid_content_server_cancel() {
    let mut rig = rig();
    let rx = rig.consume_ok("t");
    rig.feed(deliver("t", 7)).unwrap();
    rig.feed(header(3)).unwrap();
    rig.feed(server_cancel("t")).unwrap();
    assert!(matches!(rx.try_recv(), Ok(ConsumerMessage::ServerCancelled)));

    // content completes for a tag that is not registered any more
    let result = rig.feed(body(b"abc"));
    let leaked = rx.try_recv();
    assert!(
        leaked.is_err(),
        "cancelled consumer received {:?} after ServerCancelled",
        leaked
    );
    expect_unknown_tag(result, "t");
}

#[test]
fn cancel_mid_content_client_cancel_ok() {
    let mut rig = rig();
    let rx = rig.consume_ok("t");
    rig.feed(deliver("t", 7)).unwrap();
    rig.feed(header(3)).unwrap();
    rig.feed(basic(AmqpBasic::CancelOk(CancelOk {
        consumer_tag: "t".to_string(),
    })))
    .unwrap();
    assert!(matches!(rx.try_recv(), Ok(ConsumerMessage::ClientCancelled)));
    assert!(matches!(
        rig.ctl_rx.try_recv(),
        Ok(Ok(ChannelMessage::Method(_)))
    ));

    let result = rig.feed(body(b"abc"));
    let leaked = rx.try_recv();
    assert!(
        leaked.is_err(),
        "cancelled consumer received {:?} after ClientCancelled",
        leaked
    );
    expect_unknown_tag(result, "t");
}

#[test]
fn resubscribe_mid_content_goes_to_current_consumer() {
    let mut rig = rig();
    let old_rx = rig.consume_ok("t");
    rig.feed(deliver("t", 9)).unwrap();
    rig.feed(header(3)).unwrap();
    rig.feed(server_cancel("t")).unwrap();
    assert!(matches!(
        old_rx.try_recv(),
        Ok(ConsumerMessage::ServerCancelled)
    ));
    let new_rx = rig.consume_ok("t");

    rig.feed(body(b"abc")).unwrap();
    let leaked = old_rx.try_recv();
    assert!(
        leaked.is_err(),
        "cancelled consumer received {:?} after ServerCancelled",
        leaked
    );
    expect_delivery(&new_rx, 9, b"abc");
}

#[test]
fn late_subscribe_mid_content_is_honoured() {
    // the tag becomes known only after basic.deliver, but before the content completes
    let mut rig = rig();
    rig.feed(deliver("t", 4)).unwrap();
    rig.feed(header(2)).unwrap();
    let rx = rig.consume_ok("t");
    rig.feed(body(b"xy")).unwrap();
    expect_delivery(&rx, 4, b"xy");
}
