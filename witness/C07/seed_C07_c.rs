//@host src/io_loop/mod.rs
// witness scenario from seeded change C07-c (independent sub-agent demonstration); passes on the unchanged tree
//! Demonstration for seed C07c.
//!
//! Drives the REAL steady-state frame dispatch (`ConnectionState::process` on a real `Inner`
//! with a real `ChannelSlot` / `ContentCollector`) with hand-built, syntactically valid frames,
//! exactly as `IoLoop::handle_steady_event` does for every frame the `FrameBuffer` hands it.
//! No sockets, no threads, no clocks.
//!
//! The scenario: the server starts a delivery for a consumer the client knows, then - on the same
//! channel, while that content is still outstanding - sends a method that removes the consumer
//! (`basic.cancel`, or a `basic.cancel-ok`), and only then completes the content. A compliant
//! server never interleaves like that; the client must contain it: the completed delivery names
//! a consumer tag that no longer exists, so the connection ends with `UnknownConsumerTag`, and
//! the code running on the I/O thread must not panic.

use super::connection_state::ConnectionState;
use super::io_loop_handle::IoLoopHandle;
use super::{Channel0Slot, ChannelMessage, ChannelSlot, HeartbeatTimers, Inner};
use crate::errors::*;
use crate::{AmqpProperties, ConsumerMessage};
use amq_protocol::frame::{AMQPContentHeader, AMQPFrame};
use amq_protocol::protocol::basic::AMQPMethod as AmqpBasic;
use amq_protocol::protocol::basic::{Cancel, CancelOk, ConsumeOk, Deliver};
use amq_protocol::protocol::AMQPClass;
use crossbeam_channel::Receiver;
use std::panic::{catch_unwind, AssertUnwindSafe};

const CHANNEL: u16 = 1;
const BASIC_CLASS_ID: u16 = 60;

struct Rig {
    state: ConnectionState,
    inner: Inner,
    // what the I/O side sends to the client handle of channel 1
    chan_rx: Receiver<Result<ChannelMessage>>,
    // client side of channel 1; kept alive so that the I/O side sees a connected channel
    _handle: IoLoopHandle,
}

impl Rig {
    fn new() -> Rig {
        let mut inner = Inner::new(HeartbeatTimers::default(), 16);
        inner.chan_slots.set_channel_max(8);
        // Same bound as ChannelSlot::new uses; the receiving end of an IoLoopHandle is private to
        // io_loop_handle, so the slot gets a channel whose receiving end the test can read.
        let (chan_tx, chan_rx) = crossbeam_channel::bounded(2);
        let handle = inner
            .chan_slots
            .insert(Some(CHANNEL), |id| {
                let (mut slot, handle) = ChannelSlot::new(16, id);
                slot.tx = chan_tx;
                Ok((slot, handle))
            })
            .unwrap();
        // the client handle of channel 0 is not needed by any frame used here
        let (ch0_slot, _ch0_handle) = Channel0Slot::new(16);
        Rig {
            state: ConnectionState::Steady(ch0_slot),
            inner,
            chan_rx,
            _handle: handle,
        }
    }

    /// Feed one frame to the real dispatch. `Err(msg)` if the dispatch panicked: on the real I/O
    /// thread that panic would unwind `amiquip-io`.
    fn feed(&mut self, frame: AMQPFrame) -> std::result::Result<Result<()>, String> {
        let state = &mut self.state;
        let inner = &mut self.inner;
        catch_unwind(AssertUnwindSafe(|| state.process(inner, frame))).map_err(|payload| {
            payload
                .downcast_ref::<&str>()
                .map(|s| s.to_string())
                .or_else(|| payload.downcast_ref::<String>().cloned())
                .unwrap_or_else(|| "<non-string panic payload>".to_string())
        })
    }

    /// Feed frames in order until the first one that does not come back `Ok(())`; that frame ends
    /// the connection (run_io_loop returns the error), so nothing after it is processed.
    fn feed_all(&mut self, frames: Vec<AMQPFrame>) -> std::result::Result<Result<()>, String> {
        for frame in frames {
            match self.feed(frame) {
                Ok(Ok(())) => continue,
                other => return other,
            }
        }
        Ok(Ok(()))
    }

    /// Have the server acknowledge a consumer `tag` on channel 1, and pick up the receiving end
    /// the way `Channel::basic_consume` would.
    fn open_consumer(&mut self, tag: &str) -> Receiver<ConsumerMessage> {
        let res = self.feed(basic(AmqpBasic::ConsumeOk(ConsumeOk {
            consumer_tag: tag.to_string(),
        })));
        assert!(matches!(res, Ok(Ok(()))), "consume-ok was not accepted");
        match self.handle_recv() {
            ChannelMessage::ConsumeOk(got, rx) => {
                assert_eq!(got, tag);
                rx
            }
            _ => panic!("expected ConsumeOk on the channel handle"),
        }
    }

    fn handle_recv(&mut self) -> ChannelMessage {
        self.chan_rx
            .try_recv()
            .expect("nothing queued for the channel handle")
            .expect("channel handle got an error")
    }
}

fn basic(method: AmqpBasic) -> AMQPFrame {
    AMQPFrame::Method(CHANNEL, AMQPClass::Basic(method))
}

fn deliver(tag: &str, delivery_tag: u64) -> AMQPFrame {
    basic(AmqpBasic::Deliver(Deliver {
        consumer_tag: tag.to_string(),
        delivery_tag,
        redelivered: false,
        exchange: "ex".to_string(),
        routing_key: "rk".to_string(),
    }))
}

fn header(body_size: u64) -> AMQPFrame {
    AMQPFrame::Header(
        CHANNEL,
        BASIC_CLASS_ID,
        Box::new(AMQPContentHeader {
            class_id: BASIC_CLASS_ID,
            weight: 0,
            body_size,
            properties: AmqpProperties::default(),
        }),
    )
}

fn body(bytes: &[u8]) -> AMQPFrame {
    AMQPFrame::Body(CHANNEL, bytes.to_vec())
}

fn assert_unknown_tag(outcome: std::result::Result<Result<()>, String>, tag: &str) {
    match outcome {
        Err(panic_msg) => panic!(
            "C07 violated: frame dispatch panicked (this is the amiquip-io thread): {}",
            panic_msg
        ),
        Ok(Ok(())) => panic!("C07 violated: the sequence was accepted without an error"),
        Ok(Err(Error::UnknownConsumerTag {
            channel_id,
            consumer_tag,
        })) => {
            assert_eq!(channel_id, CHANNEL);
            assert_eq!(consumer_tag, tag);
        }
        Ok(Err(other)) => panic!("expected UnknownConsumerTag, got {:?}", other),
    }
}

// ---------------------------------------------------------------------------------------------
// Controls: pass with and without the change.
// ---------------------------------------------------------------------------------------------

/// A well-formed delivery (method, header, two body frames) reaches its consumer unchanged.
#[test]
fn control_compliant_delivery_is_delivered() {
    let mut rig = Rig::new();
    let rx = rig.open_consumer("ctag");
    let res = rig.feed_all(vec![deliver("ctag", 7), header(5), body(b"he"), body(b"llo")]);
    assert!(matches!(res, Ok(Ok(()))));
    match rx.try_recv() {
        Ok(ConsumerMessage::Delivery(d)) => {
            assert_eq!(d.body, b"hello");
            assert_eq!(d.delivery_tag(), 7);
            assert_eq!(d.routing_key, "rk");
        }
        other => panic!("expected the delivery, got {:?}", other),
    }
    assert!(rx.try_recv().is_err(), "exactly one message");
}

/// A delivery for a tag that was never a consumer ends the connection with UnknownConsumerTag
/// (no later than the frame completing its content) and hands nothing to the existing consumer.
#[test]
fn control_never_known_tag_is_rejected() {
    let mut rig = Rig::new();
    let rx = rig.open_consumer("ctag");
    let res = rig.feed_all(vec![deliver("nobody", 1), header(2), body(b"hi")]);
    assert_unknown_tag(res, "nobody");
    assert!(rx.try_recv().is_err());
}

/// A cancel that arrives between two complete deliveries: first one delivered, consumer told
/// about the cancel, the next delivery for the dead tag ends the connection.
#[test]
fn control_cancel_between_deliveries() {
    let mut rig = Rig::new();
    let rx = rig.open_consumer("ctag");
    let res = rig.feed_all(vec![
        deliver("ctag", 1),
        header(1),
        body(b"a"),
        basic(AmqpBasic::Cancel(Cancel {
            consumer_tag: "ctag".to_string(),
            nowait: true,
        })),
        deliver("ctag", 2),
        header(1),
        body(b"b"),
    ]);
    assert_unknown_tag(res, "ctag");
    assert!(matches!(rx.try_recv(), Ok(ConsumerMessage::Delivery(ref d)) if d.body == b"a"));
    assert!(matches!(rx.try_recv(), Ok(ConsumerMessage::ServerCancelled)));
    assert!(rx.try_recv().is_err());
}

// ---------------------------------------------------------------------------------------------
// The demonstrations: pass on the unmodified library, fail with the change.
// ---------------------------------------------------------------------------------------------

/// basic.deliver(ctag) .. basic.cancel(ctag) .. header .. body
#[test]
fn server_cancel_while_content_outstanding_is_contained() {
    let mut rig = Rig::new();
    let rx = rig.open_consumer("ctag");
    let res = rig.feed_all(vec![
        deliver("ctag", 1),
        basic(AmqpBasic::Cancel(Cancel {
            consumer_tag: "ctag".to_string(),
            nowait: true,
        })),
        header(3),
        body(b"abc"),
    ]);
    assert_unknown_tag(res, "ctag");
    // the consumer saw the cancel and nothing else
    assert!(matches!(rx.try_recv(), Ok(ConsumerMessage::ServerCancelled)));
    assert!(rx.try_recv().is_err());
}

/// Same, but the content is complete with the header already (announced body size 0), and the
/// consumer is removed by a basic.cancel-ok instead.
#[test]
fn cancel_ok_while_content_outstanding_is_contained() {
    let mut rig = Rig::new();
    let rx = rig.open_consumer("ctag");
    let res = rig.feed_all(vec![
        deliver("ctag", 1),
        basic(AmqpBasic::CancelOk(CancelOk {
            consumer_tag: "ctag".to_string(),
        })),
        header(0),
    ]);
    assert_unknown_tag(res, "ctag");
    assert!(matches!(rx.try_recv(), Ok(ConsumerMessage::ClientCancelled)));
    assert!(rx.try_recv().is_err());
}
