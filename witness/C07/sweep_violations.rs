//@host src/io_loop/mod.rs
//@quick (generic sweep without wall-clock dependence: also runs in the quick tier, labelled bounded)
// C07 bounded stand-in, end to end through the public API (real I/O thread, in-memory broker): in each of four session states (idle; a
// consumer whose delivery is outstanding after the method / after the header / after part of the body) the server sends one violating
// frame from the list below, optionally preceded by legal traffic on another channel.
// Oracle = the property: the I/O thread does not panic (Connection::close never reports IoThreadPanic), no message with content other than
// what a compliant reading yields is delivered (here: nothing is delivered from the outstanding content), and the connection ends with the
// error the property names - FrameUnexpected, ReceivedFrameWithBogusChannelId, UnknownConsumerTag, DuplicateConsumerTag - or, for
// unimplemented / not-allowed methods, the client's last frame is Connection.Close with hard-error code 540 / 530 and close reports
// ClientException.
// (a protocol header sent by the server is not a syntactically valid frame - its bytes 3..7 read as a 1.3 GB frame size - and is left out)
// Bound: 4 states x 13 violations x 2 (with / without preceding legal traffic).
include!("/verif/witness/_common/live_broker.rs");
use crate::{Auth, Connection, ConnectionOptions, ConnectionTuning, ConsumerMessage, ConsumerOptions, Error};

const T: Duration = Duration::from_secs(10);

#[derive(Debug, Clone, Copy, PartialEq)]
enum State { Idle, AfterMethod, AfterHeader, AfterPartOfBody }

#[derive(Debug, Clone, Copy, PartialEq)]
enum Violation {
    HeaderWithoutMethod,      // FrameUnexpected (idle) - in a content state it is a second header / legal header
    BodyWithoutHeader,        // FrameUnexpected when no header is outstanding
    SecondHeader,             // FrameUnexpected when a header has been received already
    MoreBodyThanAnnounced,    // FrameUnexpected
    NewDeliverWhileOutstanding, // FrameUnexpected while content is outstanding
    MethodOnUnopenedChannel,  // ReceivedFrameWithBogusChannelId
    ContentOnUnopenedChannel, // ReceivedFrameWithBogusChannelId
    ContentOnChannel0,        // Connection.Close(530) + ClientException
    UnknownConsumerTag,       // UnknownConsumerTag (at the frame completing the content)
    DuplicateConsumerTag,     // DuplicateConsumerTag
    ClientOnlyMethod,         // Basic.Publish from the server: Connection.Close(540 or 530) + ClientException
    UnimplementedClass,       // a Tx method: Connection.Close(540) + ClientException
    HeartbeatOnChannel,       // FrameUnexpected
    HugeAnnouncedSize,        // a header announcing 2^63 / 2^64-1 bytes: no panic, the content simply stays outstanding
    CancelDuringContent,      // server cancels the consumer while its delivery is outstanding, then the content completes: UnknownConsumerTag
    ProtocolHeaderFrame,      // FrameUnexpected (or MalformedFrame: the bytes are not a frame)
}

const ALL: [Violation; 15] = [
    Violation::HeaderWithoutMethod, Violation::BodyWithoutHeader, Violation::SecondHeader, Violation::MoreBodyThanAnnounced,
    Violation::NewDeliverWhileOutstanding, Violation::MethodOnUnopenedChannel, Violation::ContentOnUnopenedChannel, Violation::ContentOnChannel0,
    Violation::UnknownConsumerTag, Violation::DuplicateConsumerTag, Violation::ClientOnlyMethod, Violation::UnimplementedClass,
    Violation::HeartbeatOnChannel, Violation::HugeAnnouncedSize, Violation::CancelDuringContent,
];

fn header(channel: u16, size: u64) -> Vec<u8> {
    let mut buf = OutputBuffer::empty();
    buf.push_content_header(channel, 60, size as usize, &crate::AmqpProperties::default());
    buf[0..].to_vec()
}
fn body(channel: u16, b: &[u8]) -> Vec<u8> {
    let mut buf = OutputBuffer::empty();
    buf.push_content_body(channel, b);
    buf[0..].to_vec()
}

#[derive(Debug, PartialEq)]
enum Want { FrameUnexpected, Bogus(u16), UnknownTag(&'static str), DuplicateTag, Exception(&'static [u16]), Legal, StaysUp }

fn run(state: State, v: Violation, with_traffic: bool) {
    let what = format!("state={:?} violation={:?} preceded_by_legal_traffic={}", state, v, with_traffic);
    let ctl = Handle::new();
    let mut connection = Connection::insecure_open_stream(LiveBroker::new(ctl.clone()), ConnectionOptions::<Auth>::default().heartbeat(0), ConnectionTuning::default()).expect("handshake");
    let ch1 = connection.open_channel(Some(1)).unwrap();
    let ch2 = connection.open_channel(Some(2)).unwrap();
    let c1 = ch1.basic_consume("q1", ConsumerOptions::default()).unwrap();
    let c2 = ch2.basic_consume("q2", ConsumerOptions::default()).unwrap();
    let (tag1, tag2) = (c1.consumer_tag().to_string(), c2.consumer_tag().to_string());
    let rx1 = c1.receiver().clone();
    let rx2 = c2.receiver().clone();
    std::mem::forget(c1);
    std::mem::forget(c2);
    let deliver = |n: u16, tag: &str, dt: u64| method_bytes(n, B::Deliver(basic::Deliver { consumer_tag: tag.to_string(), delivery_tag: dt, redelivered: false, exchange: "x".to_string(), routing_key: "k".to_string() }));

    let mut stream = Vec::new();
    let mut legal_deliveries_2 = 0;
    if with_traffic {
        stream.extend(deliver(2, &tag2, 7));
        stream.extend(header(2, 3));
        stream.extend(body(2, b"abc"));
        legal_deliveries_2 = 1;
    }
    // bring channel 1 into the state
    match state {
        State::Idle => {}
        State::AfterMethod => stream.extend(deliver(1, &tag1, 1)),
        State::AfterHeader => { stream.extend(deliver(1, &tag1, 1)); stream.extend(header(1, 10)); }
        State::AfterPartOfBody => { stream.extend(deliver(1, &tag1, 1)); stream.extend(header(1, 10)); stream.extend(body(1, b"1234")); }
    }
    let outstanding = state != State::Idle;
    let header_seen = matches!(state, State::AfterHeader | State::AfterPartOfBody);
    // the violating frame and what the property says must follow
    let want = match v {
        Violation::HeaderWithoutMethod => {
            stream.extend(header(1, 5));
            match state { State::Idle => Want::FrameUnexpected, State::AfterMethod => Want::Legal, _ => Want::FrameUnexpected }
        }
        Violation::BodyWithoutHeader => {
            stream.extend(body(1, b"zz"));
            if header_seen { Want::Legal } else { Want::FrameUnexpected }
        }
        Violation::SecondHeader => {
            stream.extend(header(1, 5));
            stream.extend(header(1, 5));
            match state { State::AfterMethod => Want::FrameUnexpected, _ => Want::FrameUnexpected }
        }
        Violation::MoreBodyThanAnnounced => {
            if !outstanding { stream.extend(deliver(1, &tag1, 1)); }
            if !header_seen { stream.extend(header(1, 10)); }
            stream.extend(body(1, b"0123456789ABCDEF"));
            Want::FrameUnexpected
        }
        Violation::NewDeliverWhileOutstanding => {
            stream.extend(deliver(1, &tag1, 2));
            if outstanding { Want::FrameUnexpected } else { Want::Legal }
        }
        Violation::MethodOnUnopenedChannel => { stream.extend(method_bytes(9, Q::PurgeOk(queue::PurgeOk { message_count: 1 }))); Want::Bogus(9) }
        Violation::ContentOnUnopenedChannel => { stream.extend(header(9, 5)); Want::Bogus(9) }
        Violation::ContentOnChannel0 => { stream.extend(header(0, 5)); Want::Exception(&[530]) }
        Violation::UnknownConsumerTag => {
            if outstanding { return; } // needs a fresh delivery
            stream.extend(deliver(1, "nobody", 3));
            stream.extend(header(1, 2));
            stream.extend(body(1, b"hi"));
            Want::UnknownTag("nobody")
        }
        Violation::DuplicateConsumerTag => {
            if outstanding { return; }
            stream.extend(method_bytes(1, B::ConsumeOk(basic::ConsumeOk { consumer_tag: tag1.clone() })));
            Want::DuplicateTag
        }
        Violation::ClientOnlyMethod => {
            stream.extend(method_bytes(1, B::Publish(basic::Publish { ticket: 0, exchange: "e".to_string(), routing_key: "k".to_string(), mandatory: false, immediate: false })));
            Want::Exception(&[540, 530])
        }
        Violation::UnimplementedClass => {
            // tx.select-ok: class 90 method 11, no arguments
            stream.extend(vec![1, 0, 1, 0, 0, 0, 4, 0, 90, 0, 11, 0xCE]);
            Want::Exception(&[540])
        }
        Violation::HeartbeatOnChannel => { stream.extend(vec![8, 0, 1, 0, 0, 0, 0, 0xCE]); Want::FrameUnexpected }
        Violation::HugeAnnouncedSize => {
            if header_seen { return; }
            if !outstanding { stream.extend(deliver(1, &tag1, 1)); }
            let size = if with_traffic { u64::max_value() } else { 1u64 << 63 };
            let mut h = header(1, 0);
            // body_size is the 8 bytes after class id (2) and weight (2) in the payload that starts at offset 7
            h[11..19].copy_from_slice(&size.to_be_bytes());
            stream.extend(h);
            stream.extend(body(1, b"12345"));
            Want::StaysUp
        }
        Violation::CancelDuringContent => {
            if state != State::AfterHeader && state != State::AfterPartOfBody { return; }
            stream.extend(method_bytes(1, B::Cancel(basic::Cancel { consumer_tag: tag1.clone(), nowait: true })));
            stream.extend(body(1, if state == State::AfterHeader { b"0123456789" } else { b"567890" }));
            Want::UnknownTag("")
        }
        Violation::ProtocolHeaderFrame => { stream.extend(b"AMQP\x00\x00\x09\x01".to_vec()); Want::FrameUnexpected }
    };
    if want == Want::Legal {
        return; // not a violation in this state
    }
    ctl.take_seen();
    ctl.inject(stream);
    // for a client exception the server would now answer CloseOk; the scripted broker does (auto-answer to Connection.Close)
    let r = connection.close();
    match (&want, &r) {
        (_, Err(Error::IoThreadPanic)) => panic!("{}: the I/O thread panicked", what),
        (Want::FrameUnexpected, Err(Error::FrameUnexpected)) => {}
        (Want::FrameUnexpected, Err(Error::MalformedFrame)) if v == Violation::ProtocolHeaderFrame => {}
        (Want::Bogus(n), Err(Error::ReceivedFrameWithBogusChannelId { channel_id })) if channel_id == n => {}
        (Want::UnknownTag(t), Err(Error::UnknownConsumerTag { channel_id: 1, consumer_tag })) if consumer_tag == t || (t.is_empty() && *consumer_tag == tag1) => {}
        (Want::StaysUp, Ok(())) => {}
        (Want::DuplicateTag, Err(Error::DuplicateConsumerTag { channel_id: 1, consumer_tag })) if *consumer_tag == tag1 => {}
        (Want::Exception(codes), Err(Error::ClientException)) => {
            let written = ctl.take_seen();
            let closes: Vec<_> = written.iter().filter_map(|(n, f)| match f { AMQPFrame::Method(_, AMQPClass::Connection(AmqpConnection::Close(c))) if *n == 0 => Some(c.reply_code), _ => None }).collect();
            assert_eq!(closes.len(), 1, "{}: Connection.Close frames written: {:?}", what, closes);
            assert!(codes.contains(&closes[0]), "{}: hard-error code {} not in {:?}", what, closes[0], codes);
            match written.last() {
                Some((0, AMQPFrame::Method(_, AMQPClass::Connection(AmqpConnection::Close(_))))) => {}
                other => panic!("{}: the last frame written is {:?}, not the Connection.Close", what, other),
            }
        }
        (w, other) => panic!("{}: expected {:?}, Connection::close returned {:?}", what, w, other.as_ref().map_err(|e| format!("{:?}", e))),
    }
    // nothing was delivered out of the violating / outstanding content on channel 1; channel 2 got exactly its legal delivery first
    let mut got1 = Vec::new();
    loop {
        match rx1.recv_timeout(T) {
            Ok(ConsumerMessage::Delivery(d)) => got1.push(d.delivery_tag()),
            Ok(_) => {}
            Err(crossbeam_channel::RecvTimeoutError::Disconnected) => break,
            Err(crossbeam_channel::RecvTimeoutError::Timeout) => panic!("{}: consumer 1 queue never terminated", what),
        }
    }
    assert!(got1.is_empty(), "{}: consumer 1 was handed deliveries {:?} out of a violating frame sequence", what, got1);
    let mut got2 = Vec::new();
    loop {
        match rx2.recv_timeout(T) {
            Ok(ConsumerMessage::Delivery(d)) => { assert_eq!(d.body, b"abc".to_vec(), "{}", what); got2.push(d.delivery_tag()); }
            Ok(_) => {}
            Err(crossbeam_channel::RecvTimeoutError::Disconnected) => break,
            Err(crossbeam_channel::RecvTimeoutError::Timeout) => panic!("{}: consumer 2 queue never terminated", what),
        }
    }
    assert_eq!(got2.len(), legal_deliveries_2, "{}: consumer 2 deliveries {:?}", what, got2);
    // everybody is released
    assert!(ch1.queue_purge("q").is_err() && ch2.queue_purge("q").is_err(), "{}: a call succeeded on a dead connection", what);
    std::mem::forget(ch1);
    std::mem::forget(ch2);
}

#[test]
fn verif_sweep_c07_every_violation_in_every_content_state() {
    let mut count = 0;
    for &state in &[State::Idle, State::AfterMethod, State::AfterHeader, State::AfterPartOfBody] {
        for &v in &ALL {
            for &t in &[false, true] {
                with_watchdog(format!("state={:?} violation={:?} traffic={}", state, v, t), 40, move || run(state, v, t));
                count += 1;
            }
        }
    }
    println!("C07 sweep: {} scenarios", count);
}
