//@host src/io_loop/mod.rs
// witness scenario from seeded change C07-a (independent sub-agent demonstration); passes on the unchanged tree
// Demonstration for seeded change C07.
//
// Wire with `#[cfg(test)] mod seed_c07_demo;` in src/io_loop/mod.rs (next to the other `mod` lines).
//
// The server announces an extreme body size in a content header and then *starts sending* the
// body. Nothing here is more than a protocol violation / a lie about the size, so the client must
// neither panic nor abort: it has to keep collecting (NeedMore) until the connection ends some
// other way.

use super::connection_state::ConnectionState;
use super::content_collector::ContentCollector;
use super::heartbeat_timers::HeartbeatTimers;
use super::{Channel0Slot, ChannelSlot, Inner};
use crate::AmqpProperties;
use amq_protocol::frame::{AMQPContentHeader, AMQPFrame};
use amq_protocol::protocol::basic::AMQPMethod as AmqpBasic;
use amq_protocol::protocol::basic::{Deliver, GetOk};
use amq_protocol::protocol::AMQPClass;
use std::panic::{catch_unwind, AssertUnwindSafe};

fn deliver(consumer_tag: &str) -> Deliver {
    Deliver {
        consumer_tag: consumer_tag.to_string(),
        delivery_tag: 1,
        redelivered: false,
        exchange: "".to_string(),
        routing_key: "rk".to_string(),
    }
}

fn header(body_size: u64) -> AMQPContentHeader {
    AMQPContentHeader {
        class_id: 60,
        weight: 0,
        body_size,
        properties: AmqpProperties::default(),
    }
}

const EXTREME_SIZES: [u64; 3] = [u64::max_value(), u64::max_value() - 1, 1 << 63];

// Collector alone: method, header announcing an extreme size, then the first body frame.
#[test]
fn extreme_body_size_followed_by_body_frame_is_contained_in_collector() {
    for &size in EXTREME_SIZES.iter() {
        let outcome = catch_unwind(AssertUnwindSafe(|| {
            let mut collector = ContentCollector::new(1);
            collector.collect_deliver(deliver("ctag")).unwrap();
            // the header alone was already handled (bounded preallocation)
            assert!(collector.collect_header(header(size)).unwrap().is_none());
            // first body frame: must simply be buffered
            let r1 = collector.collect_body(b"hello".to_vec());
            assert!(matches!(r1, Ok(None)), "first body frame must be buffered");
            // and so must a second one
            let r2 = collector.collect_body(b"world".to_vec());
            assert!(matches!(r2, Ok(None)), "second body frame must be buffered");
        }));
        assert!(
            outcome.is_ok(),
            "collector panicked on body frame after header announcing body_size={}",
            size
        );
    }
}

// Same thing for a basic.get-ok, to show it is not specific to deliveries.
#[test]
fn extreme_body_size_followed_by_body_frame_is_contained_for_get() {
    let outcome = catch_unwind(AssertUnwindSafe(|| {
        let mut collector = ContentCollector::new(1);
        collector
            .collect_get(GetOk {
                delivery_tag: 1,
                redelivered: false,
                exchange: "".to_string(),
                routing_key: "rk".to_string(),
                message_count: 0,
            })
            .unwrap();
        assert!(collector
            .collect_header(header(u64::max_value()))
            .unwrap()
            .is_none());
        assert!(matches!(collector.collect_body(vec![0u8; 16]), Ok(None)));
    }));
    assert!(outcome.is_ok(), "collector panicked (get-ok path)");
}

// Control (passes with and without the change): an honest 3 MiB body split over many frames is
// reassembled intact, i.e. ordinary use does not expose the change.
#[test]
fn control_honest_large_multi_frame_body_is_intact() {
    use super::content_collector::CollectorResult;
    let total: usize = 3 * 1024 * 1024;
    let chunk: usize = 128 * 1024;
    let expected: Vec<u8> = (0..total).map(|i| (i % 251) as u8).collect();
    let mut collector = ContentCollector::new(1);
    collector.collect_deliver(deliver("ctag")).unwrap();
    assert!(collector
        .collect_header(header(total as u64))
        .unwrap()
        .is_none());
    let mut result = None;
    for piece in expected.chunks(chunk) {
        assert!(result.is_none());
        result = collector.collect_body(piece.to_vec()).unwrap();
    }
    match result {
        Some(CollectorResult::Delivery((tag, delivery))) => {
            assert_eq!(tag, "ctag");
            assert_eq!(delivery.body, expected);
        }
        _ => panic!("expected a completed delivery"),
    }
}

// Whole frame dispatch (what the I/O thread runs for every frame read from the socket).
#[test]
fn extreme_body_size_followed_by_body_frame_does_not_panic_io_thread_dispatch() {
    let mut inner = Inner::new(HeartbeatTimers::default(), 16);
    inner.chan_slots.set_channel_max(8);
    let (ch0_slot, _ch0_handle) = Channel0Slot::new(16);
    let mut state = ConnectionState::Steady(ch0_slot);

    // open channel 1 with one consumer "ctag"
    let _handle = inner
        .chan_slots
        .insert(Some(1), |id| Ok(ChannelSlot::new(16, id)))
        .unwrap();
    let (consumer_tx, consumer_rx) = crossbeam_channel::unbounded();
    inner
        .chan_slots
        .get_mut(1)
        .unwrap()
        .consumers
        .insert("ctag".to_string(), consumer_tx);

    let frames = vec![
        AMQPFrame::Method(1, AMQPClass::Basic(AmqpBasic::Deliver(deliver("ctag")))),
        AMQPFrame::Header(1, 60, Box::new(header(u64::max_value()))),
        AMQPFrame::Body(1, b"hello".to_vec()),
        AMQPFrame::Body(1, b"world".to_vec()),
    ];

    let outcome = catch_unwind(AssertUnwindSafe(|| {
        for frame in frames {
            state
                .process(&mut inner, frame)
                .expect("no frame in this sequence is an error by itself");
        }
    }));
    assert!(
        outcome.is_ok(),
        "frame dispatch (I/O thread) panicked on Deliver, Header(body_size=u64::MAX), Body"
    );
    // nothing may have been delivered: the announced body is nowhere near complete
    assert!(consumer_rx.try_recv().is_err());
}
