// ---- mirror of io_loop::heartbeat_timers::HeartbeatTimers as seen by Inner (its own logic is unit `heartbeat`) ----
pub struct HeartbeatTimers {
    pub timer: mio_extras::timer::Timer<HeartbeatKind>,
    pub started: Ghost<bool>,
    /// ghost: number of activity stamps recorded so far
    pub rx_marks: Ghost<nat>,
    pub tx_marks: Ghost<nat>,
    /// ghost: how often fire_rx has reported the server's interval as expired
    pub rx_expiries: Ghost<nat>,
}
impl HeartbeatTimers {
    /// timeouts are only ever set by start()/fire_*(): an armed timer means heartbeats were started
    /// ... and once started, both the rx and the tx timeout are always pending (a timeout that fired is set again before anything else
    /// happens): this is what keeps heartbeats going for the lifetime of the connection
    pub open spec fn wf(&self) -> bool {
        (self.timer.armed() ==> self.started@)
        && (self.started@ ==> self.timer.pending().count(HeartbeatKind::Rx) > 0 && self.timer.pending().count(HeartbeatKind::Tx) > 0)
    }
    /// HeartbeatTimers::default(): nothing started, nothing armed
    #[verifier::external_body]
    pub fn default() -> (r: HeartbeatTimers)
        ensures !r.started@, !r.timer.armed(), r.wf(),
    { unimplemented!() }
    #[verifier::external_body]
    pub fn record_rx_activity(&mut self)
        ensures final(self).rx_marks@ == old(self).rx_marks@ + 1, final(self).tx_marks@ == old(self).tx_marks@, final(self).started@ == old(self).started@, final(self).timer == old(self).timer,
            final(self).rx_expiries@ == old(self).rx_expiries@,
    { unimplemented!() }
    #[verifier::external_body]
    pub fn record_tx_activity(&mut self)
        ensures final(self).tx_marks@ == old(self).tx_marks@ + 1, final(self).rx_marks@ == old(self).rx_marks@, final(self).started@ == old(self).started@, final(self).timer == old(self).timer,
            final(self).rx_expiries@ == old(self).rx_expiries@,
    { unimplemented!() }
    /// start() asserts that timers were not started before (heartbeat_timers.rs), Heartbeat::start that the interval is not zero
    /// (heartbeats.rs), and twice the interval must be representable (unit `heartbeat` proves the real start() under exactly this)
    #[verifier::external_body]
    pub fn start(&mut self, interval: Duration)
        requires !old(self).started@, interval.ns > 0, 2 * interval.ns as int <= time_mirror::dur_max(),
        ensures final(self).started@, final(self).timer.armed(), final(self).rx_marks@ == old(self).rx_marks@, final(self).tx_marks@ == old(self).tx_marks@,
            final(self).timer.pending().count(HeartbeatKind::Rx) > 0, final(self).timer.pending().count(HeartbeatKind::Tx) > 0,
            final(self).rx_expiries@ == old(self).rx_expiries@,
    { unimplemented!() }
    /// fire_* expect started timers (the two `expect`s in heartbeat_timers.rs)
    #[verifier::external_body]
    pub fn fire_rx(&mut self) -> (r: HeartbeatState)
        requires old(self).started@,
        ensures final(self).started@, final(self).timer.armed(), final(self).rx_marks@ == old(self).rx_marks@, final(self).tx_marks@ == old(self).tx_marks@,
            final(self).timer.pending().count(HeartbeatKind::Rx) > 0, final(self).timer.pending().count(HeartbeatKind::Tx) == old(self).timer.pending().count(HeartbeatKind::Tx),
            final(self).rx_expiries@ == old(self).rx_expiries@ + (if r is Expired { 1nat } else { 0nat }),
    { unimplemented!() }
    #[verifier::external_body]
    pub fn fire_tx(&mut self) -> (r: HeartbeatState)
        requires old(self).started@,
        ensures final(self).started@, final(self).timer.armed(), final(self).rx_marks@ == old(self).rx_marks@, final(self).tx_marks@ == old(self).tx_marks@,
            final(self).timer.pending().count(HeartbeatKind::Tx) > 0, final(self).timer.pending().count(HeartbeatKind::Rx) == old(self).timer.pending().count(HeartbeatKind::Rx),
            final(self).rx_expiries@ == old(self).rx_expiries@,
    { unimplemented!() }
}
