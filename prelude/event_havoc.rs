// ---- R12: `self.inner.read_from_stream(stream, &mut self.frame_buffer, |inner, frame| state.process(inner, frame))` ----
// The handler closure captures `&mut state` (rejected by Verus). The call is replaced by this trampoline: everything
// it can reach is arbitrary afterwards, except what the units `framebuf` and `process` prove for every input:
// Inner's invariant is kept, the table limit does not change, heartbeat timers are only stamped, and a connection state
// other than Steady / ClientClosed implies the output buffer is sealed. The composition itself is assumed.
#[verifier::external_body]
pub fn read_from_stream_havoc<S: IoStream>(inner: &mut Inner, stream: &mut S, frame_buffer: &mut FrameBuffer, state: &mut ConnectionState) -> (r: Result<()>)
    requires old(inner).wf(), state_inv(old(state), old(inner)),
    ensures final(inner).wf(), state_inv(final(state), final(inner)),
        final(inner).chan_slots.channel_max == old(inner).chan_slots.channel_max,
        final(stream).written() == old(stream).written(),
{ unimplemented!() }
