// ---- R12: `self.inner.read_from_stream(stream, &mut self.frame_buffer, |inner, frame| state.process(inner, frame))` ----
// The handler closure captures `&mut state` (rejected by Verus). The call is replaced by this trampoline: everything
// it can reach is arbitrary afterwards, except what the units `framebuf` and `process` prove for every input:
// Inner's invariant is kept, the table limit does not change, heartbeat timers are only stamped, and a connection state
// other than Steady / ClientClosed implies the output buffer is sealed, the throttling state is untouched, and the connection never
// returns to Steady while channel 0's slot stays the same one ([C18.dispatcher_keeps_throttling_state], [C20,C08.steady_slot_kept]
// in unit process). The composition itself is assumed.
#[verifier::external_body]
pub fn read_from_stream_havoc<S: IoStream>(inner: &mut Inner, stream: &mut S, frame_buffer: &mut FrameBuffer, state: &mut ConnectionState) -> (r: Result<()>)
    requires old(inner).wf(), state_inv(old(state), old(inner)),
    ensures final(inner).wf(), state_inv(final(state), final(inner)),
        final(inner).chan_slots.channel_max == old(inner).chan_slots.channel_max,
        final(inner).channels_are_registered == old(inner).channels_are_registered, final(inner).mio_channel_bound == old(inner).mio_channel_bound,
        *final(state) is Steady ==> (*old(state) is Steady && final(state)->Steady_0 == (Channel0Slot { blocked_tx: final(state)->Steady_0.blocked_tx, ..old(state)->Steady_0 })),
        final(stream).written() == old(stream).written(),
{ unimplemented!() }

// ---- the same call in handle_handshake_event (closure `|inner, frame| state.process(inner, frame)` over HandshakeState) ----
// What units `framebuf` and `handshake` prove for every input: the handshake invariant hs_inv is kept by every frame processed
// ([C16,C17.handshake_invariant_kept]), whether the read ends with Ok or with an error; throttling state untouched. Composition assumed.
#[verifier::external_body]
pub fn read_from_stream_havoc_hs<Auth: Sasl, S: IoStream>(inner: &mut Inner, stream: &mut S, frame_buffer: &mut FrameBuffer, state: &mut HandshakeState<Auth>) -> (r: Result<()>)
    requires handshake_state::hs_inv(old(state), old(inner)),
    ensures handshake_state::hs_inv(final(state), final(inner)), final(inner).chan_slots == old(inner).chan_slots,
        final(inner).channels_are_registered == old(inner).channels_are_registered, final(inner).mio_channel_bound == old(inner).mio_channel_bound,
        final(stream).written() == old(stream).written(),
{ unimplemented!() }
