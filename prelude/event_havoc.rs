// ---- R12: `self.inner.read_from_stream(stream, &mut self.frame_buffer, |inner, frame| state.process(inner, frame))` ----
// The handler closure captures `&mut state` (rejected by Verus). The call is replaced by this trampoline: everything
// it can reach is arbitrary afterwards, except what the units `framebuf` and `process` prove for every input:
// Inner's invariant is kept, the table limit does not change, heartbeat timers are only stamped, and a connection state
// other than Steady / ClientClosed implies the output buffer is sealed, the throttling state is untouched, and the connection never
// returns to Steady while channel 0's slot stays the same one ([C18.dispatcher_keeps_throttling_state], [C20,C08.steady_slot_kept]
// in unit process). The composition itself is assumed.
#[verifier::external_body]
pub fn read_from_stream_havoc<S: IoStream>(inner: &mut Inner, stream: &mut S, frame_buffer: &mut FrameBuffer, state: &mut ConnectionState) -> (r: Result<()>)
    requires old(inner).wf(), state_inv(old(state), old(inner)),
    ensures final(inner).wf(), state_inv(final(state), final(inner)),
        final(inner).chan_slots.channel_max == old(inner).chan_slots.channel_max,
        final(inner).channels_are_registered == old(inner).channels_are_registered, final(inner).mio_channel_bound == old(inner).mio_channel_bound,
        *final(state) is Steady ==> (*old(state) is Steady && final(state)->Steady_0 == (Channel0Slot { blocked_tx: final(state)->Steady_0.blocked_tx, ..old(state)->Steady_0 })),
        final(stream).written() == old(stream).written(),
{ unimplemented!() }
