// ---- mirror of std::thread::JoinHandle (assumed): joining yields the thread function's result, or reports a panic ----
#[verifier::external_body]
#[verifier::reject_recursive_types(T)]
pub struct JoinHandle<T> { _p: core::marker::PhantomData<T> }
pub struct ThreadPanic;
impl<T> JoinHandle<T> {
    /// what the thread function returned (None: it panicked)
    pub uninterp spec fn outcome(&self) -> Option<T>;
    #[verifier::external_body]
    pub fn join(self) -> (r: core::result::Result<T, ThreadPanic>)
        ensures match r { Ok(v) => self.outcome() == Some(v), Err(_) => self.outcome() is None },
    { unimplemented!() }
}

// ---- mirror of std::thread::Builder (assumed): the thread function is called once, under its own precondition; a handle that is joined
// yields a value the thread function can return ----
#[verifier::external_body]
pub struct Builder { _p: u8 }
impl Builder {
    #[verifier::external_body]
    pub fn new() -> Builder { unimplemented!() }
    #[verifier::external_body]
    pub fn name(self, name: String) -> Builder { unimplemented!() }
    #[verifier::external_body]
    pub fn spawn<F: FnOnce() -> T, T>(self, f: F) -> (r: core::result::Result<JoinHandle<T>, IoError>)
        requires f.requires(()),
        ensures r matches Ok(h) ==> (forall|v: T| h.outcome() == Some(v) ==> f.ensures((), v)),
    { unimplemented!() }
}
