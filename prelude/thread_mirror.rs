// ---- mirror of std::thread::JoinHandle (assumed): joining yields the thread function's result, or reports a panic ----
#[verifier::external_body]
#[verifier::reject_recursive_types(T)]
pub struct JoinHandle<T> { _p: core::marker::PhantomData<T> }
pub struct ThreadPanic;
impl<T> JoinHandle<T> {
    /// what the thread function returned (None: it panicked)
    pub uninterp spec fn outcome(&self) -> Option<T>;
    #[verifier::external_body]
    pub fn join(self) -> (r: core::result::Result<T, ThreadPanic>)
        ensures match r { Ok(v) => self.outcome() == Some(v), Err(_) => self.outcome() is None },
    { unimplemented!() }
}
