// ---- mirror of input_buffer::InputBuffer (+ bytes::Buf view) and of the amq_protocol parsers used by frame_buffer.rs ----
pub mod input_buffer {
    use vstd::prelude::*;
    use super::io;
    use super::IoStream;
    pub const MIN_READ: usize = 4096;
    #[verifier::external_body]
    pub struct InputBuffer { _p: u8 }
    pub struct DoRead<'t> { pub buf: &'t mut InputBuffer, pub reserve: usize }
    impl InputBuffer {
        /// unconsumed bytes (what chunk() shows)
        pub uninterp spec fn view(&self) -> Seq<u8>;
        /// ghost history: every byte ever advanced past, in order
        pub uninterp spec fn consumed(&self) -> Seq<u8>;
        #[verifier::external_body]
        pub fn new() -> (r: Self) ensures r@.len() == 0, r.consumed().len() == 0 { unimplemented!() }
        #[verifier::external_body]
        pub fn chunk(&self) -> (r: &[u8]) ensures r@ == self@ { unimplemented!() }
        /// Buf::advance panics when n exceeds the remaining bytes
        #[verifier::external_body]
        pub fn advance(&mut self, n: usize)
            requires n <= old(self)@.len(),
            ensures final(self)@ == old(self)@.subrange(n as int, old(self)@.len() as int),
                final(self).consumed() == old(self).consumed() + old(self)@.subrange(0, n as int),
        { unimplemented!() }
        #[verifier::external_body]
        pub fn prepare_reserve<'t>(&'t mut self, reserve: usize) -> (r: DoRead<'t>)
            ensures *r.buf == *old(self), r.reserve == reserve, *final(self) == *final(r.buf),
        { unimplemented!() }
    }
    impl<'t> DoRead<'t> {
        /// one read() of the stream, appended to the buffer: Ok(n) = n new bytes at the end (0 = end of stream)
        #[verifier::external_body]
        pub fn read_from<S: IoStream>(self, stream: &mut S) -> (r: io::Result<usize>)
            ensures
                final(stream).written() == old(stream).written(),
                final(self.buf).consumed() == old(self.buf).consumed(),
                // Ok(0) is the end of the stream (the reserve is never empty: at least MIN_READ)
                final(stream).at_eof() == (r matches Ok(n) && n == 0),
                // assumption: a transport delivers fewer than 2^64 bytes in its lifetime (bytes_read cannot overflow)
                final(stream).delivered().len() <= usize::MAX,
                match r {
                    Ok(n) => final(self.buf)@.len() == old(self.buf)@.len() + n
                        && final(self.buf)@.subrange(0, old(self.buf)@.len() as int) == old(self.buf)@
                        && final(stream).delivered() == old(stream).delivered() + final(self.buf)@.subrange(old(self.buf)@.len() as int, final(self.buf)@.len() as int),
                    Err(_) => final(self.buf)@ == old(self.buf)@ && final(stream).delivered() == old(stream).delivered(),
                },
                // (spelled out: nothing read, nothing appended)
                (r matches Ok(n) && n == 0) ==> final(self.buf)@ == old(self.buf)@,
        { unimplemented!() }
    }
}
/// amq_protocol::types::parsing::parse_long_uint: big-endian u32 of the first four bytes; cannot fail on >= 4 bytes
pub open spec fn be32(b: Seq<u8>) -> int { b[0] as int * 16777216 + b[1] as int * 65536 + b[2] as int * 256 + b[3] as int }
#[derive(Debug)]
pub enum NomErr { Incomplete, Error }
#[verifier::external_body]
pub fn parse_long_uint(i: &[u8]) -> (r: core::result::Result<(&[u8], u32), NomErr>)
    ensures i@.len() >= 4 ==> (r matches Ok(p) && p.1 as int == be32(i@) && p.0@ == i@.subrange(4, i@.len() as int)),
{ unimplemented!() }
/// amq_protocol::frame::parse_frame: an uninterpreted partial function of the slice (its correctness is amq_protocol's)
pub uninterp spec fn amq_parse(b: Seq<u8>) -> Option<(Seq<u8>, AMQPFrame)>;
#[verifier::external_body]
pub fn parse_frame(i: &[u8]) -> (r: core::result::Result<(&[u8], AMQPFrame), NomErr>)
    ensures match r { Ok(p) => amq_parse(i@) == Some((p.0@, p.1)), Err(_) => amq_parse(i@) is None },
{ unimplemented!() }
