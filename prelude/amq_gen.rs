pub mod amq_gen {
use vstd::prelude::*;
use std::result::Result as StdResult;
use super::amq_protocol::frame::AMQPFrame;
use super::amq_protocol::protocol::basic::AMQPProperties;
use super::amq_protocol::protocol::AMQPClass;
// ---- assumed contract of the amq_protocol / cookie-factory frame generators (DESIGN.md 3.3) ----
// A generator for frame F called at `pos` either writes exactly bytes(F) at pos.., leaves ..pos untouched and
// needs buf.len() >= pos+len, or returns BufferTooSmall(n) with buf.len() < n <= pos+len.
pub enum GenError { BufferTooSmall(usize), BufferTooBig(usize), InvalidOffset, CustomError(u32), NotYetImplemented, }
/// the bytes a generator closure produces (each mk_gen_* below fixes it to the frame it was built for)
pub uninterp spec fn payload_of<F>(f: F) -> Seq<u8>;
pub uninterp spec fn heartbeat_frame_bytes() -> Seq<u8>;
pub uninterp spec fn method_frame_bytes(channel_id: u16, class: AMQPClass) -> Seq<u8>;
pub uninterp spec fn content_header_frame_bytes(channel_id: u16, class_id: u16, length: u64, properties: AMQPProperties) -> Seq<u8>;
pub uninterp spec fn content_body_frame_bytes(channel_id: u16, content: Seq<u8>) -> Seq<u8>;
pub mod amq_axioms {
    use vstd::prelude::*;
    use super::content_body_frame_bytes;
    /// gen_content_body_frame: type(1) channel(2) size(4) payload(n) frame-end(1)
    #[verifier::external_body]
    pub broadcast proof fn axiom_body_frame_len(channel_id: u16, content: Seq<u8>)
        ensures #[trigger] content_body_frame_bytes(channel_id, content).len() == content.len() + 8
    {}
}
/// bytes of an AMQPFrame value (what gen_frame would produce)
pub open spec fn frame_bytes(f: AMQPFrame) -> Seq<u8> {
    match f {
        AMQPFrame::ProtocolHeader => protocol_header_bytes(),
        AMQPFrame::Method(ch, class) => method_frame_bytes(ch, class),
        AMQPFrame::Header(ch, class_id, h) => content_header_frame_bytes(ch, class_id, h.body_size, h.properties),
        AMQPFrame::Body(ch, data) => content_body_frame_bytes(ch, data@),
        AMQPFrame::Heartbeat(_) => heartbeat_frame_bytes(),
    }
}
pub open spec fn protocol_header_bytes() -> Seq<u8> { seq![65u8, 77u8, 81u8, 80u8, 0u8, 0u8, 9u8, 1u8] }
/// `b"AMQP\x00\x00\x09\x01".to_vec()` (R8: byte-string literals are outside Verus)
#[verifier::external_body]
pub fn protocol_header_vec() -> (r: Vec<u8>) ensures r@ == protocol_header_bytes() { unimplemented!() }

// R8: `|buf, pos| gen_X((buf, pos), args..)` -> `mk_gen_X(args..)`: the closure, with the frame it generates
#[verifier::external_body]
pub fn mk_gen_heartbeat_frame() -> (r: impl for<'a> Fn(&'a mut [u8], usize) -> StdResult<(&'a mut [u8], usize), GenError>)
    ensures payload_of(r) == heartbeat_frame_bytes()
{ move |b, p| Err(GenError::NotYetImplemented) }
#[verifier::external_body]
pub fn mk_gen_method_frame<'c>(channel_id: u16, class: &'c AMQPClass) -> (r: impl for<'a> Fn(&'a mut [u8], usize) -> StdResult<(&'a mut [u8], usize), GenError> + 'c)
    ensures payload_of(r) == method_frame_bytes(channel_id, *class)
{ move |b, p| Err(GenError::NotYetImplemented) }
#[verifier::external_body]
pub fn mk_gen_content_header_frame<'c>(channel_id: u16, class_id: u16, length: u64, properties: &'c AMQPProperties) -> (r: impl for<'a> Fn(&'a mut [u8], usize) -> StdResult<(&'a mut [u8], usize), GenError> + 'c)
    ensures payload_of(r) == content_header_frame_bytes(channel_id, class_id, length, *properties)
{ move |b, p| Err(GenError::NotYetImplemented) }
#[verifier::external_body]
pub fn mk_gen_content_body_frame<'c>(channel_id: u16, content: &'c [u8]) -> (r: impl for<'a> Fn(&'a mut [u8], usize) -> StdResult<(&'a mut [u8], usize), GenError> + 'c)
    ensures payload_of(r) == content_body_frame_bytes(channel_id, content@)
{ move |b, p| Err(GenError::NotYetImplemented) }

/// R8: `f(buf, pos)` inside serialize -> `gen_call(&f, buf, pos)`: one call of a generator closure on the Vec's bytes
#[verifier::external_body]
pub fn gen_call<F: Fn(&mut [u8], usize) -> StdResult<(&mut [u8], usize), GenError>>(f: &F, buf: &mut Vec<u8>, pos: usize) -> (r: StdResult<usize, GenError>)
    requires pos <= old(buf)@.len(),
    ensures
        final(buf)@.len() == old(buf)@.len(),
        final(buf)@.subrange(0, pos as int) == old(buf)@.subrange(0, pos as int),
        match r {
            Ok(end) => end == pos + payload_of(*f).len() && end <= old(buf)@.len() && final(buf)@.subrange(pos as int, end as int) == payload_of(*f)
                // bytes behind the frame are whatever resize() put there (zeros); serialize never leaves any: see its contract
                && final(buf)@.subrange(end as int, old(buf)@.len() as int) == old(buf)@.subrange(end as int, old(buf)@.len() as int),
            Err(GenError::BufferTooSmall(n)) => old(buf)@.len() < n <= pos + payload_of(*f).len(),
            Err(_) => false,
        },
{ unimplemented!() }
} // mod amq_gen
pub use amq_gen::*;
