// ---- boundary mirror of address resolution and TCP connect as used by connection::amqp_url::open_amqp (assumed contracts): a URL resolves to
// socket addresses; connecting yields a stream to exactly the address given. `for x in vec` runs over the vector's elements in order (R7). ----
pub mod net_mirror {
    use vstd::prelude::*;
    use super::{Url, IoError};
    #[verifier::external_body]
    pub struct SocketAddr { _p: u8 }
    /// `mio::net::TcpStream` (opaque; which address it talks to is its `peer`)
    #[verifier::external_body]
    pub struct TcpStream { _p: u8 }
    impl TcpStream {
        pub uninterp spec fn peer(&self) -> SocketAddr;
        #[verifier::external_body]
        pub fn connect(addr: &SocketAddr) -> (r: core::result::Result<TcpStream, IoError>) ensures r matches Ok(s) ==> s.peer() == *addr { unimplemented!() }
    }
    impl Url {
        /// the socket addresses host and port of the URL resolve to
        pub uninterp spec fn resolves_to(&self, a: SocketAddr) -> bool;
        #[verifier::external_body]
        pub fn socket_addrs<F: FnOnce() -> Option<u16>>(&self, default_port_number: F) -> (r: core::result::Result<Vec<SocketAddr>, IoError>)
            ensures r matches Ok(v) ==> (forall|i: int| 0 <= i < v@.len() ==> #[trigger] self.resolves_to(v@[i])),
        { unimplemented!() }
    }
    impl Url {
        /// the host of the URL when it is a domain name
        pub uninterp spec fn dom(&self) -> Option<Seq<char>>;
        #[verifier::external_body]
        pub fn domain(&self) -> (r: Option<&str>) ensures r is Some == self.dom() is Some, r matches Some(d) ==> d@ == self.dom()->0 { unimplemented!() }
    }
    /// `native_tls::TlsConnector` (opaque)
    pub mod native_tls {
        use vstd::prelude::*;
        use super::super::NativeTlsErrorOpaque;
        #[verifier::external_body]
        pub struct TlsConnector { _p: u8 }
        impl TlsConnector {
            #[verifier::external_body]
            pub fn new() -> (r: core::result::Result<TlsConnector, NativeTlsErrorOpaque>) { unimplemented!() }
        }
        impl Clone for TlsConnector { #[verifier::external_body] fn clone(&self) -> (r: Self) ensures r == *self { unimplemented!() } }
    }
    /// `std::vec::IntoIter<T>`: the elements not yet yielded, in order
    #[verifier::external_body]
    #[verifier::reject_recursive_types(T)]
    pub struct VecIntoIter<T> { _p: core::marker::PhantomData<T> }
    impl<T> VecIntoIter<T> {
        pub uninterp spec fn rest(&self) -> Seq<T>;
        #[verifier::external_body]
        pub fn next(&mut self) -> (r: Option<T>)
            ensures old(self).rest().len() == 0 ==> r is None && final(self).rest() == old(self).rest(),
                old(self).rest().len() > 0 ==> r == Some(old(self).rest()[0]) && final(self).rest() == old(self).rest().subrange(1, old(self).rest().len() as int),
        { unimplemented!() }
    }
    #[verifier::external_body]
    pub fn vec_into_iter<T>(v: Vec<T>) -> (r: VecIntoIter<T>) ensures r.rest() == v@ { unimplemented!() }
}
pub use net_mirror::{SocketAddr, TcpStream, VecIntoIter, vec_into_iter, native_tls};
