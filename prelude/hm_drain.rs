// ---- mirror of std::collections::hash_map::Drain (assumed contract of HashMap::drain; rule R7/R8) ----
#[verifier::external_body]
#[verifier::reject_recursive_types(K)]
#[verifier::reject_recursive_types(V)]
pub struct Drain<'a, K, V> { _p: core::marker::PhantomData<&'a mut (K, V)> }
impl<'a, K, V> Drain<'a, K, V> {
    /// entries not yet yielded
    pub uninterp spec fn remaining(&self) -> Map<K, V>;
    #[verifier::external_body]
    pub fn next(&mut self) -> (r: Option<(K, V)>)
        ensures match r {
            Some(kv) => old(self).remaining().contains_key(kv.0) && old(self).remaining()[kv.0] == kv.1
                && final(self).remaining() == old(self).remaining().remove(kv.0),
            None => (forall|k: K| !#[trigger] old(self).remaining().contains_key(k)) && final(self).remaining() == old(self).remaining(),
        },
        old(self).remaining().dom().finite() ==> final(self).remaining().dom().finite(),
    { unimplemented!() }
}
/// HashMap::drain: the iterator owns every entry, the map is empty once the borrow ends
#[verifier::external_body]
pub fn hm_drain<'a, K, V>(m: &'a mut HashMap<K, V>) -> (r: Drain<'a, K, V>)
    ensures r.remaining() == old(m)@, final(m)@ == Map::<K, V>::empty(),
{ unimplemented!() }
