// ---- boundary mirror of io_loop::ChannelHandle as seen from channel.rs through RefCell (`&self`) ----
// What a Channel emits goes through a RefCell borrowed from `&self`, so it is specified by permission + receipt
// (DESIGN.md 2.6) over ApiEmit values. Each method's contract restates, in that form, what unit `content` proves
// about the real ChannelHandle method in log form: exactly this one emission, or none on failure.
pub enum ApiEmit {
    /// synchronous call: the method is sent and the reply of type T awaited
    Call(AMQPClass),
    /// the method is sent, no reply is awaited
    Nowait(AMQPClass),
    /// content header + body frames of a publish (unit content: header then exact chunks)
    Content { class_id: u16, body: Seq<u8>, properties: AMQPProperties },
    Get(AmqpGet),
    Consume(Consume),
    SetReturnHandler(Option<CrossbeamSender<Return>>),
    SetPubConfirmHandler(Option<CrossbeamSender<Confirm>>),
    /// Channel.Close(0, "", 0, 0) awaited with CloseOk
    Close,
}
#[verifier::external_body]
pub struct ChannelHandle { _p: u8 }
impl ChannelHandle {
    pub uninterp spec fn id(&self) -> u16;
    #[verifier::external_body]
    pub fn channel_id(&self) -> (r: u16) ensures r == self.id() { unimplemented!() }
    #[verifier::external_body]
    pub fn close(&mut self) -> (r: Result<()>)
        requires permitted(old(self).id() as int, ApiEmit::Close),
        ensures final(self).id() == old(self).id(), r is Ok ==> sent(old(self).id() as int, ApiEmit::Close),
    { unimplemented!() }
    #[verifier::external_body]
    pub fn call<M: IntoAmqpClass + Debug, T: TryFromAmqpClass>(&mut self, method: M) -> (r: Result<T>)
        requires permitted(old(self).id() as int, ApiEmit::Call(method.spec_class())),
        ensures final(self).id() == old(self).id(),
            r is Ok ==> sent(old(self).id() as int, ApiEmit::Call(method.spec_class())) && (exists|class: AMQPClass| #![auto] T::spec_try(class) == Some(r->Ok_0)),
    { unimplemented!() }
    #[verifier::external_body]
    pub fn call_nowait<M: IntoAmqpClass + Debug>(&mut self, method: M) -> (r: Result<()>)
        requires permitted(old(self).id() as int, ApiEmit::Nowait(method.spec_class())),
        ensures final(self).id() == old(self).id(), r is Ok ==> sent(old(self).id() as int, ApiEmit::Nowait(method.spec_class())),
    { unimplemented!() }
    #[verifier::external_body]
    pub fn send_content(&mut self, content: &[u8], class_id: u16, properties: &AMQPProperties) -> (r: Result<()>)
        requires permitted(old(self).id() as int, ApiEmit::Content { class_id, body: content@, properties: *properties }),
        ensures final(self).id() == old(self).id(), r is Ok ==> sent(old(self).id() as int, ApiEmit::Content { class_id, body: content@, properties: *properties }),
    { unimplemented!() }
    #[verifier::external_body]
    pub fn get(&mut self, get: AmqpGet) -> (r: Result<Option<Get>>)
        requires permitted(old(self).id() as int, ApiEmit::Get(get)),
        ensures final(self).id() == old(self).id(), r is Ok ==> sent(old(self).id() as int, ApiEmit::Get(get)),
    { unimplemented!() }
    #[verifier::external_body]
    pub fn consume(&mut self, consume: Consume) -> (r: Result<(String, CrossbeamReceiver<ConsumerMessage>)>)
        requires permitted(old(self).id() as int, ApiEmit::Consume(consume)),
        ensures final(self).id() == old(self).id(), r is Ok ==> sent(old(self).id() as int, ApiEmit::Consume(consume)),
    { unimplemented!() }
    #[verifier::external_body]
    pub fn set_return_handler(&mut self, handler: Option<CrossbeamSender<Return>>) -> (r: Result<()>)
        requires permitted(old(self).id() as int, ApiEmit::SetReturnHandler(handler)), // [C13,C12.listeners_changed_only_on_request]
        ensures final(self).id() == old(self).id(), r is Ok ==> sent(old(self).id() as int, ApiEmit::SetReturnHandler(handler)),
    { unimplemented!() }
    #[verifier::external_body]
    pub fn set_pub_confirm_handler(&mut self, handler: Option<CrossbeamSender<Confirm>>) -> (r: Result<()>)
        requires permitted(old(self).id() as int, ApiEmit::SetPubConfirmHandler(handler)), // [C13,C12.listeners_changed_only_on_request]
        ensures final(self).id() == old(self).id(), r is Ok ==> sent(old(self).id() as int, ApiEmit::SetPubConfirmHandler(handler)),
    { unimplemented!() }
}
