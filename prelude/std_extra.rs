// ---- std functions without a vstd spec that realistic edits of the code tend to reach for (assumed contracts) ----
pub assume_specification<T, A: core::alloc::Allocator>[Vec::<T, A>::capacity](v: &Vec<T, A>) -> (r: usize)
    ensures r >= v@.len();
