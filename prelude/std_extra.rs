// ---- std functions without a vstd spec that realistic edits of the code tend to reach for (assumed contracts) ----
pub assume_specification<T, A: core::alloc::Allocator>[Vec::<T, A>::capacity](v: &Vec<T, A>) -> (r: usize)
    ensures r >= v@.len();
/// Vec::reserve_exact panics ("capacity overflow") when the new capacity exceeds isize::MAX bytes
/// (necessary condition stated for any element size; exact for 1-byte elements)
pub assume_specification<T, A: core::alloc::Allocator>[Vec::<T, A>::reserve_exact](v: &mut Vec<T, A>, additional: usize)
    requires old(v)@.len() + additional <= isize::MAX,
    ensures final(v)@ == old(v)@;
pub assume_specification<T, A: core::alloc::Allocator>[Vec::<T, A>::shrink_to_fit](v: &mut Vec<T, A>)
    ensures final(v)@ == old(v)@;
// std: `min` returns the first argument unless it compares greater; `max` the second unless the first compares greater
pub assume_specification<T: Ord>[core::cmp::max::<T>](a: T, b: T) -> (r: T)
    ensures <T as vstd::std_specs::cmp::PartialOrdSpec>::obeys_partial_cmp_spec() ==> r == (if <T as vstd::std_specs::cmp::PartialOrdSpec>::partial_cmp_spec(&a, &b) == Some(core::cmp::Ordering::Greater) { a } else { b }),
        r == a || r == b;
pub assume_specification<T: Ord>[core::cmp::min::<T>](a: T, b: T) -> (r: T)
    ensures <T as vstd::std_specs::cmp::PartialOrdSpec>::obeys_partial_cmp_spec() ==> r == (if <T as vstd::std_specs::cmp::PartialOrdSpec>::partial_cmp_spec(&a, &b) == Some(core::cmp::Ordering::Greater) { b } else { a }),
        r == a || r == b;
pub assume_specification<T>[core::mem::replace::<T>](dest: &mut T, src: T) -> (r: T)
    ensures r == *old(dest), *final(dest) == src;
pub assume_specification<T>[Option::<T>::replace](o: &mut Option<T>, value: T) -> (r: Option<T>)
    ensures r == *old(o), *final(o) == Some(value);
pub assume_specification[String::len](s: &String) -> (r: usize);
pub assume_specification<T: Clone>[<[T]>::to_vec](s: &[T]) -> (r: Vec<T>)
    ensures r@.len() == s@.len(), forall|i: int| 0 <= i < s@.len() ==> cloned(#[trigger] s@[i], r@[i]);
// closure-taking Option/Result combinators (their definitions; the closure is called only in the case shown)
pub assume_specification<T, F: FnOnce() -> Option<T>>[Option::<T>::or_else](o: Option<T>, f: F) -> (r: Option<T>)
    requires o is None ==> f.requires(()),
    ensures o is Some ==> r == o, o is None ==> f.ensures((), r);
