// ---- std functions without a vstd spec that realistic edits of the code tend to reach for (assumed contracts) ----
pub assume_specification<T, A: core::alloc::Allocator>[Vec::<T, A>::capacity](v: &Vec<T, A>) -> (r: usize)
    ensures r >= v@.len();
/// Vec::reserve_exact panics ("capacity overflow") when the new capacity exceeds isize::MAX bytes
/// (necessary condition stated for any element size; exact for 1-byte elements)
pub assume_specification<T, A: core::alloc::Allocator>[Vec::<T, A>::reserve_exact](v: &mut Vec<T, A>, additional: usize)
    requires old(v)@.len() + additional <= isize::MAX,
    ensures final(v)@ == old(v)@;
pub assume_specification<T, A: core::alloc::Allocator>[Vec::<T, A>::shrink_to_fit](v: &mut Vec<T, A>)
    ensures final(v)@ == old(v)@;
// std: `min` returns the first argument unless it compares greater; `max` the second unless the first compares greater
pub assume_specification<T: Ord>[core::cmp::max::<T>](a: T, b: T) -> (r: T)
    ensures <T as vstd::std_specs::cmp::PartialOrdSpec>::obeys_partial_cmp_spec() ==> r == (if <T as vstd::std_specs::cmp::PartialOrdSpec>::partial_cmp_spec(&a, &b) == Some(core::cmp::Ordering::Greater) { a } else { b }),
        r == a || r == b;
pub assume_specification<T: Ord>[core::cmp::min::<T>](a: T, b: T) -> (r: T)
    ensures <T as vstd::std_specs::cmp::PartialOrdSpec>::obeys_partial_cmp_spec() ==> r == (if <T as vstd::std_specs::cmp::PartialOrdSpec>::partial_cmp_spec(&a, &b) == Some(core::cmp::Ordering::Greater) { b } else { a }),
        r == a || r == b;
pub assume_specification<T>[core::mem::replace::<T>](dest: &mut T, src: T) -> (r: T)
    ensures r == *old(dest), *final(dest) == src;
pub assume_specification<T>[Option::<T>::replace](o: &mut Option<T>, value: T) -> (r: Option<T>)
    ensures r == *old(o), *final(o) == Some(value);
// ---- byte (UTF-8) lengths and offsets of strings, in vstd's terms (vstd specifies str::len / str::is_char_boundary over encode_utf8 of the chars)
pub mod utf8 {
    use vstd::prelude::*;
    pub open spec fn utf8_len(s: Seq<char>) -> nat { vstd::utf8::encode_utf8(s).len() }
    pub open spec fn utf8_boundary(s: Seq<char>, n: int) -> bool { vstd::utf8::is_char_boundary(vstd::utf8::encode_utf8(s), n) }
    /// the chars encoded in the first n bytes (n a character boundary)
    pub uninterp spec fn utf8_prefix(s: Seq<char>, n: int) -> Seq<char>;
    pub mod utf8_axioms {
        use vstd::prelude::*;
        use super::{utf8_boundary, utf8_len};
        /// assumed (Rust's definition of str::is_char_boundary): offset 0 and the end of the string are character boundaries
        pub broadcast axiom fn axiom_utf8_start_is_a_boundary(b: Seq<u8>) ensures #[trigger] vstd::utf8::is_char_boundary(b, 0);
        pub broadcast axiom fn axiom_utf8_end_is_a_boundary(b: Seq<u8>) ensures #[trigger] vstd::utf8::is_char_boundary(b, b.len() as int);
    }
}
pub use utf8::{utf8_len, utf8_boundary, utf8_prefix, utf8_axioms};
pub assume_specification[String::len](s: &String) -> (r: usize)
    ensures r == utf8_len(s@);
/// String::truncate panics when new_len is inside the string and not on a character boundary
pub assume_specification[String::truncate](s: &mut String, new_len: usize)
    requires new_len <= utf8_len(old(s)@) ==> utf8_boundary(old(s)@, new_len as int),
    ensures new_len >= utf8_len(old(s)@) ==> final(s)@ == old(s)@,
        new_len < utf8_len(old(s)@) ==> final(s)@ == utf8_prefix(old(s)@, new_len as int) && utf8_len(final(s)@) == new_len;
pub assume_specification<T: Clone>[<[T]>::to_vec](s: &[T]) -> (r: Vec<T>)
    ensures r@.len() == s@.len(), forall|i: int| 0 <= i < s@.len() ==> cloned(#[trigger] s@[i], r@[i]);
// closure-taking Option/Result combinators (their definitions; the closure is called only in the case shown)
pub assume_specification<T, F: FnOnce() -> Option<T>>[Option::<T>::or_else](o: Option<T>, f: F) -> (r: Option<T>)
    requires o is None ==> f.requires(()),
    ensures o is Some ==> r == o, o is None ==> f.ensures((), r);
