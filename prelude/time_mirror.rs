// ---- mirror of std::time::{Instant, Duration} and mio_extras::timer::{Timer, Timeout} with a ghost clock (C17 decision logic only) ----
pub mod time_mirror {
    use vstd::prelude::*;
    /// nanoseconds; std's Duration holds at most u64::MAX seconds
    #[derive(Clone, Copy)]
    pub struct Duration { pub ns: u128 }
    pub open spec fn dur_max() -> int { 18446744073709551615int * 1000000000int + 999999999int }
    impl Duration {
        pub open spec fn wf(&self) -> bool { self.ns as int <= dur_max() }
        #[verifier::external_body]
        pub fn from_millis(ms: u64) -> (r: Duration) ensures r.ns as int == ms as int * 1000000, r.wf() { unimplemented!() }
        #[verifier::external_body]
        pub fn from_secs(s: u64) -> (r: Duration) ensures r.ns as int == s as int * 1000000000, r.wf() { unimplemented!() }
    }
    // operators of std::time::Duration with their documented panics as preconditions
    impl core::ops::Add for Duration {
        type Output = Duration;
        #[verifier::external_body]
        fn add(self, rhs: Duration) -> (r: Duration) { unimplemented!() }
    }
    impl vstd::std_specs::ops::AddSpecImpl<Duration> for Duration {
        open spec fn obeys_add_spec() -> bool { true }
        open spec fn add_req(self, rhs: Duration) -> bool { self.ns as int + rhs.ns as int <= dur_max() }
        open spec fn add_spec(self, rhs: Duration) -> Duration { Duration { ns: (self.ns as int + rhs.ns as int) as u128 } }
    }
    impl core::ops::Sub for Duration {
        type Output = Duration;
        #[verifier::external_body]
        fn sub(self, rhs: Duration) -> (r: Duration) { unimplemented!() }
    }
    impl vstd::std_specs::ops::SubSpecImpl<Duration> for Duration {
        open spec fn obeys_sub_spec() -> bool { true }
        open spec fn sub_req(self, rhs: Duration) -> bool { self.ns >= rhs.ns }
        open spec fn sub_spec(self, rhs: Duration) -> Duration { Duration { ns: (self.ns as int - rhs.ns as int) as u128 } }
    }
    impl core::ops::Mul<Duration> for u32 {
        type Output = Duration;
        #[verifier::external_body]
        fn mul(self, rhs: Duration) -> (r: Duration) { unimplemented!() }
    }
    impl vstd::std_specs::ops::MulSpecImpl<Duration> for u32 {
        open spec fn obeys_mul_spec() -> bool { true }
        open spec fn mul_req(self, rhs: Duration) -> bool { self as int * rhs.ns as int <= dur_max() }
        open spec fn mul_spec(self, rhs: Duration) -> Duration { Duration { ns: (self as int * rhs.ns as int) as u128 } }
    }
    impl PartialEq for Duration { #[verifier::external_body] fn eq(&self, o: &Duration) -> (r: bool) { unimplemented!() } }
    impl vstd::std_specs::cmp::PartialEqSpecImpl for Duration {
        open spec fn obeys_eq_spec() -> bool { true }
        open spec fn eq_spec(&self, o: &Duration) -> bool { self.ns == o.ns }
    }
    impl PartialOrd for Duration { #[verifier::external_body] fn partial_cmp(&self, o: &Duration) -> (r: Option<core::cmp::Ordering>) { unimplemented!() } }
    impl vstd::std_specs::cmp::PartialOrdSpecImpl for Duration {
        open spec fn obeys_partial_cmp_spec() -> bool { true }
        open spec fn partial_cmp_spec(&self, o: &Duration) -> Option<core::cmp::Ordering> {
            if self.ns < o.ns { Some(core::cmp::Ordering::Less) } else if self.ns == o.ns { Some(core::cmp::Ordering::Equal) } else { Some(core::cmp::Ordering::Greater) }
        }
    }
    #[verifier::external_body]
    #[derive(Clone, Copy)]
    pub struct Instant { _p: u8 }
    impl Instant {
        #[verifier::external_body]
        pub fn now() -> (r: Instant) { unimplemented!() }
        /// time since this instant: arbitrary, bounded (assumption: uptime below 2^63 s so that adding the 5 ms tolerance cannot overflow)
        #[verifier::external_body]
        pub fn elapsed(&self) -> (r: Duration) ensures r.wf(), r.ns as int <= dur_max() - 5000000 { unimplemented!() }
    }
    #[verifier::external_body]
    pub struct Timeout { _p: u8 }
    #[verifier::external_body]
    #[verifier::reject_recursive_types(T)]
    pub struct Timer<T> { _p: core::marker::PhantomData<T> }
    /// the state value a timeout was set with
    pub uninterp spec fn timeout_state<T>(t: &Timeout) -> T;
    impl<T> Timer<T> {
        pub uninterp spec fn armed(&self) -> bool;
        /// (delay, state) of the most recent set_timeout
        pub uninterp spec fn last_set(&self) -> (Duration, T);
        /// the state values of the timeouts that are set and have neither fired nor been cancelled
        pub uninterp spec fn pending(&self) -> vstd::multiset::Multiset<T>;
        #[verifier::external_body]
        pub fn set_timeout(&mut self, delay: Duration, state: T) -> (r: Timeout)
            ensures final(self).armed(), final(self).last_set() == (delay, state),
                final(self).pending() == old(self).pending().insert(state), timeout_state::<T>(&r) == state,
        { unimplemented!() }
        /// cancelling removes the timeout if it is still pending (Some(its state)), and does nothing otherwise
        #[verifier::external_body]
        pub fn cancel_timeout(&mut self, timeout: &Timeout) -> (r: Option<T>)
            ensures final(self).armed() == old(self).armed(), final(self).last_set() == old(self).last_set(),
                r is Some ==> r->0 == timeout_state::<T>(timeout) && old(self).pending().count(r->0) > 0 && final(self).pending() == old(self).pending().remove(r->0),
                r is None ==> final(self).pending() == old(self).pending(),
        { unimplemented!() }
    }
}
pub use time_mirror::{Duration, Instant, Timer, Timeout};
