// ---- boundary mirror of io_loop_handle::{IoLoopHandle, IoLoopHandle0} with a ghost emission log (DESIGN.md 2.6) ----
// Every method takes `&mut self`, so what a handle hands to the I/O thread can be recorded as a sequence.
// Each contract restates, in log form, what unit `handle` proves about the real body in permission/receipt form:
// the method emits exactly one message of the stated kind (and nothing else), or fails having emitted nothing
// (for the calls that wait for a reply a failure may also come after the emission).
pub enum Emission {
    /// IoLoopMessage::Send carrying exactly one method frame on this handle's channel
    Method(AMQPClass),
    /// IoLoopMessage::ConnectionClose carrying exactly one method frame (the I/O thread seals its buffer behind it)
    ConnectionClose(AMQPClass),
    Header { class_id: u16, len: u64, properties: AMQPProperties },
    Body(Seq<u8>),
    SetReturnHandler(Option<CrossbeamSender<Return>>),
    SetPubConfirmHandler(Option<CrossbeamSender<Confirm>>),
    AllocChannel(Option<u16>),
    SetBlockedTx(CrossbeamSender<ConnectionBlockedNotification>),
}
#[verifier::external_body]
pub struct IoLoopHandle { _p: u8 }
impl IoLoopHandle {
    pub uninterp spec fn log(&self) -> Seq<Emission>;
    pub uninterp spec fn id(&self) -> u16;
    /// ghost: the failures this handle has reported to its user so far (what the I/O thread queued for it, or EventLoopDropped)
    pub uninterp spec fn errs(&self) -> Seq<Error>;
    #[verifier::external_body]
    pub fn channel_id(&self) -> (r: u16) ensures r == self.id() { unimplemented!() }
    #[verifier::external_body]
    pub fn call<M: IntoAmqpClass, T: TryFromAmqpClass>(&mut self, method: M) -> (r: Result<T>)
        ensures final(self).id() == old(self).id(),
            r is Ok ==> final(self).log() == old(self).log().push(Emission::Method(method.spec_class()))
                && (exists|class: AMQPClass| #![auto] T::spec_try(class) == Some(r->Ok_0)),
            r is Err ==> final(self).log() == old(self).log() || final(self).log() == old(self).log().push(Emission::Method(method.spec_class())),
            r matches Err(verif_e) ==> final(self).errs() == old(self).errs().push(verif_e),
            r is Ok ==> final(self).errs() == old(self).errs(),
    { unimplemented!() }
    #[verifier::external_body]
    pub fn call_nowait<M: IntoAmqpClass>(&mut self, method: M) -> (r: Result<()>)
        ensures final(self).id() == old(self).id(),
            r is Ok ==> final(self).log() == old(self).log().push(Emission::Method(method.spec_class())),
            r is Err ==> final(self).log() == old(self).log(),
            r matches Err(verif_e) ==> final(self).errs() == old(self).errs().push(verif_e),
            r is Ok ==> final(self).errs() == old(self).errs(),
    { unimplemented!() }
    #[verifier::external_body]
    pub fn call_connection_close(&mut self, close: ConnectionClose) -> (r: Result<ConnectionCloseOk>)
        ensures final(self).id() == old(self).id(),
            r is Ok ==> final(self).log() == old(self).log().push(Emission::ConnectionClose(AMQPClass::Connection(AmqpConnection::Close(close)))),
            r is Err ==> final(self).log() == old(self).log() || final(self).log() == old(self).log().push(Emission::ConnectionClose(AMQPClass::Connection(AmqpConnection::Close(close)))),
            r matches Err(verif_e) ==> final(self).errs() == old(self).errs().push(verif_e),
            r is Ok ==> final(self).errs() == old(self).errs(),
    { unimplemented!() }
    #[verifier::external_body]
    pub fn get(&mut self, get: AmqpGet) -> (r: Result<Option<Get>>)
        ensures final(self).id() == old(self).id(),
            r is Ok ==> final(self).log() == old(self).log().push(Emission::Method(AMQPClass::Basic(AmqpBasic::Get(get)))),
            r is Err ==> final(self).log() == old(self).log() || final(self).log() == old(self).log().push(Emission::Method(AMQPClass::Basic(AmqpBasic::Get(get)))),
            r matches Err(verif_e) ==> final(self).errs() == old(self).errs().push(verif_e),
            r is Ok ==> final(self).errs() == old(self).errs(),
    { unimplemented!() }
    #[verifier::external_body]
    pub fn consume(&mut self, consume: Consume) -> (r: Result<(String, CrossbeamReceiver<ConsumerMessage>)>)
        ensures final(self).id() == old(self).id(),
            r is Ok ==> final(self).log() == old(self).log().push(Emission::Method(AMQPClass::Basic(AmqpBasic::Consume(consume)))),
            r is Err ==> final(self).log() == old(self).log() || final(self).log() == old(self).log().push(Emission::Method(AMQPClass::Basic(AmqpBasic::Consume(consume)))),
            r matches Err(verif_e) ==> final(self).errs() == old(self).errs().push(verif_e),
            r is Ok ==> final(self).errs() == old(self).errs(),
    { unimplemented!() }
    #[verifier::external_body]
    pub fn send_content_header(&mut self, class_id: u16, len: usize, properties: &AMQPProperties) -> (r: Result<()>)
        ensures final(self).id() == old(self).id(),
            r is Ok ==> final(self).log() == old(self).log().push(Emission::Header { class_id, len: len as u64, properties: *properties }),
            r is Err ==> final(self).log() == old(self).log(),
            r matches Err(verif_e) ==> final(self).errs() == old(self).errs().push(verif_e),
            r is Ok ==> final(self).errs() == old(self).errs(),
    { unimplemented!() }
    #[verifier::external_body]
    pub fn send_content_body(&mut self, content: &[u8]) -> (r: Result<()>)
        ensures final(self).id() == old(self).id(),
            r is Ok ==> final(self).log() == old(self).log().push(Emission::Body(content@)),
            r is Err ==> final(self).log() == old(self).log(),
            r matches Err(verif_e) ==> final(self).errs() == old(self).errs().push(verif_e),
            r is Ok ==> final(self).errs() == old(self).errs(),
    { unimplemented!() }
    #[verifier::external_body]
    pub fn set_return_handler(&mut self, handler: Option<CrossbeamSender<Return>>) -> (r: Result<()>)
        ensures final(self).id() == old(self).id(),
            r is Ok ==> final(self).log() == old(self).log().push(Emission::SetReturnHandler(handler)),
            r is Err ==> final(self).log() == old(self).log(),
            r matches Err(verif_e) ==> final(self).errs() == old(self).errs().push(verif_e),
            r is Ok ==> final(self).errs() == old(self).errs(),
    { unimplemented!() }
    #[verifier::external_body]
    pub fn set_pub_confirm_handler(&mut self, handler: Option<CrossbeamSender<Confirm>>) -> (r: Result<()>)
        ensures final(self).id() == old(self).id(),
            r is Ok ==> final(self).log() == old(self).log().push(Emission::SetPubConfirmHandler(handler)),
            r is Err ==> final(self).log() == old(self).log(),
            r matches Err(verif_e) ==> final(self).errs() == old(self).errs().push(verif_e),
            r is Ok ==> final(self).errs() == old(self).errs(),
    { unimplemented!() }
}
/// IoLoopHandle0 derefs to its common IoLoopHandle; the mirror exposes the methods Channel0Handle uses directly
#[verifier::external_body]
pub struct IoLoopHandle0 { _p: u8 }
impl IoLoopHandle0 {
    pub uninterp spec fn log(&self) -> Seq<Emission>;
    pub uninterp spec fn id(&self) -> u16;
    /// ghost: the failures this handle has reported to its user so far (what the I/O thread queued for it, or EventLoopDropped)
    pub uninterp spec fn errs(&self) -> Seq<Error>;
    #[verifier::external_body]
    pub fn channel_id(&self) -> (r: u16) ensures r == self.id() { unimplemented!() }
    #[verifier::external_body]
    pub fn call_connection_close(&mut self, close: ConnectionClose) -> (r: Result<ConnectionCloseOk>)
        ensures final(self).id() == old(self).id(),
            r is Ok ==> final(self).log() == old(self).log().push(Emission::ConnectionClose(AMQPClass::Connection(AmqpConnection::Close(close)))),
            r is Err ==> final(self).log() == old(self).log() || final(self).log() == old(self).log().push(Emission::ConnectionClose(AMQPClass::Connection(AmqpConnection::Close(close)))),
            r matches Err(verif_e) ==> final(self).errs() == old(self).errs().push(verif_e),
            r is Ok ==> final(self).errs() == old(self).errs(),
    { unimplemented!() }
    /// the handle handed back carries the id the I/O thread allocated (the requested one if any: unit slots) and an empty log
    #[verifier::external_body]
    pub fn allocate_channel(&mut self, channel_id: Option<u16>) -> (r: Result<IoLoopHandle>)
        ensures final(self).id() == old(self).id(),
            r is Ok ==> final(self).log() == old(self).log().push(Emission::AllocChannel(channel_id)) && r->Ok_0.log().len() == 0
                && (channel_id is Some ==> r->Ok_0.id() == channel_id->0) && r->Ok_0.id() != 0,
            r is Err ==> final(self).log() == old(self).log() || final(self).log() == old(self).log().push(Emission::AllocChannel(channel_id)),
            r matches Err(verif_e) ==> final(self).errs() == old(self).errs().push(verif_e),
            r is Ok ==> final(self).errs() == old(self).errs(),
    { unimplemented!() }
    #[verifier::external_body]
    pub fn set_blocked_tx(&mut self, tx: CrossbeamSender<ConnectionBlockedNotification>) -> (r: Result<()>)
        ensures final(self).id() == old(self).id(),
            r is Ok ==> final(self).log() == old(self).log().push(Emission::SetBlockedTx(tx)),
            r is Err ==> final(self).log() == old(self).log(),
            r matches Err(verif_e) ==> final(self).errs() == old(self).errs().push(verif_e),
            r is Ok ==> final(self).errs() == old(self).errs(),
    { unimplemented!() }
}
