// ---- std Vec operations whose assumed contract must be stronger than vstd's (R8 call-site substitution) ----
/// Vec::with_capacity panics ("capacity overflow") when the byte size exceeds isize::MAX; allocation failure aborts.
/// Memory exhaustion itself is not modelled (DESIGN.md 3.6): only the documented panic condition is a precondition.
#[verifier::external_body]
pub fn vec_with_capacity<T>(n: usize) -> (r: Vec<T>)
    requires n <= isize::MAX,   // exact for 1-byte elements (the only use: Vec<u8>); necessary for all
    ensures r@.len() == 0,
{ unimplemented!() }
