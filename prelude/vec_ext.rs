// ---- std Vec operations whose assumed contract must be stronger than vstd's (R8 call-site substitution) ----
/// Vec::with_capacity panics ("capacity overflow") when the byte size exceeds isize::MAX; allocation failure aborts.
/// Memory exhaustion itself is not modelled (DESIGN.md 3.6): only the documented panic condition is a precondition.
#[verifier::external_body]
pub fn vec_with_capacity<T>(n: usize) -> (r: Vec<T>)
    requires n <= isize::MAX,   // exact for 1-byte elements (the only use: Vec<u8>); necessary for all
    ensures r@.len() == 0,
{ unimplemented!() }
/// `v.drain(a..b);` with the iterator dropped at once (R8): removes exactly that range
#[verifier::external_body]
pub fn vec_remove_range<T>(v: &mut Vec<T>, a: usize, b: usize)
    requires a <= b <= old(v)@.len(),
    ensures final(v)@ == old(v)@.subrange(0, a as int) + old(v)@.subrange(b as int, old(v)@.len() as int),
{ unimplemented!() }
pub mod vec_axioms {
    use vstd::prelude::*;
    /// a Vec never holds more than isize::MAX bytes (Rust allocation invariant; not in vstd)
    #[verifier::external_body]
    pub broadcast proof fn axiom_vec_u8_len(v: &Vec<u8>)
        ensures #[trigger] v@.len() <= isize::MAX
    {}
}
