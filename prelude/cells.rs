// ---- mirror of std::cell::{RefCell, Cell} (assumption: no re-entrant borrow; DESIGN.md 3.3) ----
#[verifier::external_body]
#[verifier::reject_recursive_types(T)]
pub struct RefCell<T> { _p: core::marker::PhantomData<T> }
impl<T> RefCell<T> {
    pub uninterp spec fn inner(&self) -> T;
    #[verifier::external_body]
    pub fn new(t: T) -> (r: RefCell<T>) ensures r.inner() == t { unimplemented!() }
    #[verifier::external_body]
    pub fn borrow_mut(&self) -> (r: &mut T) ensures *r == self.inner() { unimplemented!() }
    #[verifier::external_body]
    pub fn borrow(&self) -> (r: &T) ensures *r == self.inner() { unimplemented!() }
}
/// a Cell is written through `&self`: reads see its current value, writes leave a receipt
pub uninterp spec fn cell_written(id: int, v: bool) -> bool;
#[verifier::external_body]
#[verifier::reject_recursive_types(T)]
pub struct Cell<T> { _p: core::marker::PhantomData<T> }
impl Cell<bool> {
    pub uninterp spec fn id(&self) -> int;
    /// value a `get()` would return now
    pub uninterp spec fn current(&self) -> bool;
    #[verifier::external_body]
    pub fn new(v: bool) -> (r: Cell<bool>) ensures r.current() == v { unimplemented!() }
    #[verifier::external_body]
    pub fn get(&self) -> (r: bool) ensures r == self.current() { unimplemented!() }
    #[verifier::external_body]
    pub fn set(&self, v: bool) ensures cell_written(self.id(), v) { unimplemented!() }
}
