// ---- std HashMap operations without a vstd spec: assumed contracts, reached through R8 call-site substitution ----
#[verifier::external_body]
pub fn hm_get_mut<'a, K: Eq + core::hash::Hash, V>(m: &'a mut HashMap<K, V>, k: &K) -> (r: Option<&'a mut V>)
    ensures
        match r {
            Some(v) => old(m)@.contains_key(*k) && *v == old(m)@[*k] && final(m)@ == old(m)@.insert(*k, *final(v)),
            None => !old(m)@.contains_key(*k) && final(m)@ == old(m)@,
        }
{ unimplemented!() }
/// mirror of hash_map::Iter (assumed contract of HashMap::iter; rule R7): yields every entry exactly once
#[verifier::external_body]
#[verifier::reject_recursive_types(K)]
#[verifier::reject_recursive_types(V)]
pub struct HmIter<'a, K, V> { _p: core::marker::PhantomData<&'a (K, V)> }
impl<'a, K, V> HmIter<'a, K, V> {
    pub uninterp spec fn map(&self) -> Map<K, V>;
    pub uninterp spec fn seen(&self, k: K) -> bool;
    #[verifier::external_body]
    pub fn next(&mut self) -> (r: Option<(&'a K, &'a V)>)
        ensures final(self).map() == old(self).map(),
            match r {
                Some(kv) => old(self).map().contains_key(*kv.0) && old(self).map()[*kv.0] == *kv.1 && !old(self).seen(*kv.0)
                    && (forall|j: K| #[trigger] final(self).seen(j) == (old(self).seen(j) || j == *kv.0)),
                None => (forall|j: K| #[trigger] old(self).map().contains_key(j) ==> old(self).seen(j))
                    && (forall|j: K| #[trigger] final(self).seen(j) == old(self).seen(j)),
            },
    { unimplemented!() }
}
#[verifier::external_body]
pub fn hm_iter<'a, K, V>(m: &'a HashMap<K, V>) -> (r: HmIter<'a, K, V>)
    ensures r.map() == m@, forall|j: K| !#[trigger] r.seen(j),
{ unimplemented!() }
pub mod hash_axioms {
    use vstd::prelude::*;
    /// String is a well-behaved HashMap key (Eq/Hash agree with value equality); vstd states this only for primitive types
    pub broadcast axiom fn axiom_string_key_model()
        ensures #[trigger] vstd::std_specs::hash::obeys_key_model::<String>();
}
