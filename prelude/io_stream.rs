// ---- mirror of std::io::{Read, Write} as seen through crate::IoStream (assumed contract, DESIGN.md 3.3) ----
// ghost `written`: every byte the transport has accepted so far, in order;
// ghost `delivered`: every byte reads have returned so far, in order.
pub trait IoStream: Sized {
    spec fn written(&self) -> Seq<u8>;
    spec fn delivered(&self) -> Seq<u8>;
    /// ghost: the most recent read reported end of stream (Ok(0))
    spec fn at_eof(&self) -> bool;
    /// write accepts some prefix of buf (possibly empty) or fails having accepted nothing
    fn write(&mut self, buf: &[u8]) -> (r: io::Result<usize>)
        ensures
            final(self).delivered() == old(self).delivered(), final(self).at_eof() == old(self).at_eof(),
            match r {
                Ok(n) => n <= buf@.len() && final(self).written() == old(self).written() + buf@.subrange(0, n as int),
                Err(_) => final(self).written() == old(self).written(),
            };
    /// read fills some prefix of buf with the next bytes of the stream (0 = end of stream) or fails having consumed nothing
    fn read(&mut self, buf: &mut [u8]) -> (r: io::Result<usize>)
        ensures
            final(self).written() == old(self).written(),
            final(buf)@.len() == old(buf)@.len(),
            final(self).at_eof() == (r matches Ok(n) && n == 0 && old(buf)@.len() > 0),
            match r {
                Ok(n) => n <= old(buf)@.len() && final(self).delivered() == old(self).delivered() + final(buf)@.subrange(0, n as int)
                    && final(buf)@.subrange(n as int, old(buf)@.len() as int) == old(buf)@.subrange(n as int, old(buf)@.len() as int),
                Err(_) => final(self).delivered() == old(self).delivered() && final(buf)@ == old(buf)@,
            };
}
