// ---- assumed contract of indexmap::IndexSet<T> (only set semantics are relied upon; order is not) ----
#[verifier::external_body]
#[verifier::reject_recursive_types(T)]
pub struct IndexSet<T> { _v: Vec<T> }
impl<T> IndexSet<T> {
    pub uninterp spec fn has(&self, x: T) -> bool;
    #[verifier::external_body]
    pub fn new() -> (r: Self) ensures forall|x: T| !#[trigger] r.has(x) { unimplemented!() }
    #[verifier::external_body]
    pub fn insert(&mut self, x: T) -> (r: bool)
        ensures forall|y: T| #[trigger] final(self).has(y) == (old(self).has(y) || y == x), r == !old(self).has(x),
    { unimplemented!() }
    #[verifier::external_body]
    pub fn pop(&mut self) -> (r: Option<T>)
        ensures match r {
            Some(x) => old(self).has(x) && (forall|y: T| #[trigger] final(self).has(y) == (old(self).has(y) && y != x)),
            None => (forall|y: T| !#[trigger] old(self).has(y)) && (forall|y: T| #[trigger] final(self).has(y) == old(self).has(y)),
        }
    { unimplemented!() }
    #[verifier::external_body]
    pub fn swap_remove(&mut self, x: &T) -> (r: bool)
        ensures r == old(self).has(*x), forall|y: T| #[trigger] final(self).has(y) == (old(self).has(y) && y != *x),
    { unimplemented!() }
    #[verifier::external_body]
    pub fn remove(&mut self, x: &T) -> (r: bool)
        ensures r == old(self).has(*x), forall|y: T| #[trigger] final(self).has(y) == (old(self).has(y) && y != *x),
    { unimplemented!() }
    #[verifier::external_body]
    pub fn is_empty(&self) -> (r: bool) ensures r == (forall|y: T| !#[trigger] self.has(y)) { unimplemented!() }
    #[verifier::external_body]
    pub fn contains(&self, x: &T) -> (r: bool) ensures r == self.has(*x) { unimplemented!() }
}
