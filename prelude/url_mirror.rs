// ---- boundary mirror of the `url` crate as used by connection::amqp_url (assumed contracts; the type itself is the opaque `Url` of the
// error mirror). A Url is seen through what its accessors return: scheme, host, port. ----
impl Url {
    pub uninterp spec fn sch(&self) -> Seq<char>;
    pub uninterp spec fn host(&self) -> Option<Seq<char>>;
    pub uninterp spec fn prt(&self) -> Option<u16>;
    /// everything of the URL the two setters used here leave alone (user info, path, query)
    pub uninterp spec fn rest(&self) -> int;
    #[verifier::external_body]
    pub fn parse(input: &str) -> (r: core::result::Result<Url, UrlParseErrorOpaque>)
        ensures r matches Ok(u) ==> url_text_parsed(input@, u) && (forall|u2: Url| #[trigger] url_text_parsed(input@, u2) ==> u2 == u), // parsing is a function of the text
            r is Err ==> (forall|u2: Url| !#[trigger] url_text_parsed(input@, u2)),
    { unimplemented!() }
    #[verifier::external_body]
    pub fn has_host(&self) -> (r: bool) ensures r == self.host().is_some() { unimplemented!() }
    #[verifier::external_body]
    pub fn host_str(&self) -> (r: Option<&str>)
        ensures r.is_some() == self.host().is_some(), r matches Some(h) ==> h@ == self.host()->0,
    { unimplemented!() }
    #[verifier::external_body]
    pub fn scheme(&self) -> (r: &str) ensures r@ == self.sch() { unimplemented!() }
    #[verifier::external_body]
    pub fn port(&self) -> (r: Option<u16>) ensures r == self.prt() { unimplemented!() }
    /// set_host / set_port change exactly that component, or fail and change nothing
    #[verifier::external_body]
    pub fn set_host(&mut self, host: Option<&str>) -> (r: core::result::Result<(), UrlParseErrorOpaque>)
        ensures r is Ok ==> final(self).host() == (match host { Some(h) => Some(h@), None => None::<Seq<char>> }) && final(self).sch() == old(self).sch()
                && final(self).prt() == old(self).prt() && final(self).rest() == old(self).rest(),
            r is Err ==> *final(self) == *old(self),
    { unimplemented!() }
    #[verifier::external_body]
    pub fn set_port(&mut self, port: Option<u16>) -> (r: core::result::Result<(), ()>)
        ensures r is Ok ==> final(self).prt() == port && final(self).sch() == old(self).sch() && final(self).host() == old(self).host() && final(self).rest() == old(self).rest(),
            r is Err ==> *final(self) == *old(self),
    { unimplemented!() }
}
impl Clone for Url { #[verifier::external_body] fn clone(&self) -> (r: Self) ensures r == *self { unimplemented!() } }
/// `u` is what the url crate makes of the text
pub uninterp spec fn url_text_parsed(text: Seq<char>, u: Url) -> bool;
