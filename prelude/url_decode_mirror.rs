// ---- boundary mirror of what connection::amqp_url::decode uses of the `url` and `percent-encoding` crates and of std (assumed
// contracts). A Url is seen through what its accessors return: path segments, user name, password, decoded query pairs. Percent-decoding
// and number parsing are uninterpreted functions of the text (their tables are the dependencies' business; the bounded sweep
// witness/C19/sweep_urls.rs exercises them). ----
pub mod url_decode_mirror {
    use vstd::prelude::*;
    use super::{Url, ParseIntErrorOpaque};
    use core::marker::PhantomData;
    /// percent-decoding followed by lossy UTF-8 decoding of a text
    pub uninterp spec fn pct(s: Seq<char>) -> Seq<char>;
    /// the text a byte string is the UTF-8 encoding of
    pub uninterp spec fn utf8_text(b: Seq<u8>) -> Seq<char>;
    /// `str::parse::<u16>` / `::<u64>` as functions of the text
    pub uninterp spec fn parse_u16(s: Seq<char>) -> Option<u16>;
    pub uninterp spec fn parse_u64(s: Seq<char>) -> Option<u64>;
    impl Url {
        /// `None` for a cannot-be-a-base URL, else at least one (possibly empty) segment ("first unwrap guaranteed to be safe by docs for url")
        pub uninterp spec fn segs(&self) -> Option<Seq<Seq<char>>>;
        pub uninterp spec fn user(&self) -> Seq<char>;
        pub uninterp spec fn pass(&self) -> Option<Seq<char>>;
        /// query pairs, already form-decoded by the url crate, in the order they are written
        pub uninterp spec fn query(&self) -> Seq<(Seq<char>, Seq<char>)>;
        #[verifier::external_body]
        pub fn path_segments(&self) -> (r: Option<PathSegments<'_>>)
            ensures r is Some == self.segs() is Some, r matches Some(p) ==> p.rest() == self.segs()->0 && p.rest().len() >= 1,
        { unimplemented!() }
        #[verifier::external_body]
        pub fn username(&self) -> (r: &str) ensures r@ == self.user() { unimplemented!() }
        #[verifier::external_body]
        pub fn password(&self) -> (r: Option<&str>)
            ensures r is Some == self.pass() is Some, r matches Some(p) ==> p@ == self.pass()->0,
        { unimplemented!() }
        #[verifier::external_body]
        pub fn query_pairs(&self) -> (r: QueryPairs<'_>) ensures r.rest() == self.query() { unimplemented!() }
    }
    /// `std::str::Split<'a, char>` as returned by Url::path_segments: the segments not yet yielded
    #[verifier::external_body]
    pub struct PathSegments<'a> { _p: PhantomData<&'a u8> }
    impl<'a> PathSegments<'a> {
        pub uninterp spec fn rest(&self) -> Seq<Seq<char>>;
        #[verifier::external_body]
        pub fn next(&mut self) -> (r: Option<&'a str>)
            ensures old(self).rest().len() == 0 ==> r is None && final(self).rest() == old(self).rest(),
                old(self).rest().len() > 0 ==> r is Some && r->0@ == old(self).rest()[0] && final(self).rest() == old(self).rest().subrange(1, old(self).rest().len() as int),
        { unimplemented!() }
    }
    /// `url::form_urlencoded::Parse<'a>`: the pairs not yet yielded
    #[verifier::external_body]
    pub struct QueryPairs<'a> { _p: PhantomData<&'a u8> }
    impl<'a> QueryPairs<'a> {
        pub uninterp spec fn rest(&self) -> Seq<(Seq<char>, Seq<char>)>;
        #[verifier::external_body]
        pub fn next(&mut self) -> (r: Option<(Cow<'a>, Cow<'a>)>)
            ensures old(self).rest().len() == 0 ==> r is None && final(self).rest() == old(self).rest(),
                old(self).rest().len() > 0 ==> (r matches Some(kv) && kv.0@ == old(self).rest()[0].0 && kv.1@ == old(self).rest()[0].1)
                    && final(self).rest() == old(self).rest().subrange(1, old(self).rest().len() as int),
        { unimplemented!() }
    }
    /// `std::borrow::Cow<'a, str>`: a text (R8: the type is written `Cow<str>` in the source; the mirror carries no type parameter)
    #[verifier::external_body]
    pub struct Cow<'a> { _p: PhantomData<&'a u8> }
    pub trait ParseTarget: Sized { spec fn spec_parse(s: Seq<char>) -> Option<Self>; }
    impl ParseTarget for u16 { open spec fn spec_parse(s: Seq<char>) -> Option<u16> { parse_u16(s) } }
    impl ParseTarget for u64 { open spec fn spec_parse(s: Seq<char>) -> Option<u64> { parse_u64(s) } }
    impl<'a> Cow<'a> {
        pub uninterp spec fn view(&self) -> Seq<char>;
        /// `<Cow<str> as AsRef<str>>::as_ref`
        #[verifier::external_body]
        pub fn as_ref(&self) -> (r: &str) ensures r@ == self@ { unimplemented!() }
        /// `<Cow<str> as ToString>::to_string`
        #[verifier::external_body]
        pub fn to_string(&self) -> (r: String) ensures r@ == self@ { unimplemented!() }
        /// `str::parse::<F>` through deref: Ok exactly when the text is a number of the type
        #[verifier::external_body]
        pub fn parse<F: ParseTarget>(&self) -> (r: core::result::Result<F, ParseIntErrorOpaque>)
            ensures r is Ok == F::spec_parse(self@) is Some, r matches Ok(v) ==> F::spec_parse(self@) == Some(v),
        { unimplemented!() }
    }
    /// `Cow<str>: Into<String>` (what it yields: axiom_cow_into_string)
    impl<'a> core::convert::From<Cow<'a>> for String { #[verifier::external_body] fn from(c: Cow<'a>) -> (r: String) { unimplemented!() } }
    /// `percent_encoding::PercentDecode<'a>`
    #[verifier::external_body]
    pub struct PercentDecode<'a> { _p: PhantomData<&'a u8> }
    impl<'a> PercentDecode<'a> {
        pub uninterp spec fn src(&self) -> Seq<u8>;
        #[verifier::external_body]
        pub fn decode_utf8_lossy(self) -> (r: Cow<'a>) ensures r@ == pct(utf8_text(self.src())) { unimplemented!() }
    }
    pub mod percent_encoding {
        use vstd::prelude::*;
        use super::PercentDecode;
        #[verifier::external_body]
        pub fn percent_decode<'a>(input: &'a [u8]) -> (r: PercentDecode<'a>) ensures r.src() == input@ { unimplemented!() }
    }
    /// `str::as_bytes` (R8: `s.as_bytes()` -> `str_as_bytes(s)`): the UTF-8 encoding of the text
    #[verifier::external_body]
    pub fn str_as_bytes<'a>(s: &'a str) -> (r: &'a [u8]) ensures utf8_text(r@) == s@ { unimplemented!() }
    /// `Cow<str>: Into<String>` yields the text
    pub mod cow_axioms {
        use vstd::prelude::*;
        use super::Cow;
        use super::super::spec_into_string;
        pub broadcast axiom fn axiom_cow_into_string(c: Cow<'_>) ensures (#[trigger] spec_into_string(c))@ == c@;
    }
}
pub use url_decode_mirror::{pct, utf8_text, parse_u16, parse_u64, PathSegments, QueryPairs, Cow, ParseTarget, PercentDecode, percent_encoding, str_as_bytes, cow_axioms};
