// ---- `impl Into<String>` arguments (R8: `x.into()` -> `into_string(x)`); assumed semantics of Into<String> for String / &str ----
pub mod strings {
    use vstd::prelude::*;
    pub uninterp spec fn spec_into_string<S>(s: S) -> String;
    #[verifier::external_body]
    pub fn into_string<S: Into<String>>(s: S) -> (r: String) ensures r == spec_into_string(s) { unimplemented!() }
    /// `&self.name` handed out as `&str` (deref coercion): converting it back yields the same String
    #[verifier::external_body]
    pub fn string_as_str(s: &String) -> (r: &str) ensures spec_into_string(r) == *s, r@ == s@ { unimplemented!() }
    pub mod string_axioms {
        use vstd::prelude::*;
        use super::spec_into_string;
        /// String: Into<String> is the identity
        pub broadcast axiom fn axiom_into_string_id(s: String) ensures #[trigger] spec_into_string(s) == s;
        /// Strings holding the same characters are the same value
        pub broadcast axiom fn axiom_string_ext(a: String, b: String) requires #[trigger] a@ == #[trigger] b@ ensures a == b;
    }
}
pub use strings::{spec_into_string, into_string, string_as_str, string_axioms};
