// ---- mirrors of crossbeam-channel, mio, mio-extras, std::sync::mpsc (assumed contracts, DESIGN.md 2.6 / 3.3) ----
// Effects through `&Sender` are specified by an uninterpreted permission (fixed by the entry function's `requires`)
// and an uninterpreted receipt (`sent`), see DESIGN.md 2.6.
pub uninterp spec fn permitted<T>(id: int, item: T) -> bool;
pub uninterp spec fn sent<T>(id: int, item: T) -> bool;

pub mod mpsc {
    pub enum TryRecvError { Empty, Disconnected }
}
pub use mpsc::TryRecvError;

pub mod crossbeam_channel {
    use vstd::prelude::*;
    use super::{permitted, sent};
    #[verifier::external_body]
    #[verifier::reject_recursive_types(T)]
    pub struct Sender<T> { _p: core::marker::PhantomData<T> }
    #[verifier::external_body]
    #[verifier::reject_recursive_types(T)]
    pub struct Receiver<T> { _p: core::marker::PhantomData<T> }
    pub enum TrySendError<T> { Full(T), Disconnected(T) }
    pub struct SendError<T>(pub T);
    pub struct RecvError;
    impl<T> Sender<T> {
        /// identity of the queue this sender feeds
        pub uninterp spec fn id(&self) -> int;
        /// how many messages the queue holds before try_send reports Full (None: unbounded)
        pub uninterp spec fn cap(&self) -> Option<int>;
        #[verifier::external_body]
        pub fn try_send(&self, item: T) -> (r: core::result::Result<(), TrySendError<T>>)
            requires permitted(self.id(), item),
            ensures r is Ok ==> sent(self.id(), item),
                r matches Err(TrySendError::Full(x)) ==> x == item,
                r matches Err(TrySendError::Disconnected(x)) ==> x == item,
        { unimplemented!() }
        #[verifier::external_body]
        pub fn send(&self, item: T) -> (r: core::result::Result<(), SendError<T>>)
            requires permitted(self.id(), item),
            ensures r is Ok ==> sent(self.id(), item),
                r matches Err(SendError(x)) ==> x == item,
        { unimplemented!() }
    }
    impl<T> Receiver<T> {
        /// identity of the queue this receiver drains (== id() of the paired senders)
        pub uninterp spec fn id(&self) -> int;
        /// the queue is empty and every sender is gone (what a failing recv reports)
        pub uninterp spec fn disconnected_empty(&self) -> bool;
        /// the message handed out by a successful recv on this queue was sent to this queue
        #[verifier::external_body]
        pub fn recv(&self) -> (r: core::result::Result<T, RecvError>)
            ensures r is Ok ==> sent(self.id(), r->Ok_0), r is Err ==> self.disconnected_empty(),
        { unimplemented!() }
    }
    #[verifier::external_body]
    pub fn unbounded<T>() -> (r: (Sender<T>, Receiver<T>)) ensures r.0.id() == r.1.id(), r.0.cap() is None { unimplemented!() }
    #[verifier::external_body]
    pub fn bounded<T>(cap: usize) -> (r: (Sender<T>, Receiver<T>)) ensures r.0.id() == r.1.id(), r.0.cap() == Some(cap as int) { unimplemented!() }
}

pub mod mio_extras {
    pub mod channel {
        use vstd::prelude::*;
        use super::super::mpsc::TryRecvError;
        use super::super::{permitted, sent};
        #[verifier::external_body]
        #[verifier::reject_recursive_types(T)]
        pub struct Receiver<T> { _p: core::marker::PhantomData<T> }
        #[verifier::external_body]
        #[verifier::reject_recursive_types(T)]
        pub struct SyncSender<T> { _p: core::marker::PhantomData<T> }
        pub enum SendError<T> { Io(super::super::io::Error), Disconnected(T) }
        impl<T> Receiver<T> {
            pub uninterp spec fn id(&self) -> int;
            #[verifier::external_body]
            /// a message taken from this queue was sent to this queue
            pub fn try_recv(&self) -> (r: core::result::Result<T, TryRecvError>)
                ensures r is Ok ==> sent(self.id(), r->Ok_0),
            { unimplemented!() }
        }
        impl<T> SyncSender<T> {
            pub uninterp spec fn id(&self) -> int;
            #[verifier::external_body]
            pub fn send(&self, item: T) -> (r: core::result::Result<(), SendError<T>>)
                requires permitted(self.id(), item),
                ensures r is Ok ==> sent(self.id(), item),
            { unimplemented!() }
        }
        #[verifier::external_body]
        pub fn sync_channel<T>(bound: usize) -> (r: (SyncSender<T>, Receiver<T>)) ensures r.0.id() == r.1.id() { unimplemented!() }
    }
    pub mod timer {
        use vstd::prelude::*;
        #[verifier::external_body]
        #[verifier::reject_recursive_types(T)]
        pub struct Timer<T> { _p: core::marker::PhantomData<T> }
        #[verifier::external_body]
        pub struct Timeout { _p: u8 }
        impl<T> Timer<T> {
            /// some timeout has been set on this timer at some point (a timer never fires otherwise)
            pub uninterp spec fn armed(&self) -> bool;
            /// the state values of the timeouts that are set and have neither fired nor been cancelled
            pub uninterp spec fn pending(&self) -> vstd::multiset::Multiset<T>;
            /// a timeout that fires is consumed
            #[verifier::external_body]
            pub fn poll(&mut self) -> (r: Option<T>)
                ensures r is Some ==> old(self).armed(), final(self).armed() == old(self).armed(),
                    r is Some ==> old(self).pending().count(r->0) > 0 && final(self).pending() == old(self).pending().remove(r->0),
                    r is None ==> final(self).pending() == old(self).pending(),
            { unimplemented!() }
        }
    }
}

pub mod mio {
    use vstd::prelude::*;
    use super::io;
    #[derive(Clone, Copy, PartialEq, Eq)]
    pub struct Token(pub usize);
    /// `==` on tokens compares the wrapped id (mio derives PartialEq)
    impl vstd::std_specs::cmp::PartialEqSpecImpl for Token {
        open spec fn obeys_eq_spec() -> bool { true }
        open spec fn eq_spec(&self, o: &Token) -> bool { self.0 == o.0 }
    }
    #[derive(Clone, Copy)]
    pub struct Ready { pub r: bool, pub w: bool }
    impl Ready {
        pub fn readable() -> (r: Ready) ensures r == (Ready { r: true, w: false }) { Ready { r: true, w: false } }
        pub fn writable() -> (r: Ready) ensures r == (Ready { r: false, w: true }) { Ready { r: false, w: true } }
        pub fn is_readable(&self) -> (r: bool) ensures r == self.r { self.r }
        pub fn is_writable(&self) -> (r: bool) ensures r == self.w { self.w }
    }
    impl core::ops::BitOr for Ready {
        type Output = Ready;
        fn bitor(self, o: Ready) -> (r: Ready) { Ready { r: self.r || o.r, w: self.w || o.w } }
    }
    impl vstd::std_specs::ops::BitOrSpecImpl<Ready> for Ready {
        open spec fn obeys_bitor_spec() -> bool { true }
        open spec fn bitor_req(self, o: Ready) -> bool { true }
        open spec fn bitor_spec(self, o: Ready) -> Ready { Ready { r: self.r || o.r, w: self.w || o.w } }
    }
    #[derive(Clone, Copy)]
    pub struct PollOpt { pub e: bool }
    impl PollOpt { pub fn edge() -> PollOpt { PollOpt { e: true } } }
    #[derive(Clone, Copy)]
    pub struct Event { pub tok: Token, pub ready: Ready }
    impl Event {
        pub fn token(&self) -> (r: Token) ensures r == self.tok { self.tok }
        pub fn readiness(&self) -> (r: Ready) ensures r == self.ready { self.ready }
    }
    /// a batch of readiness events
    #[verifier::external_body]
    pub struct Events { _p: u8 }
    /// a readiness event the poll instance can deliver while the loop runs the phase whose state machine has type Phase
    /// (environment; which sources can fire differs between the handshake and the connection phase)
    pub uninterp spec fn wakeup_possible<Phase>(e: Event) -> bool;
    impl Events {
        /// number of events of the last poll
        pub uninterp spec fn count(&self) -> nat;
        #[verifier::external_body]
        pub fn with_capacity(n: usize) -> (r: Events) { unimplemented!() }
        #[verifier::external_body]
        pub fn is_empty(&self) -> (r: bool) ensures r == (self.count() == 0) { unimplemented!() }
    }
    /// R7 iterator mirror of `events.iter()`, tagged with the phase (type of the state machine) the loop is running
    #[verifier::external_body]
    #[verifier::reject_recursive_types(Phase)]
    pub struct EventsIter<'a, Phase> { _p: core::marker::PhantomData<&'a Events>, _q: core::marker::PhantomData<Phase> }
    #[verifier::external_body]
    pub fn events_iter<'a, Phase>(events: &'a Events) -> (r: EventsIter<'a, Phase>) ensures r.remaining() == events.count() { unimplemented!() }
    impl<'a, Phase> EventsIter<'a, Phase> {
        pub uninterp spec fn remaining(&self) -> nat;
        #[verifier::external_body]
        pub fn next(&mut self) -> (r: Option<Event>)
            ensures r is Some <==> old(self).remaining() > 0,
                r is Some ==> final(self).remaining() == old(self).remaining() - 1 && wakeup_possible::<Phase>(r->0),
                r is None ==> final(self).remaining() == 0,
        { unimplemented!() }
    }
    /// kernel poll state is opaque: registration calls may fail, nothing else is known
    #[verifier::external_body]
    pub struct Poll { _p: u8 }
    impl Poll {
        #[verifier::external_body]
        pub fn new() -> (r: io::Result<Poll>) { unimplemented!() }
        #[verifier::external_body]
        pub fn poll(&self, events: &mut Events, timeout: Option<super::Duration>) -> (r: io::Result<usize>) { unimplemented!() }
        #[verifier::external_body]
        pub fn register<E>(&self, handle: &E, token: Token, interest: Ready, opts: PollOpt) -> (r: io::Result<()>) { unimplemented!() }
        #[verifier::external_body]
        pub fn reregister<E>(&self, handle: &E, token: Token, interest: Ready, opts: PollOpt) -> (r: io::Result<()>) { unimplemented!() }
        #[verifier::external_body]
        pub fn deregister<E>(&self, handle: &E) -> (r: io::Result<()>) { unimplemented!() }
    }
}
