// ---- mirror of std::io (assumed): Error is opaque with a kind ----
pub mod io {
    use vstd::prelude::*;
    #[derive(Clone, Copy, PartialEq, Eq)]
    pub enum ErrorKind { WouldBlock, Interrupted, Other }
    #[verifier::external_body]
    pub struct Error { _p: u8 }
    impl Error {
        pub uninterp spec fn spec_kind(&self) -> ErrorKind;
        #[verifier::external_body]
        pub fn kind(&self) -> (r: ErrorKind) ensures r == self.spec_kind() { unimplemented!() }
    }
    pub type Result<T> = core::result::Result<T, Error>;
}
pub use io::Error as IoError;
