//@host src/io_loop/mod.rs
// Finding F14 (C02, recorded, not repaired): a publish is handed to the I/O thread as separate messages (method frame, content header, body
// frames). A frame the I/O thread generates ITSELF on the same channel - Basic.CancelOk answering a server Basic.Cancel, or a heartbeat is not
// the point: same channel - can be appended between them, so the publish's frames are not contiguous among that channel's frames:
//   Basic.Publish(n), Basic.CancelOk(n), content header(n), body(n)
// which a broker treats as a framing error. Needs the I/O thread to handle the server's Basic.Cancel between two hand-overs of one publish:
// here the in-memory queue holds one message (mem_channel_bound 1) and the transport accepts nothing for a moment, so the publisher is
// blocked after the method frame.
// This scenario FAILS on the unchanged tree (that is the finding).
include!("/verif/witness/_common/live_broker.rs");
use crate::{Auth, Connection, ConnectionOptions, ConnectionTuning, ConsumerOptions, Publish};
use std::thread;

#[test]
fn verif_f14_io_thread_frames_do_not_split_a_publish_of_the_same_channel() {
    with_watchdog("F14".to_string(), 60, || {
        let ctl = Handle::new();
        (ctl.0).0.lock().unwrap().tune = Some(connection_::Tune { channel_max: 16, frame_max: 4096, heartbeat: 0 });
        let tuning = ConnectionTuning::default().mem_channel_bound(1).buffered_writes_high_water(0).buffered_writes_low_water(0);
        let mut connection = Connection::insecure_open_stream(LiveBroker::new(ctl.clone()), ConnectionOptions::<Auth>::default().heartbeat(0), tuning).expect("handshake");
        let ch = connection.open_channel(Some(1)).unwrap();
        let consumer = ch.basic_consume("q", ConsumerOptions::default()).unwrap();
        let tag = consumer.consumer_tag().to_string();
        let rx = consumer.receiver().clone();
        std::mem::forget(consumer);
        ctl.take_seen();
        // the transport accepts nothing: above the (zero) high-water mark the I/O thread stops reading the channel's queue after the first message
        ctl.set_budget(Some(0));
        let publisher = thread::spawn(move || {
            let body = vec![7u8; 20_000]; // method + header + 5 body frames: the publisher blocks on the one-entry queue
            let r = ch.basic_publish("", Publish::new(&body, "rk"));
            (ch, r)
        });
        thread::sleep(Duration::from_millis(150));
        // the server cancels the consumer on the same channel (it wants an answer)
        ctl.inject(method_bytes(1, B::Cancel(basic::Cancel { consumer_tag: tag, nowait: false })));
        match rx.recv_timeout(Duration::from_secs(10)) {
            Ok(crate::ConsumerMessage::ServerCancelled) => {}
            other => panic!("consumer: {:?}", other),
        }
        ctl.set_budget(None);
        let (ch, r) = publisher.join().unwrap();
        r.expect("publish");
        ch.qos(0, 0, false).expect("flush");
        // what the broker saw on channel 1: the publish's frames must be contiguous among that channel's frames
        let frames: Vec<String> = ctl
            .take_seen()
            .into_iter()
            .filter(|(n, _)| *n == 1)
            .map(|(_, f)| match f {
                AMQPFrame::Method(_, AMQPClass::Basic(B::Publish(_))) => "Publish".to_string(),
                AMQPFrame::Method(_, AMQPClass::Basic(B::CancelOk(_))) => "CancelOk".to_string(),
                AMQPFrame::Method(_, AMQPClass::Basic(B::Qos(_))) => "Qos".to_string(),
                AMQPFrame::Header(..) => "Header".to_string(),
                AMQPFrame::Body(..) => "Body".to_string(),
                other => format!("{:?}", other),
            })
            .collect();
        let p = frames.iter().position(|f| f == "Publish").expect("no publish on the wire");
        let inside: Vec<&String> = frames[p + 1..].iter().take_while(|f| *f != "Qos").filter(|f| *f != "Header" && *f != "Body").collect();
        let first_foreign = frames[p + 1..].iter().position(|f| f != "Header" && f != "Body").unwrap();
        let content_after = frames[p + 1 + first_foreign..].iter().any(|f| f == "Header" || f == "Body");
        std::mem::forget(ch);
        let _ = connection.close();
        assert!(!content_after, "frames of channel 1 on the wire: {:?} - {:?} sits inside the publish", frames, inside);
    });
}
