//@host src/io_loop/mod.rs
// Finding F10 (C18): run_io_loop starts every phase with its local `listening_to_channels = true`, whatever
// Inner::channels_are_registered says.  If the handshake phase ends while the loop is throttled (buffered bytes above the high-water
// mark at the end of the previous batch), the connection phase starts with the flag still false: every channel allocated from then on
// is registered and immediately de-registered (Inner::allocate_channel), and nothing ever re-registers it because the loop believes
// it is listening.  Connection::open_channel then blocks (forever with heartbeats off) although nothing is buffered.
//
// The scenario uses the public API only, against a scripted transport that behaves like a conformant broker answering at once:
//   tuning: buffered_writes_high_water = 0 (throttle as soon as anything is buffered), low water 0;
//   the transport reports a (legal) spurious `readable` together with `writable` for the batch in which TuneOk + Open are written,
//   and the broker's OpenOk is there by the time the same handler run reads.
// On the repaired tree open_channel completes at once.
use crate::{Auth, Connection, ConnectionOptions, ConnectionTuning, FieldTable, IoStream};
use crate::serialize::OutputBuffer;
use amq_protocol::protocol::channel::AMQPMethod as AmqpChannel;
use amq_protocol::protocol::channel::OpenOk as ChannelOpenOk;
use amq_protocol::protocol::connection::AMQPMethod as AmqpConnection;
use amq_protocol::protocol::connection::{OpenOk, Start, Tune};
use mio::{Evented, Poll, PollOpt, Ready, Registration, SetReadiness, Token};
use std::collections::VecDeque;
use std::io::{self, Read, Write};
use std::sync::mpsc;
use std::time::Duration;

fn method_bytes<M: crate::serialize::IntoAmqpClass>(channel: u16, m: M) -> Vec<u8> {
    let mut buf = OutputBuffer::empty();
    buf.push_method(channel, m);
    buf[0..].to_vec()
}

struct ScriptedBroker {
    registration: Registration,
    readiness: SetReadiness,
    writes: usize,
    inbox: VecDeque<u8>, // what the broker has sent and the client has not read yet
}

impl ScriptedBroker {
    fn new() -> ScriptedBroker {
        let (registration, readiness) = Registration::new2();
        readiness.set_readiness(Ready::writable()).unwrap();
        ScriptedBroker { registration, readiness, writes: 0, inbox: VecDeque::new() }
    }
    fn send(&mut self, bytes: Vec<u8>) {
        self.inbox.extend(bytes);
    }
}

impl Read for ScriptedBroker {
    fn read(&mut self, buf: &mut [u8]) -> io::Result<usize> {
        if self.inbox.is_empty() {
            return Err(io::ErrorKind::WouldBlock.into());
        }
        let n = buf.len().min(self.inbox.len());
        for b in buf[..n].iter_mut() {
            *b = self.inbox.pop_front().unwrap();
        }
        Ok(n)
    }
}

impl Write for ScriptedBroker {
    fn write(&mut self, buf: &[u8]) -> io::Result<usize> {
        self.writes += 1;
        match self.writes {
            // protocol header -> Start
            1 => {
                assert_eq!(buf, b"AMQP\x00\x00\x09\x01");
                self.send(method_bytes(
                    0,
                    AmqpConnection::Start(Start {
                        version_major: 0,
                        version_minor: 9,
                        server_properties: FieldTable::new(),
                        mechanisms: "PLAIN".to_string(),
                        locales: "en_US".to_string(),
                    }),
                ));
                self.readiness.set_readiness(Ready::readable() | Ready::writable()).unwrap();
            }
            // StartOk -> Tune (heartbeats off).  The transport also keeps reporting `readable` afterwards (spurious, legal).
            2 => {
                self.send(method_bytes(0, AmqpConnection::Tune(Tune { channel_max: 16, frame_max: 131_072, heartbeat: 0 })));
                self.readiness.set_readiness(Ready::readable() | Ready::writable()).unwrap();
            }
            // TuneOk + Open -> OpenOk, at once
            3 => {
                self.send(method_bytes(0, AmqpConnection::OpenOk(OpenOk { known_hosts: String::new() })));
                self.readiness.set_readiness(Ready::readable() | Ready::writable()).unwrap();
            }
            // Channel.Open -> Channel.OpenOk
            4 => {
                self.send(method_bytes(1, AmqpChannel::OpenOk(ChannelOpenOk { channel_id: String::new() })));
                self.readiness.set_readiness(Ready::readable() | Ready::writable()).unwrap();
            }
            _ => {}
        }
        Ok(buf.len())
    }
    fn flush(&mut self) -> io::Result<()> {
        Ok(())
    }
}

impl Evented for ScriptedBroker {
    fn register(&self, poll: &Poll, token: Token, interest: Ready, opts: PollOpt) -> io::Result<()> {
        self.registration.register(poll, token, interest, opts)
    }
    fn reregister(&self, poll: &Poll, token: Token, interest: Ready, opts: PollOpt) -> io::Result<()> {
        let r = self.registration.reregister(poll, token, interest, opts);
        // re-arm the edge: a socket that is still writable / still has unread data reports it again after a reregister
        let now = if self.inbox.is_empty() { Ready::writable() } else { Ready::readable() | Ready::writable() };
        let spurious = if self.writes == 2 { Ready::readable() } else { Ready::empty() };
        self.readiness.set_readiness(now | spurious).unwrap();
        r
    }
    fn deregister(&self, poll: &Poll) -> io::Result<()> {
        Evented::deregister(&self.registration, poll)
    }
}

impl IoStream for ScriptedBroker {}

#[test]
fn verif_demo_f10_open_channel_after_handshake_that_ended_throttled() {
    let tuning = ConnectionTuning::default().buffered_writes_high_water(0).buffered_writes_low_water(0);
    let options = ConnectionOptions::<Auth>::default().heartbeat(0);
    let mut connection = Connection::insecure_open_stream(ScriptedBroker::new(), options, tuning).expect("handshake");

    let (tx, rx) = mpsc::channel();
    std::thread::spawn(move || {
        let result = connection.open_channel(Some(1));
        let _ = tx.send(result.is_ok());
        // keep the channel, the connection (and its I/O thread) out of the verdict: closing them is not part of the scenario
        std::mem::forget(result);
        std::mem::forget(connection);
    });
    match rx.recv_timeout(Duration::from_secs(3)) {
        Ok(ok) => assert!(ok, "open_channel failed"),
        Err(_) => panic!("open_channel is still blocked after 3s: the new channel is never polled (nothing is buffered, nothing throttles it)"),
    }
}
