//@host src/io_loop/mod.rs
// F8 (C08): "once the server answers CloseOk - whether or not the server also closes the socket right after - close
// returns Ok".  The server's CloseOk and its socket EOF arrive in the same readable wake-up: the frame is processed
// (state ClientClosed, the closing call gets its CloseOk) but the read loop goes on, sees EOF and the whole I/O loop
// ends with UnexpectedSocketClose, which Connection::close then reports instead of Ok.
use super::*;
use amq_protocol::protocol::connection::AMQPMethod as AmqpConnection;
use amq_protocol::protocol::connection::CloseOk as ConnectionCloseOk;
use std::io::{Read, Write};

/// serves `data` once, then end of stream
struct ScriptedStream {
    data: Vec<u8>,
    pos: usize,
}
impl Read for ScriptedStream {
    fn read(&mut self, buf: &mut [u8]) -> io::Result<usize> {
        let n = std::cmp::min(buf.len(), self.data.len() - self.pos);
        buf[..n].copy_from_slice(&self.data[self.pos..self.pos + n]);
        self.pos += n;
        Ok(n) // 0 once the data is exhausted: the peer closed the socket
    }
}
impl Write for ScriptedStream {
    fn write(&mut self, buf: &[u8]) -> io::Result<usize> {
        Ok(buf.len())
    }
    fn flush(&mut self) -> io::Result<()> {
        Ok(())
    }
}
impl Evented for ScriptedStream {
    fn register(&self, _: &Poll, _: Token, _: Ready, _: PollOpt) -> io::Result<()> {
        Ok(())
    }
    fn reregister(&self, _: &Poll, _: Token, _: Ready, _: PollOpt) -> io::Result<()> {
        Ok(())
    }
    fn deregister(&self, _: &Poll) -> io::Result<()> {
        Ok(())
    }
}
impl IoStream for ScriptedStream {}

fn close_ok_bytes() -> Vec<u8> {
    let mut buf = OutputBuffer::empty();
    buf.push_method(0, AmqpConnection::CloseOk(ConnectionCloseOk {}));
    buf[0..].to_vec()
}

#[test]
fn verif_demo_f8_close_ok_then_eof_in_one_wakeup_is_a_clean_close() {
    let mut io_loop = IoLoop::new(ConnectionTuning::default()).unwrap();
    let (ch0_slot, ch0_handle) = Channel0Slot::new(16);
    let mut state = ConnectionState::Steady(ch0_slot);
    let mut stream = ScriptedStream { data: close_ok_bytes(), pos: 0 };

    // make the poll report the stream readable once
    let (registration, set_readiness) = mio::Registration::new2();
    io_loop.poll.register(&registration, STREAM, Ready::readable(), PollOpt::edge()).unwrap();
    set_readiness.set_readiness(Ready::readable()).unwrap();

    let result = io_loop.run_io_loop(
        &mut stream,
        &mut state,
        IoLoop::handle_steady_event,
        true,
        IoLoop::is_connection_done,
    );
    // the close handshake completed ...
    match state {
        ConnectionState::ClientClosed => (),
        _ => panic!("CloseOk was not processed"),
    }
    drop(ch0_handle);
    // ... so the connection ended cleanly, whether or not the server closed the socket right after
    match result {
        Ok(()) => (),
        Err(err) => panic!("clean close reported as error: {}", err),
    }
}
