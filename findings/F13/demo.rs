//@host src/io_loop/mod.rs
// Finding F13 (C07, C01): the Connection.Close the client sends for a not-allowed / unimplemented method quotes the offending frame in its
// reply-text; when that text is longer than 255 bytes (a server-chosen string of ~190 bytes in the method is enough) the shortstr length
// octet wraps around and the bytes put on the wire are not a decodable Connection.Close: the last frame sent does not carry the reply code
// in a form a compliant peer can read (amq_protocol's own parser - the peer's view - rejects it).
// Passes on the repaired tree, fails on the tree before the fix.
use super::{Channel0Slot, ConnectionState, HeartbeatTimers, Inner};
use amq_protocol::frame::{parse_frame, AMQPFrame};
use amq_protocol::protocol::access::AMQPMethod as AmqpAccess;
use amq_protocol::protocol::access::Request as AccessRequest;
use amq_protocol::protocol::basic::AMQPMethod as AmqpBasic;
use amq_protocol::protocol::basic::Publish;
use amq_protocol::protocol::connection::AMQPMethod as AmqpConnection;
use amq_protocol::protocol::AMQPClass;

fn close_sent_for(frame: AMQPFrame, what: &str) -> (u16, String) {
    let mut inner = Inner::new(HeartbeatTimers::default(), 16);
    let (ch0_slot, _handle) = Channel0Slot::new(16);
    let mut state = ConnectionState::Steady(ch0_slot);
    state.process(&mut inner, frame).unwrap_or_else(|e| panic!("{}: process failed: {}", what, e));
    assert!(matches!(state, ConnectionState::ClientException), "{}: not in the ClientException state", what);
    let bytes = &inner.outbuf[8..];
    match parse_frame(bytes) {
        Ok((rest, AMQPFrame::Method(0, AMQPClass::Connection(AmqpConnection::Close(close))))) => {
            assert!(rest.is_empty(), "{}: bytes behind the closing frame", what);
            (close.reply_code, close.reply_text)
        }
        other => panic!("{}: what the client put on the wire is not a decodable Connection.Close: {:?}", what, other.map(|(_, f)| f)),
    }
}

#[test]
fn verif_f13_close_for_a_long_offending_frame_is_decodable() {
    for &len in &[10usize, 150, 190, 200, 255] {
        for &ch in &['a', 'é', '日'] {
            let s: String = std::iter::repeat(ch).take(len / ch.len_utf8()).collect();
            let what = format!("Basic.Publish from the server, exchange of {} x {:?}", len / ch.len_utf8(), ch);
            let f = AMQPFrame::Method(1, AMQPClass::Basic(AmqpBasic::Publish(Publish { ticket: 0, exchange: s.clone(), routing_key: "rk".to_string(), mandatory: false, immediate: false })));
            let (code, text) = close_sent_for(f, &what);
            assert_eq!(code, 530, "{}", what);
            assert!(text.len() <= 255 && text.starts_with("illegal"), "{}: reply-text {:?}", what, text);
            let what = format!("Access.Request from the server, realm of {} x {:?}", len / ch.len_utf8(), ch);
            let f = AMQPFrame::Method(0, AMQPClass::Access(AmqpAccess::Request(AccessRequest { realm: s, exclusive: false, passive: false, active: false, write: false, read: false })));
            let (code, _) = close_sent_for(f, &what);
            assert_eq!(code, 540, "{}", what);
        }
    }
    // content on channel 0: the text quotes the body bytes
    for &len in &[1usize, 40, 100, 5000] {
        let what = format!("body frame of {} bytes on channel 0", len);
        let (code, text) = close_sent_for(AMQPFrame::Body(0, vec![7u8; len]), &what);
        assert_eq!(code, 530, "{}", what);
        assert!(text.len() <= 255, "{}", what);
    }
}
