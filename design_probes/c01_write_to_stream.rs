use vstd::prelude::*;
use std::ops::{Index, RangeFrom};
use vstd::std_specs::core::IndexSpecImpl;
verus! {
global size_of usize == 8;

pub enum Error { IoErrorWritingSocket }
pub type Result<T> = std::result::Result<T, Error>;
pub enum ErrorKind { WouldBlock, Other }
#[verifier::external_body]
pub struct IoError { }
impl IoError {
    pub uninterp spec fn kind_spec(&self) -> ErrorKind;
    #[verifier::external_body]
    pub fn kind(&self) -> (r: ErrorKind) ensures r == self.kind_spec() { unimplemented!() }
}

// assumed contract of std::io::Write::write
pub trait IoStream {
    spec fn written(&self) -> Seq<u8>;
    fn write(&mut self, buf: &[u8]) -> (r: std::result::Result<usize, IoError>)
        ensures
            match r {
                Ok(n) => n <= buf@.len() && final(self).written() == old(self).written() + buf@.subrange(0, n as int),
                Err(_) => final(self).written() == old(self).written(),
            };
}

#[verifier::external_body]
pub struct HeartbeatTimers { }
impl HeartbeatTimers {
    #[verifier::external_body]
    pub fn record_tx_activity(&mut self) { }
}

pub struct OutputBuffer(pub Vec<u8>);
impl OutputBuffer {
    pub fn len(&self) -> (r: usize) ensures r == self.0@.len() { self.0.len() }
    pub fn clear(&mut self) ensures final(self).0@.len() == 0 { self.0.clear() }
    #[verifier::external_body]
    pub fn drain_written(&mut self, n: usize)
        requires n <= old(self).0@.len(),
        ensures final(self).0@ == old(self).0@.subrange(n as int, old(self).0@.len() as int),
    { self.0.drain(0..n); }
}
impl Index<RangeFrom<usize>> for OutputBuffer {
    type Output = [u8];
    fn index(&self, index: RangeFrom<usize>) -> (r: &[u8])
        ensures r@ == self.0@.subrange(index.start as int, self.0@.len() as int)
    {
        &self.0[index]
    }
}
impl IndexSpecImpl<RangeFrom<usize>> for OutputBuffer {
    open spec fn index_req(&self, index: &RangeFrom<usize>) -> bool { index.start <= self.0@.len() }
}

pub struct Inner { pub outbuf: OutputBuffer, pub heartbeats: HeartbeatTimers }

impl Inner {
    #[verifier::exec_allows_no_decreases_clause]
    fn write_to_stream<S: IoStream>(&mut self, stream: &mut S) -> (r: Result<()>)
        ensures
            // no byte lost, duplicated or reordered: written ++ still-buffered is invariant
            r is Ok ==> final(stream).written() + final(self).outbuf.0@ == old(stream).written() + old(self).outbuf.0@,
            // on error only a prefix of the buffer was written
            r is Err ==> exists|k: int| 0 <= k <= old(self).outbuf.0@.len() && final(stream).written() == old(stream).written() + old(self).outbuf.0@.subrange(0, k),
    {
        let len = self.outbuf.len();
        let mut pos = 0;

        while pos < len
            invariant
                pos <= len,
                len == self.outbuf.0@.len(),
                self.outbuf.0@ == old(self).outbuf.0@,
                stream.written() == old(stream).written() + old(self).outbuf.0@.subrange(0, pos as int),
        {
            let n = match stream.write(&self.outbuf[pos..]) {
                Ok(n) => {
                    self.heartbeats.record_tx_activity();
                    n
                }
                Err(err) => match err.kind() {
                    ErrorKind::WouldBlock => {
                        self.outbuf.drain_written(pos);
                        return Ok(());
                    }
                    _ => return Err(Error::IoErrorWritingSocket),
                },
            };
            pos += n;
        }

        self.outbuf.clear();
        Ok(())
    }
}

fn main() {}
}
