use vstd::prelude::*;
use std::result::Result as StdResult;
verus! {
global size_of usize == 8;
#[derive(Debug)]
pub enum GenError { BufferTooSmall(usize), Other }
pub uninterp spec fn payload_of<F>(f: F) -> Seq<u8>;

// trampoline carrying the assumed contract of a cookie-factory generator closure
#[verifier::external_body]
fn gen_call<F: Fn(&mut [u8], usize) -> StdResult<(&mut [u8], usize), GenError>>(f: &F, buf: &mut Vec<u8>, pos: usize) -> (r: StdResult<usize, GenError>)
    requires pos <= old(buf)@.len(),
    ensures
        final(buf)@.len() == old(buf)@.len(),
        final(buf)@.subrange(0, pos as int) == old(buf)@.subrange(0, pos as int),
        match r {
            Ok(end) => end == pos + payload_of(*f).len() && end <= old(buf)@.len() && final(buf)@.subrange(pos as int, end as int) == payload_of(*f),
            Err(GenError::BufferTooSmall(n)) => old(buf)@.len() < n <= pos + payload_of(*f).len(),
            Err(_) => false,
        },
{ match f(buf, pos) { Ok((_, e)) => Ok(e), Err(e) => Err(e) } }

#[verifier::exec_allows_no_decreases_clause]
fn serialize<F: Fn(&mut [u8], usize) -> StdResult<(&mut [u8], usize), GenError>>(
    buf: &mut Vec<u8>,
    f: F,
)
    requires old(buf)@.len() + payload_of(f).len() <= usize::MAX,
    ensures final(buf)@ =~= old(buf)@ + payload_of(f),
{
    let pos = buf.len();
    loop
        invariant pos == old(buf)@.len(), buf@.len() >= pos, buf@.len() <= pos + payload_of(f).len(),
            buf@.subrange(0, pos as int) == old(buf)@,
    {
        let resize_to = match gen_call(&f, buf, pos) {
            Ok(_) => return,
            Err(GenError::BufferTooSmall(n)) => n,
            Err(err) => unreachable!("impossible serialization error: {:?}", err),
        };
        buf.resize(resize_to, 0);
    }
}
fn main() {}
}
