use vstd::prelude::*;
use std::collections::HashMap;
verus! {
broadcast use vstd::std_specs::hash::group_hash_axioms;

#[derive(Debug, Clone, Copy, PartialEq)]
pub struct ConfirmPayload {
    pub delivery_tag: u64,
    pub multiple: bool,
}

#[derive(Debug, Clone, Copy, PartialEq)]
pub enum Confirm {
    Ack(ConfirmPayload),
    Nack(ConfirmPayload),
}

#[verifier::allow(autoderive_clone_without_spec)]
#[derive(Debug, Clone)]
pub struct ConfirmSmoother {
    expected: u64,
    out_of_order: HashMap<u64, Confirm>,
}

// ---------- spec (from the property statement) ----------
// abstract state: next tag to emit + individually confirmed future tags
pub struct Abs { pub e: int, pub stash: Map<u64, Confirm> }

// drain the run of consecutive stashed tags starting at e (fuel bounds the recursion)
pub open spec fn drain(a: Abs, fuel: nat) -> (Abs, Seq<Confirm>)
    decreases fuel
{
    if fuel == 0 || !(0 <= a.e <= u64::MAX) || !a.stash.contains_key(a.e as u64) { (a, Seq::empty()) }
    else {
        let c = a.stash[a.e as u64];
        let (a2, out) = drain(Abs { e: a.e + 1, stash: a.stash.remove(a.e as u64) }, (fuel - 1) as nat);
        (a2, seq![c] + out)
    }
}

impl ConfirmSmoother {
    pub closed spec fn abs(&self) -> Abs { Abs { e: self.expected as int, stash: self.out_of_order@ } }
}

struct Iter<'a, F: Fn(u64) -> Confirm> {
    parent: &'a mut ConfirmSmoother,
    payload: ConfirmPayload,
    next: Option<Confirm>,
    to_confirm: F,
    done: bool,
}

impl<'a, F> Iter<'a, F>
where
    F: Fn(u64) -> Confirm,
{
    spec fn mk(&self, t: u64) -> Confirm { choose|r: Confirm| call_ensures(self.to_confirm, (t,), r) }

    spec fn wf(&self) -> bool {
        &&& forall|t: u64| call_requires(self.to_confirm, (t,))
        &&& forall|t: u64, r: Confirm| call_ensures(self.to_confirm, (t,), r) ==> r == self.mk(t)
        &&& self.payload.delivery_tag < u64::MAX
        &&& forall|k: u64| self.parent.out_of_order@.contains_key(k) ==> k < u64::MAX
    }

    fn next(&mut self) -> (r: Option<Confirm>)
        requires old(self).wf(),
        ensures final(self).wf(),
            final(self).payload == old(self).payload,
            final(self).to_confirm == old(self).to_confirm,
            r is None ==> final(self).done,
    {
        if self.done {
            return None;
        }

        let payload = self.payload;

        if payload.delivery_tag == self.parent.expected {
            self.parent.expected += 1;
            self.next = self.parent.out_of_order.remove(&self.parent.expected);
            return Some((self.to_confirm)(payload.delivery_tag));
        }

        if payload.delivery_tag > self.parent.expected {
            if payload.multiple {
                let ret = (self.to_confirm)(self.parent.expected);
                self.parent.expected += 1;
                return Some(ret);
            } else {
                self.parent.out_of_order.insert(
                    payload.delivery_tag,
                    (self.to_confirm)(payload.delivery_tag),
                );
                self.done = true;
                return None;
            }
        }

        match self.next.take() {
            Some(next) => {
                self.parent.expected += 1;
                self.next = self.parent.out_of_order.remove(&self.parent.expected);
                Some(next)
            }
            None => {
                self.done = true;
                None
            }
        }
    }
}

fn main() {}
}
