#![allow(unused_imports, dead_code, unused_variables)]
use vstd::prelude::*;
#[derive(Clone, Debug, PartialEq)]
pub struct FieldTable { _p: u8 }
verus! {
#[verifier::external_type_specification]
#[verifier::external_body]
pub struct ExFieldTable(FieldTable);
pub assume_specification [<FieldTable as Clone>::clone] (x: &FieldTable) -> (r: FieldTable) ensures r == *x;

pub enum Error { FrameUnexpected, SaslSecureNotSupported, FrameMaxTooSmall }
pub type Result<T> = std::result::Result<T, Error>;
pub struct FrameUnexpectedSnafu;
impl FrameUnexpectedSnafu { pub fn fail<T>(self) -> (r: Result<T>) ensures r == Err::<T, Error>(Error::FrameUnexpected) { Err(Error::FrameUnexpected) } }
pub struct SaslSecureNotSupportedSnafu;
impl SaslSecureNotSupportedSnafu { pub fn fail<T>(self) -> (r: Result<T>) ensures r == Err::<T, Error>(Error::SaslSecureNotSupported) { Err(Error::SaslSecureNotSupported) } }

pub trait Sasl: Default + Clone + Send + 'static {
    fn mechanism(&self) -> String;
    fn response(&self) -> String;
}
#[derive(Clone, Debug)]
pub struct ConnectionOptions<Auth: Sasl> { pub auth: Auth, pub virtual_host: String, pub heartbeat: u16 }
#[derive(Clone, Debug)] pub struct Start { pub server_properties: FieldTable }
#[derive(Clone, Debug)] pub struct StartOk { pub x: u8 }
#[derive(Clone, Debug)] pub struct Secure { pub c: u8 }
#[derive(Clone, Debug)] pub struct Tune { pub heartbeat: u16 }
#[derive(Clone, Debug)] pub struct TuneOk { pub heartbeat: u16 }
#[derive(Clone, Debug)] pub struct Open { pub virtual_host: String }
#[derive(Clone, Debug)] pub struct OpenOk {}
#[derive(Clone, Debug)] pub struct Close { pub reply_code: u16 }
#[derive(Clone, Debug)] pub struct CloseOk {}
#[derive(Clone, Debug)]
pub enum AmqpConnection { Start(Start), StartOk(StartOk), Secure(Secure), Tune(Tune), TuneOk(TuneOk), Open(Open), OpenOk(OpenOk), Close(Close), CloseOk(CloseOk) }
#[derive(Clone, Debug)]
pub enum AMQPFrame { Method(u16, AmqpConnection), Heartbeat(u16) }

impl<Auth: Sasl> ConnectionOptions<Auth> {
    #[verifier::external_body] pub fn make_start_ok(&self, start: Start) -> Result<(StartOk, FieldTable)> { unimplemented!() }
    #[verifier::external_body] pub fn make_tune_ok(&self, tune: Tune) -> Result<TuneOk> { unimplemented!() }
    #[verifier::external_body] pub fn make_open(&self) -> Open { unimplemented!() }
}
macro_rules! tf { ($t:ident) => { impl $t { #[verifier::external_body] pub fn try_from(ch: u16, f: AMQPFrame) -> Result<$t> { unimplemented!() } } } }
tf!(Start); tf!(Secure); tf!(Tune); tf!(OpenOk); tf!(Close);

pub struct Inner { pub sealed: bool }
impl Inner {
    #[verifier::external_body] pub fn push_method(&mut self, ch: u16, m: AmqpConnection) { }
    #[verifier::external_body] pub fn start_heartbeats(&mut self, i: u16) { }
    pub fn seal_writes(&mut self) { self.sealed = true; }
}

#[derive(Debug)]
pub enum HandshakeState<Auth: Sasl> {
    Start(ConnectionOptions<Auth>),
    Secure(ConnectionOptions<Auth>, FieldTable),
    Tune(ConnectionOptions<Auth>, FieldTable),
    Open(TuneOk, FieldTable),
    ServerClosing(Close),
    Done(TuneOk, FieldTable),
}

impl<Auth: Sasl> HandshakeState<Auth> {
    pub fn process(&mut self, inner: &mut Inner, frame: AMQPFrame) -> Result<()>
        decreases (if *old(self) is Secure { 1int } else { 0int }),
    {
        // unlikely but not impossible to receive a heartbeat during handshake
        if let AMQPFrame::Heartbeat(0) = frame {
            return Ok(());
        }

        match self {
            HandshakeState::Start(options) => {
                let start = Start::try_from(0, frame)?;

                let (start_ok, server_properties) = options.make_start_ok(start)?;
                inner.push_method(0, AmqpConnection::StartOk(start_ok));

                *self = HandshakeState::Secure(options.clone(), server_properties);
            }
            HandshakeState::Secure(options, server_properties) => {
                // We currently only support PLAIN and EXTERNAL, neither of which
                // need a secure/secure-ok
                if let Ok(secure) = Secure::try_from(0, frame.clone()) {
                    return SaslSecureNotSupportedSnafu.fail();
                }
                *self = HandshakeState::Tune(options.clone(), server_properties.clone());
                return self.process(inner, frame);
            }
            HandshakeState::Tune(options, server_properties) => {
                let tune = Tune::try_from(0, frame)?;

                let tune_ok = options.make_tune_ok(tune)?;
                inner.start_heartbeats(tune_ok.heartbeat);

                inner.push_method(0, AmqpConnection::TuneOk(tune_ok.clone()));

                let open = options.make_open();
                inner.push_method(0, AmqpConnection::Open(open));

                *self = HandshakeState::Open(tune_ok, server_properties.clone());
            }
            HandshakeState::Open(tune_ok, server_properties) => {
                // If we sent bad tune params, server might send us a Close.
                if let Ok(close) = Close::try_from(0, frame.clone()) {
                    inner.push_method(0, AmqpConnection::CloseOk(CloseOk {}));
                    inner.seal_writes();
                    *self = HandshakeState::ServerClosing(close);
                    return Ok(());
                }

                let open_ok = OpenOk::try_from(0, frame)?;

                *self = HandshakeState::Done(tune_ok.clone(), server_properties.clone());
            }
            HandshakeState::ServerClosing(_) | HandshakeState::Done(_, _) => {
                return FrameUnexpectedSnafu.fail();
            }
        }
        Ok(())
    }
}
fn main() {}
}
