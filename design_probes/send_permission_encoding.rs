use vstd::prelude::*;
use std::collections::hash_map::HashMap;
verus! {
broadcast use vstd::std_specs::hash::group_hash_axioms;

pub enum Error { Bogus { channel_id: u16 }, Full }
pub type Result<T> = std::result::Result<T, Error>;
pub enum Msg { Method(u32), Other }

#[verifier::external_body]
#[verifier::reject_recursive_types(T)]
pub struct Sender<T> { _p: core::marker::PhantomData<T> }
impl<T> Sender<T> { pub uninterp spec fn id(&self) -> int; }

pub uninterp spec fn permitted<T>(id: int, item: T) -> bool;   // fixed by the entry function's precondition
pub uninterp spec fn sent<T>(id: int, item: T) -> bool;        // receipt

#[verifier::external_body]
fn send<T>(tx: &Sender<T>, item: T) -> (r: Result<()>)
    requires permitted(tx.id(), item),
    ensures r is Ok ==> sent(tx.id(), item),
{ unimplemented!() }

pub struct ChannelSlot { pub tx: Sender<Msg> }
pub struct Inner { pub slots: HashMap<u16, ChannelSlot> }

fn slot_get(inner: &mut Inner, channel_id: u16) -> (r: Result<&ChannelSlot>)
    ensures match r { Ok(s) => old(inner).slots@.contains_key(channel_id) && *s == old(inner).slots@[channel_id], Err(e) => !old(inner).slots@.contains_key(channel_id) && e == (Error::Bogus { channel_id }) },
        *final(inner) == *old(inner),
{
    match inner.slots.get(&channel_id) { Some(s) => Ok(s), None => Err(Error::Bogus { channel_id }) }
}

pub open spec fn allowed(st: Inner, n: u16, m: u32, id: int, item: Msg) -> bool {
    st.slots@.contains_key(n) && id == st.slots@[n].tx.id() && item == Msg::Method(m)
}

fn route(inner: &mut Inner, n: u16, m: u32) -> (r: Result<()>)
    requires forall|id: int, item: Msg| #[trigger] permitted(id, item) <==> allowed(*old(inner), n, m, id, item),
    ensures *final(inner) == *old(inner),
        r is Ok ==> old(inner).slots@.contains_key(n) && sent(old(inner).slots@[n].tx.id(), Msg::Method(m)),
        !old(inner).slots@.contains_key(n) ==> r == Err::<(), Error>(Error::Bogus { channel_id: n }),
{
    let slot = slot_get(inner, n)?;
    send(&slot.tx, Msg::Method(m))?;
    Ok(())
}

// mutant: routes to the wrong channel -> must fail the permission precondition
fn route_bad(inner: &mut Inner, n: u16, m: u32) -> (r: Result<()>)
    requires n < 100, forall|id: int, item: Msg| #[trigger] permitted(id, item) <==> allowed(*old(inner), n, m, id, item),
{
    let slot = slot_get(inner, n + 1)?;
    send(&slot.tx, Msg::Method(m))?;
    Ok(())
}

fn main() {}
}
