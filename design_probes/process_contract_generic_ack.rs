#![verifier::allow(autoderive_clone_without_spec)]
#![allow(unused_imports, dead_code, unused_variables, unused_mut, non_camel_case_types)]
use vstd::prelude::*;
use std::collections::hash_map::{Entry, HashMap};
#[derive(Clone, Debug, PartialEq)]
pub struct FieldTable { _p: u8 }
#[derive(Clone, Debug, PartialEq)]
pub struct AMQPProperties { _p: u8 }
verus! {
broadcast use vstd::std_specs::hash::group_hash_axioms;
global size_of usize == 8;

// ---- amq_protocol::types mirrors ----
pub type ShortString = String;
pub type LongString = String;
pub type ShortShortUInt = u8;
pub type ShortUInt = u16;
pub type LongUInt = u32;
pub type LongLongUInt = u64;
pub type Boolean = bool;
#[verifier::external_type_specification]
#[verifier::external_body]
pub struct ExFieldTable(FieldTable);
#[verifier::external_type_specification]
#[verifier::external_body]
pub struct ExAMQPProperties(AMQPProperties);
pub assume_specification [<FieldTable as Clone>::clone] (x: &FieldTable) -> (r: FieldTable) ensures r == *x;
pub assume_specification [<AMQPProperties as Clone>::clone] (x: &AMQPProperties) -> (r: AMQPProperties) ensures r == *x;
pub type AmqpProperties = AMQPProperties;

#[derive(Clone, Debug, PartialEq)]
pub enum AMQPHardError {
    CONNECTIONFORCED,
    INVALIDPATH,
    FRAMEERROR,
    SYNTAXERROR,
    COMMANDINVALID,
    CHANNELERROR,
    UNEXPECTEDFRAME,
    RESOURCEERROR,
    NOTALLOWED,
    NOTIMPLEMENTED,
    INTERNALERROR,
    }

impl AMQPHardError {
    pub fn get_id(&self) -> ShortUInt {
        match *self {
            AMQPHardError::CONNECTIONFORCED => 320,
            AMQPHardError::INVALIDPATH => 402,
            AMQPHardError::FRAMEERROR => 501,
            AMQPHardError::SYNTAXERROR => 502,
            AMQPHardError::COMMANDINVALID => 503,
            AMQPHardError::CHANNELERROR => 504,
            AMQPHardError::UNEXPECTEDFRAME => 505,
            AMQPHardError::RESOURCEERROR => 506,
            AMQPHardError::NOTALLOWED => 530,
            AMQPHardError::NOTIMPLEMENTED => 540,
            AMQPHardError::INTERNALERROR => 541,
            }
    }
}

#[derive(Clone, Debug, PartialEq)]
pub enum AMQPClass {
    Connection(connection::AMQPMethod),
    Channel(channel::AMQPMethod),
    Access(access::AMQPMethod),
    Exchange(exchange::AMQPMethod),
    Queue(queue::AMQPMethod),
    Basic(basic::AMQPMethod),
    Tx(tx::AMQPMethod),
    Confirm(confirm::AMQPMethod),
    }

pub mod connection {
    use super::*;
    #[derive(Clone, Debug, PartialEq)]
    pub enum AMQPMethod {
        Start(Start),
        StartOk(StartOk),
        Secure(Secure),
        SecureOk(SecureOk),
        Tune(Tune),
        TuneOk(TuneOk),
        Open(Open),
        OpenOk(OpenOk),
        Close(Close),
        CloseOk(CloseOk),
        Blocked(Blocked),
        Unblocked(Unblocked),
        }
    #[derive(Clone, Debug, PartialEq)]
    pub struct Start {
        pub version_major: ShortShortUInt,
        pub version_minor: ShortShortUInt,
        pub server_properties: FieldTable,
        pub mechanisms: LongString,
        pub locales: LongString,
        }
    #[derive(Clone, Debug, PartialEq)]
    pub struct StartOk {
        pub client_properties: FieldTable,
        pub mechanism: ShortString,
        pub response: LongString,
        pub locale: ShortString,
        }
    #[derive(Clone, Debug, PartialEq)]
    pub struct Secure {
        pub challenge: LongString,
        }
    #[derive(Clone, Debug, PartialEq)]
    pub struct SecureOk {
        pub response: LongString,
        }
    #[derive(Clone, Debug, PartialEq)]
    pub struct Tune {
        pub channel_max: ShortUInt,
        pub frame_max: LongUInt,
        pub heartbeat: ShortUInt,
        }
    #[derive(Clone, Debug, PartialEq)]
    pub struct TuneOk {
        pub channel_max: ShortUInt,
        pub frame_max: LongUInt,
        pub heartbeat: ShortUInt,
        }
    #[derive(Clone, Debug, PartialEq)]
    pub struct Open {
        pub virtual_host: ShortString,
        pub capabilities: ShortString,
        
        pub insist: Boolean,
        }
    #[derive(Clone, Debug, PartialEq)]
    pub struct OpenOk {
        pub known_hosts: ShortString,
        }
    #[derive(Clone, Debug, PartialEq)]
    pub struct Close {
        pub reply_code: ShortUInt,
        pub reply_text: ShortString,
        pub class_id: ShortUInt,
        pub method_id: ShortUInt,
        }
    #[derive(Clone, Debug, PartialEq)]
    pub struct CloseOk {
        }
    #[derive(Clone, Debug, PartialEq)]
    pub struct Blocked {
        pub reason: ShortString,
        }
    #[derive(Clone, Debug, PartialEq)]
    pub struct Unblocked {
        }
}

pub mod channel {
    use super::*;
    #[derive(Clone, Debug, PartialEq)]
    pub enum AMQPMethod {
        Open(Open),
        OpenOk(OpenOk),
        Flow(Flow),
        FlowOk(FlowOk),
        Close(Close),
        CloseOk(CloseOk),
        }
    #[derive(Clone, Debug, PartialEq)]
    pub struct Open {
        pub out_of_band: ShortString,
        }
    #[derive(Clone, Debug, PartialEq)]
    pub struct OpenOk {
        pub channel_id: LongString,
        }
    #[derive(Clone, Debug, PartialEq)]
    pub struct Flow {
        
        pub active: Boolean,
        }
    #[derive(Clone, Debug, PartialEq)]
    pub struct FlowOk {
        
        pub active: Boolean,
        }
    #[derive(Clone, Debug, PartialEq)]
    pub struct Close {
        pub reply_code: ShortUInt,
        pub reply_text: ShortString,
        pub class_id: ShortUInt,
        pub method_id: ShortUInt,
        }
    #[derive(Clone, Debug, PartialEq)]
    pub struct CloseOk {
        }
}

pub mod access {
    use super::*;
    #[derive(Clone, Debug, PartialEq)]
    pub enum AMQPMethod {
        Request(Request),
        RequestOk(RequestOk),
        }
    #[derive(Clone, Debug, PartialEq)]
    pub struct Request {
        pub realm: ShortString,
        
        pub exclusive: Boolean,
        pub passive: Boolean,
        pub active: Boolean,
        pub write: Boolean,
        pub read: Boolean,
        }
    #[derive(Clone, Debug, PartialEq)]
    pub struct RequestOk {
        pub ticket: ShortUInt,
        }
}

pub mod exchange {
    use super::*;
    #[derive(Clone, Debug, PartialEq)]
    pub enum AMQPMethod {
        Declare(Declare),
        DeclareOk(DeclareOk),
        Delete(Delete),
        DeleteOk(DeleteOk),
        Bind(Bind),
        BindOk(BindOk),
        Unbind(Unbind),
        UnbindOk(UnbindOk),
        }
    #[derive(Clone, Debug, PartialEq)]
    pub struct Declare {
        pub ticket: ShortUInt,
        pub exchange: ShortString,
        pub type_: ShortString,
        
        pub passive: Boolean,
        pub durable: Boolean,
        pub auto_delete: Boolean,
        pub internal: Boolean,
        pub nowait: Boolean,
        pub arguments: FieldTable,
        }
    #[derive(Clone, Debug, PartialEq)]
    pub struct DeclareOk {
        }
    #[derive(Clone, Debug, PartialEq)]
    pub struct Delete {
        pub ticket: ShortUInt,
        pub exchange: ShortString,
        
        pub if_unused: Boolean,
        pub nowait: Boolean,
        }
    #[derive(Clone, Debug, PartialEq)]
    pub struct DeleteOk {
        }
    #[derive(Clone, Debug, PartialEq)]
    pub struct Bind {
        pub ticket: ShortUInt,
        pub destination: ShortString,
        pub source: ShortString,
        pub routing_key: ShortString,
        
        pub nowait: Boolean,
        pub arguments: FieldTable,
        }
    #[derive(Clone, Debug, PartialEq)]
    pub struct BindOk {
        }
    #[derive(Clone, Debug, PartialEq)]
    pub struct Unbind {
        pub ticket: ShortUInt,
        pub destination: ShortString,
        pub source: ShortString,
        pub routing_key: ShortString,
        
        pub nowait: Boolean,
        pub arguments: FieldTable,
        }
    #[derive(Clone, Debug, PartialEq)]
    pub struct UnbindOk {
        }
}

pub mod queue {
    use super::*;
    #[derive(Clone, Debug, PartialEq)]
    pub enum AMQPMethod {
        Declare(Declare),
        DeclareOk(DeclareOk),
        Bind(Bind),
        BindOk(BindOk),
        Purge(Purge),
        PurgeOk(PurgeOk),
        Delete(Delete),
        DeleteOk(DeleteOk),
        Unbind(Unbind),
        UnbindOk(UnbindOk),
        }
    #[derive(Clone, Debug, PartialEq)]
    pub struct Declare {
        pub ticket: ShortUInt,
        pub queue: ShortString,
        
        pub passive: Boolean,
        pub durable: Boolean,
        pub exclusive: Boolean,
        pub auto_delete: Boolean,
        pub nowait: Boolean,
        pub arguments: FieldTable,
        }
    #[derive(Clone, Debug, PartialEq)]
    pub struct DeclareOk {
        pub queue: ShortString,
        pub message_count: LongUInt,
        pub consumer_count: LongUInt,
        }
    #[derive(Clone, Debug, PartialEq)]
    pub struct Bind {
        pub ticket: ShortUInt,
        pub queue: ShortString,
        pub exchange: ShortString,
        pub routing_key: ShortString,
        
        pub nowait: Boolean,
        pub arguments: FieldTable,
        }
    #[derive(Clone, Debug, PartialEq)]
    pub struct BindOk {
        }
    #[derive(Clone, Debug, PartialEq)]
    pub struct Purge {
        pub ticket: ShortUInt,
        pub queue: ShortString,
        
        pub nowait: Boolean,
        }
    #[derive(Clone, Debug, PartialEq)]
    pub struct PurgeOk {
        pub message_count: LongUInt,
        }
    #[derive(Clone, Debug, PartialEq)]
    pub struct Delete {
        pub ticket: ShortUInt,
        pub queue: ShortString,
        
        pub if_unused: Boolean,
        pub if_empty: Boolean,
        pub nowait: Boolean,
        }
    #[derive(Clone, Debug, PartialEq)]
    pub struct DeleteOk {
        pub message_count: LongUInt,
        }
    #[derive(Clone, Debug, PartialEq)]
    pub struct Unbind {
        pub ticket: ShortUInt,
        pub queue: ShortString,
        pub exchange: ShortString,
        pub routing_key: ShortString,
        pub arguments: FieldTable,
        }
    #[derive(Clone, Debug, PartialEq)]
    pub struct UnbindOk {
        }
}

pub mod basic {
    use super::*;
    #[derive(Clone, Debug, PartialEq)]
    pub enum AMQPMethod {
        Qos(Qos),
        QosOk(QosOk),
        Consume(Consume),
        ConsumeOk(ConsumeOk),
        Cancel(Cancel),
        CancelOk(CancelOk),
        Publish(Publish),
        Return(Return),
        Deliver(Deliver),
        Get(Get),
        GetOk(GetOk),
        GetEmpty(GetEmpty),
        Ack(Ack),
        Reject(Reject),
        RecoverAsync(RecoverAsync),
        Recover(Recover),
        RecoverOk(RecoverOk),
        Nack(Nack),
        }
    #[derive(Clone, Debug, PartialEq)]
    pub struct Qos {
        pub prefetch_size: LongUInt,
        pub prefetch_count: ShortUInt,
        
        pub global: Boolean,
        }
    #[derive(Clone, Debug, PartialEq)]
    pub struct QosOk {
        }
    #[derive(Clone, Debug, PartialEq)]
    pub struct Consume {
        pub ticket: ShortUInt,
        pub queue: ShortString,
        pub consumer_tag: ShortString,
        
        pub no_local: Boolean,
        pub no_ack: Boolean,
        pub exclusive: Boolean,
        pub nowait: Boolean,
        pub arguments: FieldTable,
        }
    #[derive(Clone, Debug, PartialEq)]
    pub struct ConsumeOk {
        pub consumer_tag: ShortString,
        }
    #[derive(Clone, Debug, PartialEq)]
    pub struct Cancel {
        pub consumer_tag: ShortString,
        
        pub nowait: Boolean,
        }
    #[derive(Clone, Debug, PartialEq)]
    pub struct CancelOk {
        pub consumer_tag: ShortString,
        }
    #[derive(Clone, Debug, PartialEq)]
    pub struct Publish {
        pub ticket: ShortUInt,
        pub exchange: ShortString,
        pub routing_key: ShortString,
        
        pub mandatory: Boolean,
        pub immediate: Boolean,
        }
    #[derive(Clone, Debug, PartialEq)]
    pub struct Return {
        pub reply_code: ShortUInt,
        pub reply_text: ShortString,
        pub exchange: ShortString,
        pub routing_key: ShortString,
        }
    #[derive(Clone, Debug, PartialEq)]
    pub struct Deliver {
        pub consumer_tag: ShortString,
        pub delivery_tag: LongLongUInt,
        
        pub redelivered: Boolean,
        pub exchange: ShortString,
        pub routing_key: ShortString,
        }
    #[derive(Clone, Debug, PartialEq)]
    pub struct Get {
        pub ticket: ShortUInt,
        pub queue: ShortString,
        
        pub no_ack: Boolean,
        }
    #[derive(Clone, Debug, PartialEq)]
    pub struct GetOk {
        pub delivery_tag: LongLongUInt,
        
        pub redelivered: Boolean,
        pub exchange: ShortString,
        pub routing_key: ShortString,
        pub message_count: LongUInt,
        }
    #[derive(Clone, Debug, PartialEq)]
    pub struct GetEmpty {
        pub cluster_id: ShortString,
        }
    #[derive(Clone, Debug, PartialEq)]
    pub struct Ack {
        pub delivery_tag: LongLongUInt,
        
        pub multiple: Boolean,
        }
    #[derive(Clone, Debug, PartialEq)]
    pub struct Reject {
        pub delivery_tag: LongLongUInt,
        
        pub requeue: Boolean,
        }
    #[derive(Clone, Debug, PartialEq)]
    pub struct RecoverAsync {
        
        pub requeue: Boolean,
        }
    #[derive(Clone, Debug, PartialEq)]
    pub struct Recover {
        
        pub requeue: Boolean,
        }
    #[derive(Clone, Debug, PartialEq)]
    pub struct RecoverOk {
        }
    #[derive(Clone, Debug, PartialEq)]
    pub struct Nack {
        pub delivery_tag: LongLongUInt,
        
        pub multiple: Boolean,
        pub requeue: Boolean,
        }
    pub use super::AMQPProperties;

}

pub mod tx {
    use super::*;
    #[derive(Clone, Debug, PartialEq)]
    pub enum AMQPMethod {
        Select(Select),
        SelectOk(SelectOk),
        Commit(Commit),
        CommitOk(CommitOk),
        Rollback(Rollback),
        RollbackOk(RollbackOk),
        }
    #[derive(Clone, Debug, PartialEq)]
    pub struct Select {
        }
    #[derive(Clone, Debug, PartialEq)]
    pub struct SelectOk {
        }
    #[derive(Clone, Debug, PartialEq)]
    pub struct Commit {
        }
    #[derive(Clone, Debug, PartialEq)]
    pub struct CommitOk {
        }
    #[derive(Clone, Debug, PartialEq)]
    pub struct Rollback {
        }
    #[derive(Clone, Debug, PartialEq)]
    pub struct RollbackOk {
        }
}

pub mod confirm {
    use super::*;
    #[derive(Clone, Debug, PartialEq)]
    pub enum AMQPMethod {
        Select(Select),
        SelectOk(SelectOk),
        }
    #[derive(Clone, Debug, PartialEq)]
    pub struct Select {
        
        pub nowait: Boolean,
        }
    #[derive(Clone, Debug, PartialEq)]
    pub struct SelectOk {
        }
}

// ---- amq_protocol::frame mirrors ----
#[derive(Clone, Debug, PartialEq)]
pub struct AMQPContentHeader { pub class_id: ShortUInt, pub weight: ShortUInt, pub body_size: LongLongUInt, pub properties: AMQPProperties }
#[derive(Clone, Debug, PartialEq)]
pub enum AMQPFrame {
    ProtocolHeader,
    Method(ShortUInt, AMQPClass),
    Header(ShortUInt, ShortUInt, Box<AMQPContentHeader>),
    Body(ShortUInt, Vec<u8>),
    Heartbeat(ShortUInt),
}
use basic::AMQPMethod as AmqpBasic;
use basic::CancelOk;
use channel::AMQPMethod as AmqpChannel;
use channel::CloseOk as ChannelCloseOk;
use confirm::AMQPMethod as AmqpConfirm;
use connection::AMQPMethod as AmqpConnection;
use connection::Close as ConnectionClose;
use connection::CloseOk as ConnectionCloseOk;
use exchange::AMQPMethod as AmqpExchange;
use queue::AMQPMethod as AmqpQueue;

// ---- crate::errors mirror (variants used here) ----
pub enum Error {
    FrameUnexpected,
    EventLoopClientDropped,
    ClientClosedConnection,
    ReceivedFrameWithBogusChannelId { channel_id: u16 },
    DuplicateConsumerTag { channel_id: u16, consumer_tag: String },
    UnknownConsumerTag { channel_id: u16, consumer_tag: String },
    ServerClosedConnection { code: u16, message: String },
    ServerClosedChannel { channel_id: u16, code: u16, message: String },
}
pub type Result<T> = std::result::Result<T, Error>;

// snafu selector mirrors
pub struct FrameUnexpectedSnafu;
impl FrameUnexpectedSnafu { pub fn fail<T>(self) -> (r: Result<T>) ensures r == Err::<T, Error>(Error::FrameUnexpected) { Err(Error::FrameUnexpected) } }
pub struct EventLoopClientDroppedSnafu;
impl EventLoopClientDroppedSnafu { pub fn fail<T>(self) -> (r: Result<T>) ensures r == Err::<T, Error>(Error::EventLoopClientDropped) { Err(Error::EventLoopClientDropped) } }
pub struct ReceivedFrameWithBogusChannelIdSnafu { pub channel_id: u16 }
pub struct DuplicateConsumerTagSnafu { pub channel_id: u16, pub consumer_tag: String }
impl DuplicateConsumerTagSnafu { pub fn fail<T>(self) -> (r: Result<T>) ensures r == Err::<T, Error>(Error::DuplicateConsumerTag { channel_id: self.channel_id, consumer_tag: self.consumer_tag }) { Err(Error::DuplicateConsumerTag { channel_id: self.channel_id, consumer_tag: self.consumer_tag }) } }
pub struct UnknownConsumerTagSnafu { pub channel_id: u16, pub consumer_tag: String }
pub trait IntoErr { spec fn err(self) -> Error; fn build(self) -> (r: Error) ensures r == self.err(); }
impl IntoErr for ReceivedFrameWithBogusChannelIdSnafu {
    open spec fn err(self) -> Error { Error::ReceivedFrameWithBogusChannelId { channel_id: self.channel_id } }
    fn build(self) -> (r: Error) { Error::ReceivedFrameWithBogusChannelId { channel_id: self.channel_id } }
}
impl IntoErr for UnknownConsumerTagSnafu {
    open spec fn err(self) -> Error { Error::UnknownConsumerTag { channel_id: self.channel_id, consumer_tag: self.consumer_tag } }
    fn build(self) -> (r: Error) { Error::UnknownConsumerTag { channel_id: self.channel_id, consumer_tag: self.consumer_tag } }
}
pub trait OptionExt<T>: Sized { fn context<C: IntoErr>(self, c: C) -> Result<T>; }
impl<T> OptionExt<T> for Option<T> {
    fn context<C: IntoErr>(self, c: C) -> (r: Result<T>)
        ensures self is Some ==> r == Ok::<T, Error>(self->0), self is None ==> r == Err::<T, Error>(c.err())
    { match self { Some(t) => Ok(t), None => Err(c.build()) } }
}

#[verifier::external_body]
pub fn fmt_stub() -> String { String::new() }

// ---- crossbeam_channel mirrors ----
#[verifier::external_body]
#[verifier::reject_recursive_types(T)]
pub struct Sender<T> { _p: core::marker::PhantomData<T> }
#[verifier::external_body]
#[verifier::reject_recursive_types(T)]
pub struct Receiver<T> { _p: core::marker::PhantomData<T> }
pub enum TrySendError<T> { Full(T), Disconnected(T) }
pub struct SendError<T>(pub T);
impl<T> Sender<T> {
    pub uninterp spec fn id(&self) -> int;
    #[verifier::external_body]
    pub fn try_send(&self, item: T) -> (r: std::result::Result<(), TrySendError<T>>)
        requires permitted(self.id(), item),
        ensures r is Ok ==> sent(self.id(), item),
            r matches Err(TrySendError::Full(x)) ==> x == item,
            r matches Err(TrySendError::Disconnected(x)) ==> x == item,
    { unimplemented!() }
    #[verifier::external_body]
    pub fn send(&self, item: T) -> (r: std::result::Result<(), SendError<T>>)
        requires permitted(self.id(), item),
        ensures r is Ok ==> sent(self.id(), item),
    { unimplemented!() }
}
pub uninterp spec fn permitted<T>(id: int, item: T) -> bool;
pub uninterp spec fn sent<T>(id: int, item: T) -> bool;
pub mod crossbeam_channel {
    use super::*;
    #[verifier::external_body]
    pub fn unbounded<T>() -> (r: (Sender<T>, Receiver<T>)) { unimplemented!() }
}

// ---- crate types (mirrors for this probe; real units extract them) ----
pub struct ConfirmPayload { pub delivery_tag: u64, pub multiple: bool }
pub enum Confirm { Ack(ConfirmPayload), Nack(ConfirmPayload) }
#[derive(Debug)]
pub struct Return { pub reply_code: u16 }
#[derive(Debug)]
pub struct Delivery { pub channel_id: u16 }
pub struct Get { pub delivery: Delivery, pub message_count: u32 }
pub enum ConnectionBlockedNotification { Blocked(String), Unblocked }
pub enum ConsumerMessage { Delivery(Delivery), ClientCancelled, ServerCancelled, ClientClosedChannel, ServerClosedChannel(Error), ClientClosedConnection, ServerClosedConnection(Error) }
pub enum ChannelMessage { Method(AMQPClass), ConsumeOk(String, Receiver<ConsumerMessage>), GetOk(Box<Option<Get>>) }
pub enum CollectorResult { Delivery((String, Delivery)), Return(Return), Get(Get) }
#[verifier::external_body]
pub struct ContentCollector { _p: u8 }
impl ContentCollector {
    #[verifier::external_body] pub fn collect_deliver(&mut self, d: basic::Deliver) -> Result<()> { unimplemented!() }
    #[verifier::external_body] pub fn collect_return(&mut self, d: basic::Return) -> Result<()> { unimplemented!() }
    #[verifier::external_body] pub fn collect_get(&mut self, d: basic::GetOk) -> Result<()> { unimplemented!() }
    #[verifier::external_body] pub fn collect_header(&mut self, h: AMQPContentHeader) -> Result<Option<CollectorResult>> { unimplemented!() }
    #[verifier::external_body] pub fn collect_body(&mut self, b: Vec<u8>) -> Result<Option<CollectorResult>> { unimplemented!() }
}
#[verifier::external_body]
#[verifier::reject_recursive_types(T)]
pub struct MioReceiver<T> { _p: core::marker::PhantomData<T> }
pub struct ChannelSlot {
    pub tx: Sender<Result<ChannelMessage>>,
    pub collector: ContentCollector,
    pub consumers: HashMap<String, Sender<ConsumerMessage>>,
    pub return_handler: Option<Sender<Return>>,
    pub pub_confirm_handler: Option<Sender<Confirm>>,
}
pub struct Channel0Slot {
    pub common: ChannelSlot,
    pub blocked_tx: Option<Sender<ConnectionBlockedNotification>>,
}
#[verifier::external_body]
#[verifier::reject_recursive_types(T)]
pub struct ChannelSlots<T> { _p: core::marker::PhantomData<T> }
#[verifier::external_body]
#[verifier::reject_recursive_types(K)]
#[verifier::reject_recursive_types(V)]
pub struct Drain<K, V> { _p: core::marker::PhantomData<(K, V)> }
impl<K, V> Drain<K, V> {
    pub uninterp spec fn rem(&self) -> Map<K, V>;
    #[verifier::external_body] pub fn next(&mut self) -> (r: Option<(K, V)>) { unimplemented!() }
}
pub trait HmDrain<K, V> { fn hm_drain_(&mut self) -> Drain<K, V>; }
impl<V> HmDrain<u16, V> for ChannelSlots<V> { #[verifier::external_body] fn hm_drain_(&mut self) -> Drain<u16, V> { unimplemented!() } }
impl<K, V> HmDrain<K, V> for HashMap<K, V> { #[verifier::external_body] fn hm_drain_(&mut self) -> Drain<K, V> { unimplemented!() } }
pub fn hm_drain<K, V, M: HmDrain<K, V>>(m: &mut M) -> Drain<K, V> { m.hm_drain_() }
impl<T> ChannelSlots<T> {
    pub uninterp spec fn view(&self) -> Map<u16, T>;
    #[verifier::external_body] pub fn get(&self, id: u16) -> (r: Option<&T>) ensures r == (if self@.contains_key(id) { Some(&self@[id]) } else { None }) { unimplemented!() }
    #[verifier::external_body] pub fn get_mut(&mut self, id: u16) -> (r: Option<&mut T>)
        ensures match r {
            Some(m) => old(self)@.contains_key(id) && *m == old(self)@[id] && final(self)@ == old(self)@.insert(id, *final(m)),
            None => !old(self)@.contains_key(id) && final(self)@ == old(self)@,
        }
    { unimplemented!() }
    #[verifier::external_body] pub fn remove(&mut self, id: u16) -> (r: Option<T>)
        ensures r == (if old(self)@.contains_key(id) { Some(old(self)@[id]) } else { None::<T> }), final(self)@ == old(self)@.remove(id)
    { unimplemented!() }
}

pub struct Inner { pub chan_slots: ChannelSlots<ChannelSlot>, pub sealed: bool }
pub trait IntoAmqpClass { fn into_class(self) -> AMQPClass; }
impl IntoAmqpClass for AmqpConnection { fn into_class(self) -> AMQPClass { AMQPClass::Connection(self) } }
impl IntoAmqpClass for AmqpBasic { fn into_class(self) -> AMQPClass { AMQPClass::Basic(self) } }
impl IntoAmqpClass for AmqpChannel { fn into_class(self) -> AMQPClass { AMQPClass::Channel(self) } }
impl Inner {
    #[verifier::external_body] pub fn push_method<M: IntoAmqpClass>(&mut self, channel_id: u16, method: M) { unimplemented!() }
    pub fn seal_writes(&mut self) { self.sealed = true; }
}

pub open spec fn frame_chan(f: AMQPFrame) -> u16 { match f { AMQPFrame::Method(n, _) => n, AMQPFrame::Header(n, _, _) => n, AMQPFrame::Body(n, _) => n, AMQPFrame::Heartbeat(n) => n, _ => 0 } }
pub open spec fn frame_class(f: AMQPFrame) -> AMQPClass { f->Method_1 }
pub open spec fn is_generic_ack(f: AMQPFrame) -> bool {
    f matches AMQPFrame::Method(n, c) && n != 0 && match c {
        AMQPClass::Basic(AmqpBasic::QosOk(_)) | AMQPClass::Basic(AmqpBasic::RecoverOk(_)) | AMQPClass::Channel(AmqpChannel::OpenOk(_))
        | AMQPClass::Confirm(AmqpConfirm::SelectOk(_)) | AMQPClass::Exchange(AmqpExchange::DeclareOk(_)) | AMQPClass::Exchange(AmqpExchange::DeleteOk(_))
        | AMQPClass::Exchange(AmqpExchange::BindOk(_)) | AMQPClass::Exchange(AmqpExchange::UnbindOk(_)) | AMQPClass::Queue(AmqpQueue::DeclareOk(_))
        | AMQPClass::Queue(AmqpQueue::DeleteOk(_)) | AMQPClass::Queue(AmqpQueue::BindOk(_)) | AMQPClass::Queue(AmqpQueue::PurgeOk(_)) | AMQPClass::Queue(AmqpQueue::UnbindOk(_)) => true,
        _ => false }
}
pub open spec fn allowed_reply(st: ConnectionState, inner: Inner, f: AMQPFrame, id: int, item: Result<ChannelMessage>) -> bool {
    if is_generic_ack(f) && st is Steady {
        inner.chan_slots@.contains_key(frame_chan(f)) && id == inner.chan_slots@[frame_chan(f)].tx.id() && item == Ok::<ChannelMessage, Error>(ChannelMessage::Method(frame_class(f)))
    } else { true }
}
// ================= extracted from src/io_loop/connection_state.rs =================
// Clippy warns about ConnectionState::Steady being much larger than the other variants, but we
// expect ConnectionState to be in the Steady case almost all the time.
pub enum ConnectionState {
    Steady(Channel0Slot),
    ServerClosing(ConnectionClose),
    ClientException,
    ClientClosed,
}

fn slot_remove(inner: &mut Inner, channel_id: u16) -> (r: Result<ChannelSlot>)
    ensures final(inner).sealed == old(inner).sealed, final(inner).chan_slots@ == old(inner).chan_slots@.remove(channel_id),
        match r { Ok(s) => old(inner).chan_slots@.contains_key(channel_id) && s == old(inner).chan_slots@[channel_id],
                  Err(e) => !old(inner).chan_slots@.contains_key(channel_id) && e == (Error::ReceivedFrameWithBogusChannelId { channel_id }) },
{
    inner
        .chan_slots
        .remove(channel_id)
        .context(ReceivedFrameWithBogusChannelIdSnafu { channel_id })
}

fn slot_get(inner: &mut Inner, channel_id: u16) -> (r: Result<&ChannelSlot>)
    ensures *final(inner) == *old(inner),
        match r { Ok(s) => old(inner).chan_slots@.contains_key(channel_id) && *s == old(inner).chan_slots@[channel_id],
                  Err(e) => !old(inner).chan_slots@.contains_key(channel_id) && e == (Error::ReceivedFrameWithBogusChannelId { channel_id }) },
{
    inner
        .chan_slots
        .get(channel_id)
        .context(ReceivedFrameWithBogusChannelIdSnafu { channel_id })
}

fn slot_get_mut(inner: &mut Inner, channel_id: u16) -> Result<&mut ChannelSlot> {
    inner
        .chan_slots
        .get_mut(channel_id)
        .context(ReceivedFrameWithBogusChannelIdSnafu { channel_id })
}

fn send<T: Send + Sync + 'static>(tx: &Sender<T>, item: T) -> (r: Result<()>)
    requires permitted(tx.id(), item),
    ensures r is Ok ==> sent(tx.id(), item),
{
    // See comment in ChannelSlot::new() about the bound size of the control
    // channel. If we're sending to a consumer channel, they are not bounded
    // and will not return Full.
    match tx.try_send(item) {
        Ok(()) => Ok(()),
        Err(TrySendError::Full(_)) => {
            
            FrameUnexpectedSnafu.fail()
        }
        Err(TrySendError::Disconnected(_)) => {
            
            EventLoopClientDroppedSnafu.fail()
        }
    }
}

// When we set up a return listener, it's just a crossbeam channel. If it gets dropped,
// we don't want to error; just start discarding returned messages.
fn try_send_return(slot: &mut ChannelSlot, return_: Return) {
    let return_ = if let Some(tx) = &slot.return_handler {
        match tx.try_send(return_) {
            Ok(()) => return,
            Err(TrySendError::Full(return_)) | Err(TrySendError::Disconnected(return_)) => {
                slot.return_handler = None;
                return_
            }
        }
    } else {
        return_
    };
    
}

// When we set up a pub confirm listener, it's just a crossbeam channel. If it gets dropped,
// we don't want to error; just start discarding acks/nacks
fn try_send_confirm(slot: &mut ChannelSlot, confirm: Confirm) {
    let confirm = if let Some(tx) = &slot.pub_confirm_handler {
        match tx.try_send(confirm) {
            Ok(()) => return,
            Err(TrySendError::Full(confirm)) | Err(TrySendError::Disconnected(confirm)) => {
                slot.pub_confirm_handler = None;
                confirm
            }
        }
    } else {
        confirm
    };
    
}

// When we set up a blocked connection listener, it's just a crossbeam channel. If it gets
// dropped, we don't want to error; just start discarding blocked notifications.
fn try_send_blocked(slot: &mut Channel0Slot, note: ConnectionBlockedNotification) {
    if let Some(tx) = &slot.blocked_tx {
        match tx.try_send(note) {
            Ok(()) => (),
            Err(_) => {
                slot.blocked_tx = None;
            }
        }
    }
}

impl ConnectionState {
    fn client_exception(
        &mut self,
        inner: &mut Inner,
        reply_code: AMQPHardError,
        reply_text: String,
    ) -> Result<()> {
        
        let close = ConnectionClose {
            reply_code: reply_code.get_id(),
            reply_text,
            class_id: 0,
            method_id: 0,
        };
        inner.push_method(0, AmqpConnection::Close(close));
        inner.seal_writes();
        *self = ConnectionState::ClientException;
        Ok(())
    }

    #[verifier::exec_allows_no_decreases_clause]
    #[verifier::loop_isolation(false)]
    pub fn process(&mut self, inner: &mut Inner, frame: AMQPFrame) -> (r: Result<()>)
        requires
            forall|id: int, item: Result<ChannelMessage>| #[trigger] permitted(id, item) <==> allowed_reply(*old(self), *old(inner), frame, id, item),
            forall|id: int, item: ConsumerMessage| #[trigger] permitted(id, item),
            forall|id: int, item: Return| #[trigger] permitted(id, item),
            forall|id: int, item: Confirm| #[trigger] permitted(id, item),
            forall|id: int, item: ConnectionBlockedNotification| #[trigger] permitted(id, item),
        ensures
            is_generic_ack(frame) && *old(self) is Steady ==> final(inner).chan_slots@ == old(inner).chan_slots@ && final(inner).sealed == old(inner).sealed
                && (r is Ok ==> old(inner).chan_slots@.contains_key(frame_chan(frame)) && sent(old(inner).chan_slots@[frame_chan(frame)].tx.id(), Ok::<ChannelMessage, Error>(ChannelMessage::Method(frame_class(frame)))))
                && (!old(inner).chan_slots@.contains_key(frame_chan(frame)) ==> r == Err::<(), Error>(Error::ReceivedFrameWithBogusChannelId { channel_id: frame_chan(frame) })),
    {
        // bail out if we shouldn't be getting frames
        let ch0_slot = match self {
            ConnectionState::Steady(ch0_slot) => ch0_slot,
            ConnectionState::ClientException => return Ok(()),
            ConnectionState::ServerClosing(_) | ConnectionState::ClientClosed => {
                return FrameUnexpectedSnafu.fail();
            }
        };

        match frame {
            // Server-sent heartbeat
            AMQPFrame::Heartbeat(0) => {
                // nothing to do here; IoLoop already updated heartbeat timer when it
                // received data on the socket
                
            }
            // We never expect to see a protocl header (we send it to begin the connection)
            // or a heartbeat on a non-0 channel.
            AMQPFrame::ProtocolHeader | AMQPFrame::Heartbeat(_) => return FrameUnexpectedSnafu.fail(),
            // Server-initiated connection close.
            AMQPFrame::Method(0, AMQPClass::Connection(AmqpConnection::Close(close))) => {
                inner.push_method(0, AmqpConnection::CloseOk(ConnectionCloseOk {}));
                inner.seal_writes();
                let reply_code = close.reply_code;
                let message = close.reply_text.clone();
                let make_err = || Error::ServerClosedConnection {
                    code: reply_code,
                    message: message.clone(),
                };
                *self = ConnectionState::ServerClosing(close);

                { let mut it__1 = hm_drain(&mut inner.chan_slots); loop { match it__1.next() { Some((_, mut slot)) => {
                    send(&slot.tx, Err(make_err()))?;
                    { let mut it__5 = hm_drain(&mut slot.consumers); loop { match it__5.next() { Some((_, tx)) => {
                        send(&tx, ConsumerMessage::ServerClosedConnection(make_err()))?;
                    }, None => break } } }
                }, None => break } } }
            }
            // Server ack for client-initiated connection close.
            AMQPFrame::Method(0, AMQPClass::Connection(AmqpConnection::CloseOk(close_ok))) => {
                ch0_slot
                    .common
                    .tx
                    .send(Ok(ChannelMessage::Method(AMQPClass::Connection(
                        AmqpConnection::CloseOk(close_ok),
                    ))))
                    .map_err(|_e| Error::EventLoopClientDropped)?;
                *self = ConnectionState::ClientClosed;

                { let mut it__2 = hm_drain(&mut inner.chan_slots); loop { match it__2.next() { Some((_, mut slot)) => {
                    send(&slot.tx, Err(Error::ClientClosedConnection))?;
                    { let mut it__6 = hm_drain(&mut slot.consumers); loop { match it__6.next() { Some((_, tx)) => {
                        send(&tx, ConsumerMessage::ClientClosedConnection)?;
                    }, None => break } } }
                }, None => break } } }
            }
            // Server is blocking publishes due to an alarm on its side (e.g., low mem)
            AMQPFrame::Method(0, AMQPClass::Connection(AmqpConnection::Blocked(blocked))) => {
                
                let note = ConnectionBlockedNotification::Blocked(blocked.reason);
                try_send_blocked(ch0_slot, note);
            }
            // Server has unblocked publishes
            AMQPFrame::Method(0, AMQPClass::Connection(AmqpConnection::Unblocked(_))) => {
                
                let note = ConnectionBlockedNotification::Unblocked;
                try_send_blocked(ch0_slot, note);
            }
            // Reject all other expected channel 0 methods
            AMQPFrame::Method(0, other) => {
                let text = fmt_stub();
                self.client_exception(inner, AMQPHardError::NOTIMPLEMENTED, text)?;
            }
            // Reject content frames on channel 0.
            AMQPFrame::Header(0, _, _) | AMQPFrame::Body(0, _) => {
                let text = fmt_stub();
                self.client_exception(inner, AMQPHardError::NOTALLOWED, text)?;
            }
            // Server-initiated channel close.
            AMQPFrame::Method(n, AMQPClass::Channel(AmqpChannel::Close(close))) => {
                
                let mut slot = slot_remove(inner, n)?;
                let make_err = || Error::ServerClosedChannel {
                    channel_id: n,
                    code: close.reply_code,
                    message: close.reply_text.clone(),
                };
                send(&slot.tx, Err(make_err()))?;
                { let mut it__3 = hm_drain(&mut slot.consumers); loop { match it__3.next() { Some((_, tx)) => {
                    send(&tx, ConsumerMessage::ServerClosedChannel(make_err()))?;
                }, None => break } } }
                inner.push_method(n, AmqpChannel::CloseOk(ChannelCloseOk {}));
            }
            // Server ack for client-initiated channel close.
            AMQPFrame::Method(n, AMQPClass::Channel(AmqpChannel::CloseOk(close_ok))) => {
                // Closing is inherently racy; if we and the server both send a Close at
                // the same time, we might see the server Close and then get a CloseOk, but
                // we will have removed the slot when we got the close. It is therefore not
                // an error to get a CloseOk for a nonexistent slot, since the server is
                // confirming that a channel is gone (and we don't have it anymore anyway).
                if let Ok(mut slot) = slot_remove(inner, n) {
                    send(
                        &slot.tx,
                        Ok(ChannelMessage::Method(AMQPClass::Channel(
                            AmqpChannel::CloseOk(close_ok),
                        ))),
                    )?;
                    { let mut it__4 = hm_drain(&mut slot.consumers); loop { match it__4.next() { Some((_, tx)) => {
                        send(&tx, ConsumerMessage::ClientClosedChannel)?;
                    }, None => break } } }
                }
            }
            // Server ack for consume request.
            AMQPFrame::Method(n, AMQPClass::Basic(AmqpBasic::ConsumeOk(consume_ok))) => {
                let consumer_tag = consume_ok.consumer_tag;
                let slot = slot_get_mut(inner, n)?;
                match slot.consumers.entry(consumer_tag.clone()) {
                    Entry::Occupied(_) => {
                        return DuplicateConsumerTagSnafu {
                            channel_id: n,
                            consumer_tag,
                        }
                        .fail();
                    }
                    Entry::Vacant(entry) => {
                        let (tx, rx) = crossbeam_channel::unbounded();
                        entry.insert(tx);
                        send(&slot.tx, Ok(ChannelMessage::ConsumeOk(consumer_tag, rx)))?;
                    }
                }
            }
            // Server-initiated consumer cancel.
            AMQPFrame::Method(n, AMQPClass::Basic(AmqpBasic::Cancel(cancel))) => {
                let consumer_tag = cancel.consumer_tag;
                let slot = slot_get_mut(inner, n)?;
                if let Some(tx) = slot.consumers.remove(&consumer_tag) {
                    send(&tx, ConsumerMessage::ServerCancelled)?;
                }
                if !cancel.nowait {
                    inner.push_method(n, AmqpBasic::CancelOk(CancelOk { consumer_tag }));
                }
            }
            // Server ack for client-initiated consumer cancel.
            AMQPFrame::Method(n, AMQPClass::Basic(AmqpBasic::CancelOk(cancel_ok))) => {
                let slot = slot_get_mut(inner, n)?;
                let consumer = slot.consumers.remove(&cancel_ok.consumer_tag);
                send(
                    &slot.tx,
                    Ok(ChannelMessage::Method(AMQPClass::Basic(
                        AmqpBasic::CancelOk(cancel_ok),
                    ))),
                )?;
                if let Some(tx) = consumer {
                    send(&tx, ConsumerMessage::ClientCancelled)?;
                }
            }
            // Server beginning delivery of content to a consumer.
            AMQPFrame::Method(n, AMQPClass::Basic(AmqpBasic::Deliver(deliver))) => {
                let slot = slot_get_mut(inner, n)?;
                slot.collector.collect_deliver(deliver)?;
            }
            // Server beginning return of undeliverable content.
            AMQPFrame::Method(n, AMQPClass::Basic(AmqpBasic::Return(return_))) => {
                let slot = slot_get_mut(inner, n)?;
                slot.collector.collect_return(return_)?;
            }
            // Server ack for get (message incoming).
            AMQPFrame::Method(n, AMQPClass::Basic(AmqpBasic::GetOk(get_ok))) => {
                let slot = slot_get_mut(inner, n)?;
                slot.collector.collect_get(get_ok)?;
            }
            // Server ack for get (no message).
            AMQPFrame::Method(n, AMQPClass::Basic(AmqpBasic::GetEmpty(_))) => {
                let slot = slot_get(inner, n)?;
                send(&slot.tx, Ok(ChannelMessage::GetOk(Box::new(None))))?;
            }
            // Server ack for publish (publisher confirmation)
            AMQPFrame::Method(n, AMQPClass::Basic(AmqpBasic::Ack(ack))) => {
                let slot = slot_get_mut(inner, n)?;
                let confirm = ConfirmPayload {
                    delivery_tag: ack.delivery_tag,
                    multiple: ack.multiple,
                };
                try_send_confirm(slot, Confirm::Ack(confirm));
            }
            // Server nack for publish (publisher confirmation)
            AMQPFrame::Method(n, AMQPClass::Basic(AmqpBasic::Nack(nack))) => {
                let slot = slot_get_mut(inner, n)?;
                let confirm = ConfirmPayload {
                    delivery_tag: nack.delivery_tag,
                    multiple: nack.multiple,
                };
                try_send_confirm(slot, Confirm::Nack(confirm));
            }
            // Generic ack messages we send back to the caller.
            AMQPFrame::Method(n, method @ AMQPClass::Basic(AmqpBasic::QosOk(_)))
            | AMQPFrame::Method(n, method @ AMQPClass::Basic(AmqpBasic::RecoverOk(_)))
            | AMQPFrame::Method(n, method @ AMQPClass::Channel(AmqpChannel::OpenOk(_)))
            | AMQPFrame::Method(n, method @ AMQPClass::Confirm(AmqpConfirm::SelectOk(_)))
            | AMQPFrame::Method(n, method @ AMQPClass::Exchange(AmqpExchange::DeclareOk(_)))
            | AMQPFrame::Method(n, method @ AMQPClass::Exchange(AmqpExchange::DeleteOk(_)))
            | AMQPFrame::Method(n, method @ AMQPClass::Exchange(AmqpExchange::BindOk(_)))
            | AMQPFrame::Method(n, method @ AMQPClass::Exchange(AmqpExchange::UnbindOk(_)))
            | AMQPFrame::Method(n, method @ AMQPClass::Queue(AmqpQueue::DeclareOk(_)))
            | AMQPFrame::Method(n, method @ AMQPClass::Queue(AmqpQueue::DeleteOk(_)))
            | AMQPFrame::Method(n, method @ AMQPClass::Queue(AmqpQueue::BindOk(_)))
            | AMQPFrame::Method(n, method @ AMQPClass::Queue(AmqpQueue::PurgeOk(_)))
            | AMQPFrame::Method(n, method @ AMQPClass::Queue(AmqpQueue::UnbindOk(_))) => {
                let slot = slot_get(inner, n)?;
                
                send(&slot.tx, Ok(ChannelMessage::Method(method)))?;
            }
            // Methods we do not handle
            AMQPFrame::Method(n, method @ AMQPClass::Access(_))
            | AMQPFrame::Method(n, method @ AMQPClass::Channel(AmqpChannel::Flow(_)))
            | AMQPFrame::Method(n, method @ AMQPClass::Channel(AmqpChannel::FlowOk(_)))
            | AMQPFrame::Method(n, method @ AMQPClass::Tx(_)) => {
                let text = fmt_stub();
                self.client_exception(inner, AMQPHardError::NOTIMPLEMENTED, text)?;
            }
            // Methods that are illegal coming from the server
            AMQPFrame::Method(n, method @ AMQPClass::Basic(AmqpBasic::Qos(_)))
            | AMQPFrame::Method(n, method @ AMQPClass::Basic(AmqpBasic::Consume(_)))
            | AMQPFrame::Method(n, method @ AMQPClass::Basic(AmqpBasic::Get(_)))
            | AMQPFrame::Method(n, method @ AMQPClass::Basic(AmqpBasic::Publish(_)))
            | AMQPFrame::Method(n, method @ AMQPClass::Basic(AmqpBasic::Recover(_)))
            | AMQPFrame::Method(n, method @ AMQPClass::Basic(AmqpBasic::RecoverAsync(_)))
            | AMQPFrame::Method(n, method @ AMQPClass::Basic(AmqpBasic::Reject(_)))
            | AMQPFrame::Method(n, method @ AMQPClass::Channel(AmqpChannel::Open(_)))
            | AMQPFrame::Method(n, method @ AMQPClass::Confirm(AmqpConfirm::Select(_)))
            | AMQPFrame::Method(n, method @ AMQPClass::Connection(_))
            | AMQPFrame::Method(n, method @ AMQPClass::Exchange(AmqpExchange::Declare(_)))
            | AMQPFrame::Method(n, method @ AMQPClass::Exchange(AmqpExchange::Delete(_)))
            | AMQPFrame::Method(n, method @ AMQPClass::Exchange(AmqpExchange::Bind(_)))
            | AMQPFrame::Method(n, method @ AMQPClass::Exchange(AmqpExchange::Unbind(_)))
            | AMQPFrame::Method(n, method @ AMQPClass::Queue(AmqpQueue::Declare(_)))
            | AMQPFrame::Method(n, method @ AMQPClass::Queue(AmqpQueue::Delete(_)))
            | AMQPFrame::Method(n, method @ AMQPClass::Queue(AmqpQueue::Bind(_)))
            | AMQPFrame::Method(n, method @ AMQPClass::Queue(AmqpQueue::Purge(_)))
            | AMQPFrame::Method(n, method @ AMQPClass::Queue(AmqpQueue::Unbind(_))) => {
                let text = fmt_stub();
                self.client_exception(inner, AMQPHardError::NOTALLOWED, text)?;
            }
            // Server sending content header as part of a deliver.
            AMQPFrame::Header(n, _, header) => {
                let slot = slot_get_mut(inner, n)?;
                if let Some(collected) = slot.collector.collect_header(*header)? {
                    match collected {
                        CollectorResult::Delivery((consumer_tag, delivery)) => {
                            let tx =
                                slot.consumers
                                    .get(&consumer_tag)
                                    .context(UnknownConsumerTagSnafu {
                                        channel_id: n,
                                        consumer_tag,
                                    })?;
                            send(tx, ConsumerMessage::Delivery(delivery))?;
                        }
                        CollectorResult::Return(return_) => {
                            try_send_return(slot, return_);
                        }
                        CollectorResult::Get(get) => {
                            send(&slot.tx, Ok(ChannelMessage::GetOk(Box::new(Some(get)))))?;
                        }
                    }
                }
            }
            // Server sending content body as part of a deliver.
            AMQPFrame::Body(n, body) => {
                let slot = slot_get_mut(inner, n)?;
                if let Some(collected) = slot.collector.collect_body(body)? {
                    match collected {
                        CollectorResult::Delivery((consumer_tag, delivery)) => {
                            let tx =
                                slot.consumers
                                    .get(&consumer_tag)
                                    .context(UnknownConsumerTagSnafu {
                                        channel_id: n,
                                        consumer_tag,
                                    })?;
                            send(tx, ConsumerMessage::Delivery(delivery))?;
                        }
                        CollectorResult::Return(return_) => {
                            try_send_return(slot, return_);
                        }
                        CollectorResult::Get(get) => {
                            send(&slot.tx, Ok(ChannelMessage::GetOk(Box::new(Some(get)))))?;
                        }
                    }
                }
            }
        }
        Ok(())
    }
}

fn main() {}
} // verus!
