use vstd::prelude::*;
use std::result::Result as StdResult;
verus! {
#[derive(Debug)]
pub enum GenError { BufferTooSmall(usize), Other }

#[verifier::external_body]
fn gen_heartbeat_frame<'a>(x: (&'a mut [u8], usize)) -> (r: StdResult<(&'a mut [u8], usize), GenError>)
{ unimplemented!() }

#[verifier::exec_allows_no_decreases_clause]
fn serialize<F: Fn(&mut [u8], usize) -> StdResult<(&mut [u8], usize), GenError>>(
    buf: &mut Vec<u8>,
    f: F,
) {
    let pos = buf.len();
    loop {
        let resize_to = match f(buf, pos) {
            Ok(_) => return,
            Err(GenError::BufferTooSmall(n)) => n,
            Err(err) => unreachable!("impossible serialization error: {:?}", err),
        };
        buf.resize(resize_to, 0);
    }
}

pub fn push_heartbeat(v: &mut Vec<u8>) {
    serialize(v, |buf, pos| gen_heartbeat_frame((buf, pos)))
}

fn main() {}
}
