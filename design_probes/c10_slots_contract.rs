#![allow(unused_imports, dead_code)]
use vstd::prelude::*;
use std::collections::hash_map::{Entry, HashMap};
verus! {
broadcast use vstd::std_specs::hash::group_hash_axioms;

pub enum Error { UnavailableChannelId { channel_id: u16 }, ExhaustedChannelIds, Other }
pub type Result<T> = std::result::Result<T, Error>;
pub struct UnavailableChannelIdSnafu { pub channel_id: u16 }
impl UnavailableChannelIdSnafu { pub fn fail<T>(self) -> (r: Result<T>) ensures r == Err::<T, Error>(Error::UnavailableChannelId { channel_id: self.channel_id }) { Err(Error::UnavailableChannelId { channel_id: self.channel_id }) } }
pub struct ExhaustedChannelIdsSnafu;
pub trait OptionExt<T>: Sized { fn context(self, c: ExhaustedChannelIdsSnafu) -> Result<T>; }
impl<T> OptionExt<T> for Option<T> {
    fn context(self, c: ExhaustedChannelIdsSnafu) -> (r: Result<T>)
        ensures self is Some ==> r == Ok::<T, Error>(self->0), self is None ==> r == Err::<T, Error>(Error::ExhaustedChannelIds)
    { match self { Some(t) => Ok(t), None => Err(Error::ExhaustedChannelIds) } }
}

// ---- assumed contract of indexmap::IndexSet<u16> ----
#[verifier::external_body]
#[verifier::reject_recursive_types(T)]
pub struct IndexSet<T> { v: Vec<T> }
impl IndexSet<u16> {
    pub uninterp spec fn view(&self) -> Seq<u16>;
    #[verifier::external_body]
    pub fn new() -> (r: Self) ensures r@.len() == 0 { unimplemented!() }
    #[verifier::external_body]
    pub fn insert(&mut self, x: u16) -> (r: bool)
        ensures old(self)@.contains(x) ==> final(self)@ == old(self)@ && !r,
                !old(self)@.contains(x) ==> final(self)@ == old(self)@.push(x) && r,
    { unimplemented!() }
    #[verifier::external_body]
    pub fn pop(&mut self) -> (r: Option<u16>)
        ensures old(self)@.len() == 0 ==> r is None && final(self)@ == old(self)@,
                old(self)@.len() > 0 ==> r == Some(old(self)@.last()) && final(self)@ == old(self)@.drop_last(),
    { unimplemented!() }
    #[verifier::external_body]
    pub fn is_empty(&self) -> (r: bool) ensures r == (self@.len() == 0) { unimplemented!() }
}

pub struct ChannelSlots<T> {
    pub slots: HashMap<u16, T>,
    pub freed_channel_ids: IndexSet<u16>,
    pub next_channel_id: u16,
    pub channel_max: u16,
}

impl<T> ChannelSlots<T> {
    pub open spec fn wf(&self) -> bool {
        &&& self.next_channel_id >= 1
        &&& self.freed_channel_ids@.no_duplicates()
        // open ids are in 1..=channel_max
        &&& forall|id: u16| #[trigger] self.slots@.contains_key(id) ==> 1 <= id <= self.channel_max
        // a freed id is never open
        &&& forall|id: u16| #[trigger] self.freed_channel_ids@.contains(id) ==> !self.slots@.contains_key(id) && 1 <= id <= self.channel_max
        // every closed id below the counter is in the freed set (completeness of Exhausted)
        &&& forall|id: u16| 1 <= id < self.next_channel_id && id <= self.channel_max && !(#[trigger] self.slots@.contains_key(id)) ==> self.freed_channel_ids@.contains(id)
    }

    pub fn insert<F, U>(&mut self, channel_id: Option<u16>, make_entry: F) -> (r: Result<U>)
    where
        F: FnOnce(u16) -> Result<(T, U)>,
        requires old(self).wf(), forall|id: u16| call_requires(make_entry, (id,)),
        ensures final(self).wf(), final(self).channel_max == old(self).channel_max,
            match r {
                Ok(u) => exists|id: u16, t: T| #![auto] 1 <= id <= old(self).channel_max && !old(self).slots@.contains_key(id)
                        && (channel_id is Some ==> id == channel_id->0)
                        && call_ensures(make_entry, (id,), Ok((t, u)))
                        && final(self).slots@ == old(self).slots@.insert(id, t),
                Err(e) => final(self).slots@ == old(self).slots@
                    && (channel_id is Some && (channel_id->0 == 0 || channel_id->0 > old(self).channel_max || old(self).slots@.contains_key(channel_id->0))
                            ==> e == (Error::UnavailableChannelId { channel_id: channel_id->0 }))
                    && (e is ExhaustedChannelIds && channel_id is None ==> forall|id: u16| 1 <= id <= old(self).channel_max ==> old(self).slots@.contains_key(id)),
            },
    {
        let channel_id = match channel_id {
            Some(id) => id,
            None => return self.insert_unused_channel_id(make_entry),
        };
        if channel_id > self.channel_max {
            return UnavailableChannelIdSnafu { channel_id }.fail();
        }
        match self.slots.entry(channel_id) {
            Entry::Occupied(_) => UnavailableChannelIdSnafu { channel_id }.fail(),
            Entry::Vacant(entry) => {
                let (t, u) = make_entry(channel_id)?;
                entry.insert(t);
                Ok(u)
            }
        }
    }

    pub fn remove(&mut self, channel_id: u16) -> (r: Option<T>)
        requires old(self).wf(),
        ensures final(self).wf(), final(self).channel_max == old(self).channel_max,
            final(self).slots@ == old(self).slots@.remove(channel_id),
            r == (if old(self).slots@.contains_key(channel_id) { Some(old(self).slots@[channel_id]) } else { None::<T> }),
    {
        let entry = self.slots.remove(&channel_id)?;
        self.freed_channel_ids.insert(channel_id);
        Some(entry)
    }

    fn insert_unused_channel_id<F, U>(&mut self, make_entry: F) -> (r: Result<U>)
    where
        F: FnOnce(u16) -> Result<(T, U)>,
        requires old(self).wf(), forall|id: u16| call_requires(make_entry, (id,)),
        ensures final(self).wf(), final(self).channel_max == old(self).channel_max,
            match r {
                Ok(u) => exists|id: u16, t: T| #![auto] 1 <= id <= old(self).channel_max && !old(self).slots@.contains_key(id)
                        && call_ensures(make_entry, (id,), Ok((t, u)))
                        && final(self).slots@ == old(self).slots@.insert(id, t),
                Err(e) => final(self).slots@ == old(self).slots@
                    && (e is ExhaustedChannelIds ==> forall|id: u16| 1 <= id <= old(self).channel_max ==> old(self).slots@.contains_key(id)),
            },
    {
        while self.next_channel_id <= self.channel_max
            invariant self.wf(), self.slots@ == old(self).slots@, self.channel_max == old(self).channel_max,
                forall|id: u16| call_requires(make_entry, (id,)),
            decreases self.channel_max as int + 1 - self.next_channel_id as int,
        {
            let channel_id = self.next_channel_id;
            self.next_channel_id += 1;
            match self.slots.entry(channel_id) {
                Entry::Occupied(_) => continue,
                Entry::Vacant(entry) => {
                    let (t, u) = make_entry(channel_id)?;
                    entry.insert(t);
                    return Ok(u);
                }
            }
        }

        let channel_id = self.freed_channel_ids.pop().context(ExhaustedChannelIdsSnafu)?;
        match self.slots.entry(channel_id) {
            Entry::Occupied(_) => unreachable!("free channel id cannot be occupied"),
            Entry::Vacant(entry) => {
                let (t, u) = make_entry(channel_id)?;
                entry.insert(t);
                Ok(u)
            }
        }
    }
}

fn main() {}
}
