use vstd::prelude::*;
verus! {
pub struct St { pub n: u8 }
pub struct Inner { pub k: u8 }
impl St { fn process(&mut self, inner: &mut Inner, f: u8) -> (r: Result<(), ()>) ensures final(self).n == f { self.n = f; Ok(()) } }

fn read_from<F: FnMut(&mut Inner, u8) -> Result<(), ()>>(inner: &mut Inner, mut handler: F) -> Result<(), ()>
    requires forall|i: Inner, x: u8| call_requires(handler, (&mut i, x)),  
{
    handler(inner, 3)?;
    Ok(())
}

fn ev(inner: &mut Inner, state: &mut St) -> Result<(), ()> {
    read_from(inner, |inner, frame| state.process(inner, frame))
}
fn main() {}
}
