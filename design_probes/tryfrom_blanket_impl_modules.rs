use vstd::prelude::*;
verus! {
pub enum Error { FrameUnexpected }
pub type Result<T> = std::result::Result<T, Error>;
pub struct FrameUnexpectedSnafu;
impl FrameUnexpectedSnafu { pub fn fail<T>(self) -> (r: Result<T>) ensures r == Err::<T, Error>(Error::FrameUnexpected) { Err(Error::FrameUnexpected) } }
pub struct Start { pub a: u8 }
pub struct Tune { pub b: u8 }
pub enum AmqpConnection { Start(Start), Tune(Tune) }
pub enum AMQPClass { Connection(AmqpConnection), Other }
pub enum AMQPFrame { Method(u16, AMQPClass), Heartbeat(u16) }

pub trait TryFromAmqpClass: Sized {
    spec fn spec_try(class: AMQPClass) -> Option<Self>;
    fn try_from(class: AMQPClass) -> (r: Result<Self>)
        ensures r == (match Self::spec_try(class) { Some(v) => Ok::<Self, Error>(v), None => Err::<Self, Error>(Error::FrameUnexpected) });
}

impl TryFromAmqpClass for Start {
    open spec fn spec_try(class: AMQPClass) -> Option<Self> { match class { AMQPClass::Connection(AmqpConnection::Start(v)) => Some(v), _ => None } }
    fn try_from(class: AMQPClass) -> Result<Self> {
        match class {
            AMQPClass::Connection(AmqpConnection::Start(val)) => Ok(val),
            _ => FrameUnexpectedSnafu.fail(),
        }
    }
}

pub trait TryFromAmqpFrame: Sized {
    spec fn spec_try_frame(channel_id: u16, frame: AMQPFrame) -> Option<Self>;
    fn try_from(channel_id: u16, frame: AMQPFrame) -> (r: Result<Self>)
        ensures r == (match Self::spec_try_frame(channel_id, frame) { Some(v) => Ok::<Self, Error>(v), None => Err::<Self, Error>(Error::FrameUnexpected) });
}

impl<T: TryFromAmqpClass> TryFromAmqpFrame for T {
    open spec fn spec_try_frame(expected_id: u16, frame: AMQPFrame) -> Option<Self> {
        match frame { AMQPFrame::Method(channel_id, method) => if expected_id == channel_id { T::spec_try(method) } else { None }, _ => None }
    }
    fn try_from(expected_id: u16, frame: AMQPFrame) -> Result<Self> {
        match frame {
            AMQPFrame::Method(channel_id, method) => {
                if expected_id == channel_id {
                    Self::try_from(method)
                } else {
                    FrameUnexpectedSnafu.fail()
                }
            }
            _ => FrameUnexpectedSnafu.fail(),
        }
    }
}

pub mod handshake {
    use super::{AMQPFrame, AMQPClass, AmqpConnection, Start, Result};
    use super::TryFromAmqpFrame;
    use vstd::prelude::*;
    fn use_it(frame: AMQPFrame) -> (r: Result<Start>)
        ensures r is Ok ==> (frame matches AMQPFrame::Method(0, AMQPClass::Connection(AmqpConnection::Start(v))) && r->Ok_0 == v)
    {
        let start = Start::try_from(0, frame)?;
        Ok(start)
    }
    
}
fn main() {}
}
