use vstd::prelude::*;
use std::cmp::Ordering;
verus! {
global size_of usize == 8;

pub enum Error { FrameUnexpected }
pub type Result<T> = std::result::Result<T, Error>;
pub struct Props { pub x: u8 }
pub struct AMQPContentHeader { pub class_id: u16, pub body_size: u64, pub properties: Props }
pub struct Deliver { pub consumer_tag: String, pub delivery_tag: u64 }
pub struct Delivery { pub channel_id: u16, pub delivery_tag: u64, pub body: Vec<u8>, pub properties: Props }

impl Delivery {
    pub fn new(channel_id: u16, deliver: Deliver, body: Vec<u8>, properties: Props) -> (String, Delivery) {
        (deliver.consumer_tag, Delivery { channel_id, delivery_tag: deliver.delivery_tag, body, properties })
    }
}

trait ContentType {
    type Start;
    type Finish;

    fn new(
        channel_id: u16,
        start: Self::Start,
        buf: Vec<u8>,
        properties: Props,
    ) -> Self::Finish;
}

impl ContentType for Delivery {
    type Start = Deliver;
    type Finish = (String, Delivery);

    fn new(
        channel_id: u16,
        start: Self::Start,
        buf: Vec<u8>,
        properties: Props,
    ) -> Self::Finish {
        Delivery::new(channel_id, start, buf, properties)
    }
}

enum Content<T: ContentType> {
    Done(T::Finish),
    NeedMore(State<T>),
}

enum State<T: ContentType> {
    Start(T::Start),
    Body(T::Start, AMQPContentHeader, Vec<u8>),
}

impl<T: ContentType> State<T> {
    fn collect_header(self, channel_id: u16, header: AMQPContentHeader) -> Result<Content<T>> {
        match self {
            State::Start(start) => {
                if header.body_size == 0 {
                    Ok(Content::Done(T::new(
                        channel_id,
                        start,
                        Vec::new(),
                        header.properties,
                    )))
                } else {
                    let buf = Vec::with_capacity(header.body_size as usize);
                    Ok(Content::NeedMore(State::Body(start, header, buf)))
                }
            }
            State::Body(_, _, _) => Err(Error::FrameUnexpected),
        }
    }

    fn collect_body(self, channel_id: u16, mut body: Vec<u8>) -> Result<Content<T>> {
        match self {
            State::Body(start, header, mut buf) => {
                let body_size = header.body_size as usize;
                buf.append(&mut body);
                match buf.len().cmp(&body_size) {
                    Ordering::Equal => {
                        Ok(Content::Done(T::new(
                            channel_id,
                            start,
                            buf,
                            header.properties,
                        )))
                    },
                    Ordering::Less => {
                        Ok(Content::NeedMore(State::Body(start, header, buf)))
                    }
                    _ => {
                        Err(Error::FrameUnexpected)
                    }
                }
            }
            State::Start(_) => Err(Error::FrameUnexpected),
        }
    }
}

pub struct Holder { pub kind: Option<u8>, pub id: u16 }
impl Holder {
    fn f(&mut self, x: u8) -> Result<()> {
        assert!(self.id != 0, "channel 0 cannot");
        debug_assert!(x > 0);
        match self.kind.take() {
            None => { self.kind = Some(x); Ok(()) }
            Some(_) => Err(Error::FrameUnexpected),
        }
    }
}

fn main() {}
}
