use vstd::prelude::*;
use std::marker::PhantomData;
verus! {
global size_of usize == 8;
pub const MIN_READ: usize = 4096;
pub enum Error { MalformedFrame, UnexpectedSocketClose, IoErrorReadingSocket, Handler }
pub type Result<T> = std::result::Result<T, Error>;

pub enum ErrorKind { WouldBlock, Other }
pub struct IoError { pub k: ErrorKind }
impl IoError { pub fn kind(&self) -> (r: ErrorKind) { match self.k { ErrorKind::WouldBlock => ErrorKind::WouldBlock, ErrorKind::Other => ErrorKind::Other } } }

pub trait Read { 
    fn read(&mut self, buf: &mut [u8]) -> std::result::Result<usize, IoError>;
}

// mirror of input_buffer::InputBuffer
#[verifier::external_body]
pub struct InputBuffer { v: Vec<u8> }
pub struct DoRead<'a> { pub b: &'a mut InputBuffer }
impl InputBuffer {
    pub uninterp spec fn view(&self) -> Seq<u8>;
    #[verifier::external_body]
    pub fn new() -> (r: Self) ensures r@.len() == 0 { unimplemented!() }
    #[verifier::external_body]
    pub fn chunk(&self) -> (r: &[u8]) ensures r@ == self@ { unimplemented!() }
    #[verifier::external_body]
    pub fn advance(&mut self, n: usize) requires n <= old(self)@.len() ensures final(self)@ == old(self)@.skip(n as int) { unimplemented!() }
    #[verifier::external_body]
    pub fn prepare_reserve(&mut self, n: usize) -> (r: DoRead<'_>) { unimplemented!() }
}
impl<'a> DoRead<'a> {
    #[verifier::external_body]
    pub fn read_from<S: Read>(self, s: &mut S) -> (r: std::result::Result<usize, IoError>) { unimplemented!() }
}

trait FrameKind {
    type Frame;
    fn parse_size(buf: &[u8]) -> Option<usize>;
    fn parse_frame(buf: &[u8]) -> Result<Self::Frame>;
}

struct Inner<Kind: FrameKind> {
    buf: InputBuffer,
    phantom: PhantomData<Kind>,
}

impl<Kind: FrameKind> Inner<Kind> {
    #[verifier::exec_allows_no_decreases_clause]
    fn read_from<S, F>(&mut self, stream: &mut S, mut handler: F) -> Result<usize>
    where
        S: Read,
        F: FnMut(Kind::Frame) -> Result<()>,
    {
        let mut bytes_read = 0;

        loop {
            let bytes = self.buf.chunk();
            let frame_size = Kind::parse_size(bytes);
            let mut reserve = MIN_READ;

            if let Some(frame_size) = frame_size {
                if bytes.len() >= frame_size {
                    let frame = Kind::parse_frame(&bytes[..frame_size])?;
                    handler(frame)?;
                    self.buf.advance(frame_size);
                    continue;
                } else {
                    reserve = usize::max(MIN_READ, frame_size);
                }
            }

            match self.buf.prepare_reserve(reserve).read_from(stream) {
                Ok(0) => return Err(Error::UnexpectedSocketClose),
                Ok(n) => {
                    bytes_read += n;
                }
                Err(err) => match err.kind() {
                    ErrorKind::WouldBlock => return Ok(bytes_read),
                    _ => return Err(Error::IoErrorReadingSocket),
                },
            }
        }
    }
}

fn main() {}
}
