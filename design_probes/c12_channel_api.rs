#![allow(unused_imports, dead_code, unused_variables, unused_mut)]
use vstd::prelude::*;
use std::fmt::Debug;
verus! {
pub enum Error { X }
pub type Result<T> = std::result::Result<T, Error>;
#[derive(Debug)]
pub struct Qos { pub prefetch_size: u32, pub prefetch_count: u16, pub global: bool }
#[derive(Debug)]
pub struct QosOk {}
#[derive(Debug)]
pub struct Publish_ { pub ticket: u16, pub exchange: String, pub routing_key: String, pub mandatory: bool, pub immediate: bool }
#[derive(Debug)]
pub struct PurgeOk { pub message_count: u32 }
#[derive(Debug)]
pub struct QueuePurge { pub ticket: u16, pub queue: String, pub nowait: bool }
#[derive(Debug)]
pub enum AmqpBasic { Qos(Qos), Publish(Publish_) }
#[derive(Debug)]
pub enum AmqpQueue { Purge(QueuePurge) }
pub enum AMQPClass { Basic(AmqpBasic), Queue(AmqpQueue) }
pub trait IntoAmqpClass { spec fn class(self) -> AMQPClass; fn into_class(self) -> (r: AMQPClass) ensures r == self.class(); }
impl IntoAmqpClass for AmqpBasic { open spec fn class(self) -> AMQPClass { AMQPClass::Basic(self) } fn into_class(self) -> AMQPClass { AMQPClass::Basic(self) } }
impl IntoAmqpClass for AmqpQueue { open spec fn class(self) -> AMQPClass { AMQPClass::Queue(self) } fn into_class(self) -> AMQPClass { AMQPClass::Queue(self) } }
pub trait TryFromAmqpClass: Sized { }
impl TryFromAmqpClass for QosOk {}
impl TryFromAmqpClass for PurgeOk {}

pub uninterp spec fn permitted(ch: int, m: AMQPClass, wait: bool) -> bool;
pub uninterp spec fn emitted(ch: int, m: AMQPClass, wait: bool) -> bool;

#[verifier::external_body]
pub struct ChannelHandle { _p: u8 }
impl ChannelHandle {
    pub uninterp spec fn id(&self) -> int;
    #[verifier::external_body]
    pub fn call<M: IntoAmqpClass + Debug, T: TryFromAmqpClass>(&mut self, method: M) -> (r: Result<T>)
        requires permitted(old(self).id(), method.class(), true),
        ensures final(self).id() == old(self).id(), r is Ok ==> emitted(old(self).id(), method.class(), true),
    { unimplemented!() }
    #[verifier::external_body]
    pub fn call_nowait<M: IntoAmqpClass + Debug>(&mut self, method: M) -> (r: Result<()>)
        requires permitted(old(self).id(), method.class(), false),
        ensures final(self).id() == old(self).id(), r is Ok ==> emitted(old(self).id(), method.class(), false),
    { unimplemented!() }
}
// mirror of std::cell::RefCell (assumption: no re-entrant borrow)
#[verifier::external_body]
#[verifier::reject_recursive_types(T)]
pub struct RefCell<T> { _p: core::marker::PhantomData<T> }
impl<T> RefCell<T> {
    pub uninterp spec fn inner(&self) -> T;
    #[verifier::external_body]
    pub fn borrow_mut(&self) -> (r: &mut T) ensures *r == self.inner() { unimplemented!() }
}

pub struct Channel { inner: RefCell<ChannelHandle>, closed: bool }

impl Channel {
    pub closed spec fn id(&self) -> int { self.inner.inner().id() }

    fn call<M: IntoAmqpClass + Debug, T: TryFromAmqpClass>(&self, method: M) -> (r: Result<T>)
        requires permitted(self.id(), method.class(), true),
        ensures r is Ok ==> emitted(self.id(), method.class(), true),
    {
        self.inner.borrow_mut().call(method)
    }

    fn call_nowait<M: IntoAmqpClass + Debug>(&self, method: M) -> (r: Result<()>)
        requires permitted(self.id(), method.class(), false),
        ensures r is Ok ==> emitted(self.id(), method.class(), false),
    {
        self.inner.borrow_mut().call_nowait(method)
    }

    pub fn qos(&self, prefetch_size: u32, prefetch_count: u16, global: bool) -> (r: Result<()>)
        requires forall|c: int, m: AMQPClass, w: bool| #[trigger] permitted(c, m, w) <==>
            (c == self.id() && w && m == AMQPClass::Basic(AmqpBasic::Qos(Qos { prefetch_size, prefetch_count, global }))),
        ensures r is Ok ==> emitted(self.id(), AMQPClass::Basic(AmqpBasic::Qos(Qos { prefetch_size, prefetch_count, global })), true),
    {
        self.call::<_, QosOk>(AmqpBasic::Qos(Qos {
            prefetch_size,
            prefetch_count,
            global,
        }))
        .map(|_qos_ok| ())
    }

    pub fn queue_purge<S: Into<String>>(&self, queue: S) -> (r: Result<u32>)
    {
        let purge = AmqpQueue::Purge(QueuePurge {
            ticket: 0,
            queue: queue.into(),
            nowait: false,
        });
        self.call::<_, PurgeOk>(purge)
            .map(|ok| ok.message_count)
    }
}

fn main() {}
}
