use vstd::prelude::*;
verus! {
global size_of usize == 8;
pub assume_specification [u16::max_value] () -> (r: u16) ensures r == u16::MAX;
#[derive(Clone, Copy, PartialEq, Eq)]
pub struct Token(pub usize);
const STREAM: Token = Token(u16::MAX as usize + 1);
const HEARTBEAT: Token = Token(u16::MAX as usize + 2);
pub struct Event { pub t: Token }
impl Event { pub fn token(&self) -> (r: Token) ensures r == self.t { self.t } }
pub enum St { Steady(u8), Closing, ClientClosed }

fn handle(state: &mut St, event: Event) -> (r: Result<(), ()>)
    requires event.t.0 <= u16::MAX as usize + 2,
{
    match event.token() {
        STREAM => {}
        HEARTBEAT => {}
        Token(0) => match &state {
            St::Steady(_) => {}
            St::Closing | St::ClientClosed => {
                unreachable!("ch0 slot cannot be readable after it is dropped")
            }
        },
        Token(n) if n <= u16::max_value() as usize => {}
        _ => unreachable!(),
    }
    Ok(())
}
fn main() {}
}
