use vstd::prelude::*;
use std::collections::hash_map::{Entry, HashMap};
verus! {
broadcast use vstd::std_specs::hash::group_hash_axioms;

pub struct Tx { pub x: u8 }
pub struct Slot { pub consumers: HashMap<String, Tx> }

pub broadcast axiom fn axiom_string_key_model()
    ensures #[trigger] vstd::std_specs::hash::obeys_key_model::<String>();

fn cancel(slot: &mut Slot, consumer_tag: String) -> (r: Option<Tx>)
    ensures
        final(slot).consumers@ == old(slot).consumers@.remove(consumer_tag),
        r is Some <==> old(slot).consumers@.contains_key(consumer_tag),
{
    broadcast use axiom_string_key_model;
    slot.consumers.remove(&consumer_tag)
}

fn consume_ok(slot: &mut Slot, consumer_tag: String, tx: Tx) -> (r: bool)
    ensures
        r ==> !old(slot).consumers@.contains_key(consumer_tag) && final(slot).consumers@ == old(slot).consumers@.insert(consumer_tag, tx),
        !r ==> final(slot).consumers@ == old(slot).consumers@,
{
    broadcast use axiom_string_key_model;
    match slot.consumers.entry(consumer_tag.clone()) {
        Entry::Occupied(_) => false,
        Entry::Vacant(entry) => { entry.insert(tx); true }
    }
}

fn main() {}
}
